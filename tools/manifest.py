#!/usr/bin/env python3
"""Regenerates /verif/MANIFEST.json from tools/claims.json (the table of
implemented checks) and properties.jsonl; unclaimed properties are listed
under not_applicable with their reason."""
import json, os
here = os.path.dirname(os.path.abspath(__file__))
root = os.path.dirname(here)
props = [json.loads(l) for l in open(os.path.join(root, 'properties.jsonl'))]
claims = json.load(open(os.path.join(here, 'claims.json')))
checks, na = [], []
for p in props:
    c = claims["checks"].get(p["id"])
    if c:
        checks.append({
            "property_id": p["id"],
            "quick_cmd": f"./run.sh {p['id']} quick",
            "thorough_cmd": f"./run.sh {p['id']} thorough",
            "evidence_file": f"/verif/evidence/{p['id']}.json",
            "replay_cmd_template": "cat {path}",
            "engine": "amcheck",
            "level_claimed": {"category": c["level"], "text": c["text"], "design_ref": c.get("design_ref", "DESIGN.md section 4, " + p["id"])},
            "level_note": c["note"],
            "technique": c["technique"],
        })
    else:
        na.append({"property_id": p["id"], "reason": claims["not_applicable"].get(p["id"], "check not implemented yet in this revision (planned, see DESIGN.md section 4)")})
m = {
    "version": 1,
    "setup_cmd": "./setup.sh",
    "hooks": {"guard": "verif", "enable": "none: the checks analyse the source of /repo without executing it; no hook is compiled in", "baseline_off_cmd": "cd /repo && go test -mod=mod -vet=off -count=1 -timeout 25m ./...", "source_commits": [], "add_only": True},
    "engines": [{"name": "amcheck", "path": "/verif/checker", "serves_properties": [c["property_id"] for c in checks], "kind_free_text": "custom static analyser over go/packages + go/ssa (generics instantiated) + VTA/CHA call graphs + regexp/syntax trees; nothing in /repo is executed"}],
    "checks": checks,
    "notes": claims.get("notes", ""),
    "not_applicable": na,
}
json.dump(m, open(os.path.join(root, 'MANIFEST.json'), 'w'), indent=1)
print(f"{len(checks)} checks, {len(na)} not applicable")
