#!/bin/sh
# validates MANIFEST.json and every evidence file against the schemas
python3-vt - <<'PY'
import json, jsonschema, glob, sys
ok = True
m = json.load(open('/verif/MANIFEST.json'))
jsonschema.validate(m, json.load(open('/root/.vp/MANIFEST.schema.json')))
es = json.load(open('/root/.vp/EVIDENCE.schema.json'))
for c in m['checks']:
    f = c['evidence_file']
    try:
        e = json.load(open(f))
        jsonschema.validate(e, es)
        assert e['property_id'] == c['property_id'] and e['level'] == c['level_claimed']['category'], "id/level mismatch"
        if e['level'] == 'proof':
            assert e['coverage']['obligations'] == e['coverage']['discharged'], "proof: obligations != discharged"
    except Exception as ex:
        ok = False
        print("BAD", f, str(ex)[:200])
print("validation", "ok" if ok else "FAILED", len(m['checks']), "checks")
sys.exit(0 if ok else 1)
PY
