#!/bin/bash
# benignrun.sh <dir-with-*/patch.diff> [jobs] [outdir] — runs all 20 quick checks against each
# behaviour-preserving patch; every check must stay silent. One result file per patch in
# outdir (default /tmp/benign-res); prints a summary of the checks that fired.
D="$(readlink -f "$1")"; J="${2:-6}"; O="${3:-/tmp/benign-res}"
cd /verif
rm -rf "$O"; mkdir -p "$O"
# run against a snapshot of the checker so that it can be rebuilt meanwhile
if [ -z "${AMCHECK:-}" ]; then cp bin/amcheck "$O/amcheck.snapshot"; export AMCHECK="$O/amcheck.snapshot"; fi
ALL=$(for n in $(seq -w 1 20); do echo -n " C$n"; done)
find "$D" -name patch.diff | sort | while read f; do
  tag=$(echo "${f#$D/}" | sed 's#/patch.diff##; s#/#_#g')
  echo "$O/$tag $f silent$ALL"
done > "$O/args"
xargs -a "$O/args" -P "$J" -L 1 sh -c 'o="$1"; shift; tools/mutant.sh "$@" > "$o" 2>&1' sh
for f in "$O"/C*; do
  fired=$(grep -E "^BAD" -A1 "$f" | grep -oE "^BAD  patch.diff C[0-9]+|(VIOLATED|UNDECIDED) \\[[^]]*\\]" | sed -E "s/^BAD  patch.diff //" | tr "\\n" " ")
  skip=$(grep -c "^SKIP" "$f")
  [ -n "$fired$skip" ] && [ "$fired$skip" != "0" ] && echo "$(basename $f): $fired $( [ $skip != 0 ] && echo SKIP)"
done
echo "patches: $(ls "$O"/C* | wc -l), with fires: $(grep -l "^BAD" "$O"/C* | wc -l)"
