#!/bin/bash
# benignrun.sh <dir-with-*/patch.diff> [jobs] — runs all 20 quick checks against each
# behaviour-preserving patch; every check must stay silent. Prints failures.
D="$1"; J="${2:-6}"
cd /verif
ALL=$(for n in $(seq -w 1 20); do echo -n "C$n "; done)
find "$D" -name patch.diff | sort | while read f; do echo "$f silent $ALL"; done > /tmp/benign.args
xargs -a /tmp/benign.args -P "$J" -L 1 sh -c 'out=$(tools/mutant.sh "$@" 2>&1); echo "== $1"; echo "$out" | grep -E "^(BAD|SKIP|NOTE)" -A2 | cut -c1-400' sh
