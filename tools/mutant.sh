#!/bin/sh
# mutant.sh <patch> <fire|silent> <prop> [<prop>...]
# Applies <patch> to a scratch copy of /repo's working tree (outside /repo
# and /verif), checks that it still builds, runs the given checks against
# the copy and reports whether each fired. The copy is removed afterwards.
# Exit 0 when every check behaved as expected.
set -u
PATCH="$(readlink -f "$1")"; EXPECT="$2"; shift 2
export GOFLAGS=-mod=mod GOPROXY=off GOSUMDB=off GOTOOLCHAIN=local GOWORK=off CGO_ENABLED=0
REPO="${VERIF_REPO:-/repo}"
S=$(mktemp -d "${TMPDIR:-/tmp}/am-mut.XXXXXX")
trap 'rm -rf "$S"' EXIT
rsync -a --exclude .git "$REPO/" "$S/repo/"
if ! (cd "$S/repo" && patch -p1 -s --no-backup-if-mismatch < "$PATCH") ; then echo "SKIP $PATCH: does not apply"; exit 3; fi
if ! (cd "$S/repo" && go build ./... 2>"$S/build.log"); then echo "SKIP $PATCH: does not build"; head -5 "$S/build.log"; exit 3; fi
if [ "${MUT_TESTS:-0}" = 1 ]; then
  if ! (cd "$S/repo" && go test -vet=off -count=1 ./... >"$S/test.log" 2>&1); then echo "NOTE $PATCH: baseline tests FAIL with this patch"; grep -E "^(--- FAIL|FAIL)" "$S/test.log" | head -5; fi
fi
rc=0
for P in "$@"; do
  "${AMCHECK:-/verif/bin/amcheck}" -p "$P" -tier quick -repo "$S/repo" -out "$S/ev" -known /verif/known_findings.json >"$S/out.$P" 2>&1
  code=$?
  if [ $code -ne 0 ]; then got=fire; else got=silent; fi
  if [ "$got" = "$EXPECT" ]; then
    echo "ok   $(basename $PATCH) $P $got: $(grep -m1 -E 'VIOLATED|UNDECIDED' "$S/out.$P" | cut -c1-260)"
  else
    echo "BAD  $(basename $PATCH) $P expected $EXPECT got $got"; grep -E 'VIOLATED|UNDECIDED|LOAD|panic' "$S/out.$P" | head -8 | cut -c1-300
    rc=1
  fi
done
exit $rc
