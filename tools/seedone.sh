#!/bin/bash
# seedone.sh <seed-id>: all 20 quick checks against one seeded change (in a
# scratch copy of /repo, removed afterwards); result line in $OUT/<seed-id>
id="$1"
export GOFLAGS=-mod=mod GOPROXY=off GOSUMDB=off GOTOOLCHAIN=local GOWORK=off CGO_ENABLED=0
S=$(mktemp -d "${TMPDIR:-/tmp}/am-seedrun.XXXXXX")
rsync -a --exclude .git /repo/ "$S/repo/"
if ! (cd "$S/repo" && patch -p1 -s --no-backup-if-mismatch < "/verif/seeded/$id/patch.diff"); then echo "$id APPLY-FAIL" > "$OUT/$id"; rm -rf "$S"; exit 0; fi
fired=""
for n in $(seq -w 1 20); do
  P="C$n"
  if ! "${AMCHECK:-/verif/bin/amcheck}" -p "$P" -tier quick -repo "$S/repo" -out "$S/ev" -known /verif/known_findings.json > "$S/out.$P" 2>&1; then
    rule=$(grep -m1 -E 'VIOLATED|UNDECIDED|LOAD FAILURE' "$S/out.$P" | sed -E 's/^[^ ]+ (VIOLATED|UNDECIDED) \[([^]]*)\].*/\2/' | cut -c1-60)
    fired="$fired $P[$rule]"
  fi
done
echo "$id$fired" > "$OUT/$id.tmp" && mv "$OUT/$id.tmp" "$OUT/$id"
rm -rf "$S"
