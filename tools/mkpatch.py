#!/usr/bin/env python3
"""mkpatch.py OUT.patch FILE OLD NEW [FILE OLD NEW ...]
Builds a unified diff against /repo's current working tree by exact string
replacement (OLD must occur exactly once in FILE; prefix OLD with 'N:' to
pick the N-th occurrence, 1-based)."""
import sys, difflib, os, re
out = sys.argv[1]
args = sys.argv[2:]
repo = os.environ.get("VERIF_REPO", "/repo")
files = {}
for i in range(0, len(args), 3):
    f, old, new = args[i:i+3]
    src = files.get(f)
    if src is None:
        src = open(os.path.join(repo, f)).read()
        files[f] = src
        files[f + "\0orig"] = src
    m = re.match(r'^(\d+):', old)
    nth = None
    if m:
        nth = int(m.group(1)); old = old[m.end():]
    cnt = src.count(old)
    if nth is None:
        if cnt != 1:
            sys.exit(f"{f}: OLD occurs {cnt} times: {old!r}")
        src = src.replace(old, new)
    else:
        if cnt < nth:
            sys.exit(f"{f}: OLD occurs only {cnt} times: {old!r}")
        idx = -1
        for _ in range(nth):
            idx = src.index(old, idx + 1)
        src = src[:idx] + new + src[idx+len(old):]
    files[f] = src
diff = []
for f in [k for k in files if "\0" not in k]:
    a = files[f + "\0orig"].splitlines(keepends=True)
    b = files[f].splitlines(keepends=True)
    diff += list(difflib.unified_diff(a, b, "a/" + f, "b/" + f))
if not diff:
    sys.exit("no change")
os.makedirs(os.path.dirname(out), exist_ok=True)
open(out, "w").write("".join(diff))
print("wrote", out)
