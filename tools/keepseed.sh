#!/bin/sh
# keepseed.sh <seed-id> <property> <src-dir> <demo-file> <demo-dest-dir-in-repo> <needs...>
# Confirms a sub-agent's breaking change in a scratch copy of /repo (builds,
# baseline tests pass with it, demonstration fails with it and passes
# without it) and, if confirmed, stores it under /verif/seeded/<seed-id>/.
set -u
ID="$1"; PROP="$2"; SRC="$3"; DEMO="$4"; DEST="$5"; shift 5; NEEDS="$*"
export GOFLAGS=-mod=mod GOPROXY=off GOSUMDB=off GOTOOLCHAIN=local GOWORK=off
S=$(mktemp -d "${TMPDIR:-/tmp}/am-seed.XXXXXX"); trap 'rm -rf "$S"' EXIT
rsync -a --exclude .git /repo/ "$S/clean/"; rsync -a --exclude .git /repo/ "$S/mut/"
(cd "$S/mut" && patch -p1 -s --no-backup-if-mismatch < "$SRC/patch.diff") || { echo "REJECT $ID: patch does not apply"; exit 1; }
(cd "$S/mut" && go build ./...) || { echo "REJECT $ID: does not build"; exit 1; }
(cd "$S/mut" && go test -vet=off -count=1 ./... > "$S/base.log" 2>&1) || { echo "REJECT $ID: baseline tests fail with the change"; grep -E '^(--- FAIL|FAIL)' "$S/base.log" | head; exit 1; }
cp "$SRC/$DEMO" "$S/mut/$DEST/"; cp "$SRC/$DEMO" "$S/clean/$DEST/"
(cd "$S/clean" && go test -vet=off -count=1 "./$DEST/" > "$S/clean.log" 2>&1) || { echo "REJECT $ID: demo fails on the unchanged code"; tail -5 "$S/clean.log"; exit 1; }
if (cd "$S/mut" && go test -vet=off -count=1 "./$DEST/" > "$S/mut.log" 2>&1); then echo "REJECT $ID: demo passes with the change"; exit 1; fi
mkdir -p "/verif/seeded/$ID"
cp "$SRC/patch.diff" "/verif/seeded/$ID/patch.diff"; cp "$SRC/$DEMO" "/verif/seeded/$ID/"; [ -f "$SRC/notes.md" ] && cp "$SRC/notes.md" "/verif/seeded/$ID/notes.md"
FAILLINE=$(grep -m1 -E '^(--- FAIL|panic:|FAIL)' "$S/mut.log" | sed 's/"/\\"/g')
cat > "/verif/seeded/$ID/meta.json" <<EOM
{
 "id": "$ID",
 "property": "$PROP",
 "origin": "independent sub-agent given only the property text and a scratch worktree of /repo",
 "needs_to_manifest": "$NEEDS",
 "demonstration": "$DEMO (copy to $DEST/)",
 "confirmed": {
  "repo_head": "$(git -C /repo rev-parse --short HEAD)",
  "ran": ["patch -p1 < patch.diff (scratch copy of /repo)", "go build ./...  -> ok", "go test -vet=off -count=1 ./...  -> all packages ok with the change", "go test ./$DEST/ with the demo on the unchanged copy -> ok", "go test ./$DEST/ with the demo on the changed copy -> FAIL"],
  "demo_failure": "$FAILLINE"
 }
}
EOM
echo "KEPT $ID"
