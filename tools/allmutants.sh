#!/bin/bash
# allmutants.sh [jobs] [ids...] — run every frozen mutant (fire) and benign variant (silent)
# of the given properties (default: all) in parallel; prints only failures and a summary.
J=${1:-8}; shift
cd /verif
IDS="$@"; [ -z "$IDS" ] && IDS=$(ls mutants)
list=$(mktemp)
for id in $IDS; do
  for f in mutants/$id/*.patch; do [ -f "$f" ] && echo "$f fire $id" >>$list; done
  for f in mutants/$id/benign/*.patch; do [ -f "$f" ] && echo "$f silent $id" >>$list; done
done
out=$(mktemp)
if [ -z "${AMCHECK:-}" ]; then snap=$(mktemp); cp bin/amcheck "$snap"; chmod +x "$snap"; export AMCHECK="$snap"; fi
xargs -a $list -P $J -L 1 tools/mutant.sh >$out 2>&1
grep -c '^ok' $out | sed 's/^/ok: /'
grep -E '^(BAD|SKIP|NOTE)' -A3 $out
rm -f $list $out ${snap:-}
