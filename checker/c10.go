package main

import (
	"fmt"
	"go/constant"
	"strings"

	"golang.org/x/tools/go/ssa"
	"golang.org/x/tools/go/ssa/ssautil"
)

func init() { register("C10", "other", checkC10) }

func checkC10(c *Check) {
	p := c.P
	c.Explanation = "Decides the causal-order clause and the structural preconditions of untorn lines. (1) Causal order: a login's identity can reach a UserAction only after the hand-over, which only follows the write of its UserLogin (write-before-forward rules of C05) and no UserAction is emitted before a login is bound (emit-only-bound of C04). (2) One encode per event, straight to the descriptor: the io.Writer given to the shared EventWriter is the *os.File returned by the dependency's open helper with nothing buffering in between; every os.OpenFile of that helper carries O_APPEND; EventWriter.Write performs exactly one Encode. (3) Nothing is written twice: at most one emit per delivery and per sshd line, hold queue emptied after a successful flush (rules of C02/C11). (4) One writer object: the sshd processor and the audit processor receive the same EventWriter value, and every EventWriter used for emitting derives from it. The atomicity of concurrent write(2) calls on an O_APPEND regular file is the kernel's contract (trusted)."
	c.Rule("causal-order (imports) / writer-is-the-append-file / one-encode-per-event / one-writer-object / not-written-twice (imports)")
	c.Trust("write(2) on an O_APPEND regular file is atomic with respect to other writers of the same file (POSIX / Linux, for the event sizes produced)", "encoding/json.Encoder.Encode issues a single Write of the encoded value plus newline")
	run := p.Func("cmd", "RunNamedPipe")
	if !c.Anchor("cmd.RunNamedPipe", run != nil) {
		return
	}
	c.Fn(funcDisplayName(run))
	// 2 + 4: writers created in package cmd
	var fns []*ssa.Function
	for _, fn := range p.AllRepoFuncs() {
		if p.InDaemon(fn) {
			fns = append(fns, fn)
		}
	}
	var writers []*ssa.Call // calls creating EventWriters anywhere in the daemon
	for _, fn := range fns {
		allInstrs(fn, func(in ssa.Instruction) {
			cl, ok := in.(*ssa.Call)
			if !ok {
				return
			}
			sc := staticCallee(cl.Common())
			if sc == nil {
				return
			}
			if sc.String() == "github.com/metal-toolbox/auditevent.NewDefaultAuditEventWriter" || sc.String() == "github.com/metal-toolbox/auditevent.NewAuditEventWriter" {
				writers = append(writers, cl)
			}
		})
	}
	c.Cond(len(writers) == 1, "one-writer-object", "EventWriter constructions in the daemon", p.Pos(run.Pos()), "exactly one EventWriter is created", fmt.Sprintf("%d EventWriters are created: the two pipelines write through different objects (separate buffering/encoders), so whole-line output is no longer guaranteed by one append-mode descriptor", len(writers)))
	if len(writers) == 0 {
		return
	}
	r := NewResolver(p)
	for _, wcall := range writers {
		sc := staticCallee(wcall.Common())
		name := "writer created in " + wcall.Parent().Name()
		if sc.Name() != "NewDefaultAuditEventWriter" {
			c.Bad("writer-is-the-append-file", name, p.InstrPos(wcall), "the EventWriter is built on a custom encoder: one-encode-per-event straight to the descriptor cannot be established")
			continue
		}
		wo := NewResolver(p).Of(wcall.Call.Args[0])
		ok := wo.K == "call" && strings.HasPrefix(wo.Name, "github.com/metal-toolbox/auditevent/helpers.Open") && wo.Idx == 0
		c.Cond(ok, "writer-is-the-append-file", name, p.InstrPos(wcall), "the io.Writer is the *os.File returned by "+wo.Name, "the events are not written straight to the file opened by the append-mode helper ("+trimOrg(wo.String())+"): a buffering or wrapping writer flushes at byte boundaries, so lines of concurrently written events can be torn or interleaved")
		if ok {
			openHelperAppend(c, wo.V.(*ssa.Call))
		}
	}
	// dependency: EventWriter.Write = one Encode; NewDefaultAuditEventWriter = json.NewEncoder(w)
	wobj := p.ExtObj("github.com/metal-toolbox/auditevent", "EventWriter", "Write")
	var wf *ssa.Function
	for fn := range allFuncs(p) {
		if fn.Object() == wobj {
			wf = fn
		}
	}
	if c.Anchor("SSA of (*auditevent.EventWriter).Write", wf != nil && wf.Blocks != nil) {
		n := 0
		allInstrs(wf, func(in ssa.Instruction) {
			if cl, ok := in.(*ssa.Call); ok && cl.Common().IsInvoke() && cl.Common().Method.Name() == "Encode" {
				n++
			}
		})
		c.Cond(n == 1, "one-encode-per-event", "(*auditevent.EventWriter).Write", p.Pos(wf.Pos()), "exactly one Encode per Write", fmt.Sprintf("%d Encode calls per Write", n))
	}
	// 4. both pipelines receive the same writer
	var sshdW, audW *Org
	var sshdPos, audPos string
	var all []*ssa.Function
	for _, fn := range p.AllRepoFuncs() {
		if FuncPkgPath(fn) == FuncPkgPath(run) && fn.Blocks != nil {
			all = append(all, fn)
		}
	}
	// origin of a value, parameters of extracted functions resolved at their call sites
	upOrg := func(fn *ssa.Function, v ssa.Value) *Org {
		os := resolveUp(p, fn, v, 0)
		if len(os) == 0 {
			return nil
		}
		for _, o := range os[1:] {
			if !sameValue(o, os[0]) {
				return &Org{K: "phi", Sub: os}
			}
		}
		return os[0]
	}
	for _, fn := range all {
		allInstrs(fn, func(in ssa.Instruction) {
			switch x := in.(type) {
			case *ssa.Call:
				if sc := staticCallee(x.Common()); sc != nil && sc.Name() == "NewSshdProcessor" && InRepo(sc) {
					for _, a := range x.Call.Args {
						if typeName(a.Type()) == "*auditevent.EventWriter" {
							sshdW = upOrg(fn, a)
							sshdPos = p.InstrPos(in)
						}
					}
				}
			case *ssa.Store:
				if fa, ok := x.Addr.(*ssa.FieldAddr); ok && fieldName(fa.X.Type(), fa.Field) == "EventW" {
					if n := namedOf(fa.X.Type()); n != nil && n.Obj().Name() == "Auditd" {
						audW = upOrg(fn, x.Val)
						audPos = p.InstrPos(in)
					}
				}
			}
		})
	}
	same := sshdW != nil && audW != nil && sameValue(sshdW, audW) && sshdW.K == "call" && sshdW.V == ssa.Value(writers[0])
	c.Cond(same, "one-writer-object", "EventWriter given to the sshd processor and to the audit processor", sshdPos+" / "+audPos, "both are the one EventWriter created on the append-mode file", "the two pipelines do not share one EventWriter: "+fmt.Sprintf("sshd gets %s, auditd gets %s", shortU(sshdW), shortU(audW)))
	// plumbing: every store to a field of type *EventWriter in the daemon stores a parameter or another such field
	nplumb := 0
	for _, fn := range fns {
		fr := NewResolver(p)
		allInstrs(fn, func(in ssa.Instruction) {
			st, ok := in.(*ssa.Store)
			if !ok {
				return
			}
			// the writer itself, or the writer held in a field of interface type
			sv := st.Val
			if mi, isMI := sv.(*ssa.MakeInterface); isMI {
				sv = mi.X
			}
			if typeName(sv.Type()) != "*auditevent.EventWriter" {
				return
			}
			fa, ok := st.Addr.(*ssa.FieldAddr)
			if !ok {
				return
			}
			nplumb++
			o := fr.Of(st.Val)
			good := true
			for _, a := range o.Alts() {
				if !(a.K == "param" || a.K == "field" || (a.K == "call" && a.V == ssa.Value(writers[0]))) {
					good = false
				}
			}
			c.Cond(good, "one-writer-object", "store to "+fieldName(fa.X.Type(), fa.Field)+" in "+fn.Name(), p.InstrPos(in), "the writer is passed on unchanged ("+trimOrg(o.String())+")", "an EventWriter field is set to "+trimOrg(o.String())+": events may go through another writer")
		})
	}
	c.Floor("EventWriter fields plumbed", 3, nplumb)
	_ = r
	// 1. causal order and 3. not written twice: imported rules
	n := importRules(c, "C05", checkC05, "causal-order: ", "write-before-forward", "write-error-no-forward", "who-may-send")
	n += importRules(c, "C04", checkC04, "causal-order: ", "emit-only-bound", "sessions-start-unbound")
	c.Floor("imported causal-order obligations", 10, n)
	// a flush that failed half-way is never run again: the failure stops the processor (rules of C15)
	importRules(c, "C15", checkC15, "not-written-twice: failed flush stops: ", "no-error-dropped", "processor-returns-received-error")
	m := importRules(c, "C02", checkC02, "not-written-twice: ", "exactly-one-of", "flush-shape: queue emptied after success")
	m += importRules(c, "C11", checkC11, "not-written-twice: ", "at-most-one-event")
	c.Floor("imported not-written-twice obligations", 20, m)
}

func allFuncs(p *Prog) map[*ssa.Function]bool { return ssautil.AllFunctions(p.SSA) }

// openHelperAppend: every os.OpenFile call of the dependency's open helper carries O_APPEND.
func openHelperAppend(c *Check, call *ssa.Call) {
	p := c.P
	sc := staticCallee(call.Common())
	if sc == nil || sc.Blocks == nil {
		c.Unk("writer-is-the-append-file", "open helper "+calleeName(call.Common()), p.InstrPos(call), "helper body not available")
		return
	}
	const oAppend = 0x400 // syscall.O_APPEND on linux
	n := 0
	allInstrs(sc, func(in ssa.Instruction) {
		cl, ok := in.(*ssa.Call)
		if !ok {
			return
		}
		f := staticCallee(cl.Common())
		if f == nil || f.String() != "os.OpenFile" {
			return
		}
		n++
		k, isK := cl.Call.Args[1].(*ssa.Const)
		okA := isK && k.Value != nil && k.Value.Kind() == constant.Int && k.Int64()&oAppend != 0
		c.Cond(okA, "writer-is-the-append-file", "os.OpenFile in "+sc.Name(), p.InstrPos(cl), fmt.Sprintf("flags %#x include O_APPEND", k.Int64()), "the events file is not opened in append mode: concurrent writers overwrite each other's lines")
	})
	c.Floor("os.OpenFile calls in the open helper", 1, n)
}

// eventWriterUnbuffered (C05; the same necessary condition as C10's
// writer-is-the-append-file, stated for the error contract): every
// EventWriter of the daemon encodes straight into the file returned by the
// open helper. Through a buffering or queueing writer Write reports success
// for an event that has not been written (and may never be), so "when the
// event cannot be written the error is returned and nothing is forwarded"
// fails: the login is handed over first and the error surfaces later, from
// a flush.
func eventWriterUnbuffered(c *Check, rule string) {
	p := c.P
	n := 0
	for _, fn := range p.AllRepoFuncs() {
		if !p.InDaemon(fn) {
			continue
		}
		allInstrs(fn, func(in ssa.Instruction) {
			cl, ok := in.(*ssa.Call)
			if !ok {
				return
			}
			sc := staticCallee(cl.Common())
			if sc == nil || !(sc.String() == "github.com/metal-toolbox/auditevent.NewDefaultAuditEventWriter" || sc.String() == "github.com/metal-toolbox/auditevent.NewAuditEventWriter") {
				return
			}
			n++
			name := "writer created in " + fn.Name()
			if sc.Name() != "NewDefaultAuditEventWriter" {
				c.Bad(rule, name, p.InstrPos(cl), "the EventWriter is built on a custom encoder: that a failed write is reported by the Write that caused it cannot be established")
				return
			}
			wo := NewResolver(p).Of(cl.Call.Args[0])
			okW := wo.K == "call" && strings.HasPrefix(wo.Name, "github.com/metal-toolbox/auditevent/helpers.Open") && wo.Idx == 0
			c.Cond(okW, rule, name, p.InstrPos(cl), "encodes straight into the file returned by "+wo.Name+": a failed write is the error of that Write", "the events go through a wrapping writer ("+trimOrg(wo.String())+"): a buffered or queued write reports success before anything is written, so the login is forwarded although its event cannot be written, and the error surfaces later")
		})
	}
	c.Floor("EventWriter constructions in the daemon", 1, n)
}
