package main

import (
	"fmt"
	"go/constant"
	"go/token"
	"go/types"

	"golang.org/x/tools/go/ssa"
)

// Init-time values. A package-level table (a slice of structs assigned once,
// in the package initialiser, and never written again) is evaluated
// symbolically: each element becomes a struct value whose fields are
// constants, functions, closures with their bindings, loads of other
// package-level variables, or pointers to struct literals. This is a partial
// evaluation of straight-line initialiser code (composite literals, calls of
// small constructor helpers that return a literal or a closure); anything
// else evaluates to "unknown" and the table is then not used.

type SV struct {
	K      string // const func closure global struct ptr nil unknown
	C      *ssa.Const
	Fn     *ssa.Function // func / closure
	Binds  []*SV         // closure bindings
	G      *ssa.Global   // global: the value loaded from G
	Fields map[int]*SV   // struct (by field index); ptr: fields of the pointee
	Src    ssa.Instruction
}

func (v *SV) String() string {
	if v == nil {
		return "<nil>"
	}
	switch v.K {
	case "const":
		return v.C.String()
	case "func":
		return v.Fn.Name()
	case "closure":
		return "closure(" + v.Fn.Name() + ")"
	case "global":
		return "*" + v.G.Name()
	}
	return v.K
}

type svEnv map[ssa.Value]*SV

// evalSV evaluates v in the function it belongs to; env binds parameters
// (and free variables) of that function.
func (p *Prog) evalSV(v ssa.Value, env svEnv, depth int) *SV {
	unk := &SV{K: "unknown"}
	if v == nil || depth > 8 {
		return unk
	}
	if sv, ok := env[v]; ok {
		return sv
	}
	switch x := v.(type) {
	case *ssa.Const:
		if x.Value == nil && isNillable(x.Type()) {
			return &SV{K: "nil", C: x}
		}
		return &SV{K: "const", C: x}
	case *ssa.Function:
		return &SV{K: "func", Fn: x}
	case *ssa.ChangeType:
		return p.evalSV(x.X, env, depth)
	case *ssa.MakeInterface:
		return p.evalSV(x.X, env, depth)
	case *ssa.Convert:
		return p.evalSV(x.X, env, depth)
	case *ssa.MakeClosure:
		sv := &SV{K: "closure", Fn: x.Fn.(*ssa.Function), Src: x}
		for _, b := range x.Bindings {
			sv.Binds = append(sv.Binds, p.evalSV(b, env, depth+1))
		}
		return sv
	case *ssa.Alloc:
		if _, isStruct := deref(x.Type()).Underlying().(*types.Struct); !isStruct {
			// a variable cell (a captured parameter or local): its single store
			var val ssa.Value
			n := 0
			if x.Referrers() != nil {
				for _, u := range *x.Referrers() {
					if st, ok := u.(*ssa.Store); ok && st.Addr == ssa.Value(x) {
						n++
						val = st.Val
					}
				}
			}
			if n != 1 {
				return unk
			}
			return &SV{K: "cell", Fields: map[int]*SV{0: p.evalSV(val, env, depth+1)}, Src: x}
		}
		// pointer to a struct literal (&T{...}) built in this function
		return &SV{K: "ptr", Fields: p.allocFields(x, env, depth+1), Src: x}
	case *ssa.UnOp:
		if x.Op != token.MUL {
			return unk
		}
		switch a := x.X.(type) {
		case *ssa.Global:
			if gv := p.globalInitSV(a, depth+1); gv != nil && gv.K != "unknown" {
				return gv
			}
			return &SV{K: "global", G: a}
		case *ssa.Alloc:
			if _, isStruct := deref(a.Type()).Underlying().(*types.Struct); !isStruct {
				if c := p.evalSV(a, env, depth+1); c.K == "cell" {
					return c.Fields[0]
				}
				return unk
			}
			// the struct value of a local literal: *t (complit)
			return &SV{K: "struct", Fields: p.allocFields(a, env, depth+1), Src: a}
		case *ssa.FreeVar, *ssa.Parameter:
			if c := p.evalSV(a, env, depth+1); c.K == "cell" {
				return c.Fields[0]
			}
			return unk
		case *ssa.FieldAddr:
			base := p.evalSV(a.X, env, depth+1)
			if (base.K == "ptr" || base.K == "struct") && base.Fields != nil {
				if f, ok := base.Fields[a.Field]; ok {
					return f
				}
				return &SV{K: "const", C: zeroConstOf(x.Type())}
			}
			return unk
		}
		return unk
	case *ssa.Field:
		base := p.evalSV(x.X, env, depth+1)
		if base.K == "struct" && base.Fields != nil {
			if f, ok := base.Fields[x.Field]; ok {
				return f
			}
			return &SV{K: "const", C: zeroConstOf(x.Type())}
		}
		return unk
	case *ssa.Call:
		sc := staticCallee(x.Common())
		if sc == nil || !InRepo(sc) || sc.Blocks == nil {
			return unk
		}
		nenv := svEnv{}
		for i, prm := range sc.Params {
			if i < len(x.Call.Args) {
				nenv[prm] = p.evalSV(x.Call.Args[i], env, depth+1)
			}
		}
		return p.evalReturn(sc, nenv, depth+1)
	}
	return unk
}

// evalReturn: the value a small helper returns (all returns must agree in
// shape; only single-result helpers with one return are evaluated).
func (p *Prog) evalReturn(fn *ssa.Function, env svEnv, depth int) *SV {
	var rets []*ssa.Return
	allInstrs(fn, func(in ssa.Instruction) {
		if r, ok := in.(*ssa.Return); ok && in.Block() != fn.Recover {
			rets = append(rets, r)
		}
	})
	if len(rets) != 1 || len(rets[0].Results) != 1 {
		return &SV{K: "unknown"}
	}
	return p.evalSV(rets[0].Results[0], env, depth)
}

// allocFields: the fields stored into a struct allocated as a literal.
func (p *Prog) allocFields(al *ssa.Alloc, env svEnv, depth int) map[int]*SV {
	out := map[int]*SV{}
	if al.Referrers() == nil {
		return out
	}
	for _, u := range *al.Referrers() {
		switch x := u.(type) {
		case *ssa.FieldAddr:
			if x.Referrers() == nil {
				continue
			}
			for _, fu := range *x.Referrers() {
				if st, ok := fu.(*ssa.Store); ok && st.Addr == ssa.Value(x) {
					out[x.Field] = p.evalSV(st.Val, env, depth+1)
				}
			}
		case *ssa.Store:
			// whole-struct store: *t = v
			if x.Addr == ssa.Value(al) {
				sv := p.evalSV(x.Val, env, depth+1)
				if sv.K == "struct" {
					for k, f := range sv.Fields {
						out[k] = f
					}
				}
			}
		}
	}
	return out
}

func zeroConstOf(t types.Type) *ssa.Const {
	switch u := t.Underlying().(type) {
	case *types.Basic:
		switch {
		case u.Info()&types.IsBoolean != 0:
			return ssa.NewConst(constant.MakeBool(false), t)
		case u.Info()&types.IsString != 0:
			return ssa.NewConst(constant.MakeString(""), t)
		case u.Info()&types.IsNumeric != 0:
			return ssa.NewConst(constant.MakeInt64(0), t)
		}
	}
	return ssa.NewConst(nil, t)
}

// globalStoreOnce: the single store to g, in the package initialiser; nil
// when g is written anywhere else (or more than once).
func (p *Prog) globalStoreOnce(g *ssa.Global) *ssa.Store {
	if p.globalStores == nil {
		p.globalStores = map[*ssa.Global][]*ssa.Store{}
		p.globalAddrTaken = map[*ssa.Global]bool{}
		for _, fn := range p.AllRepoFuncs() {
			allInstrs(fn, func(in ssa.Instruction) {
				if st, ok := in.(*ssa.Store); ok {
					if gg, ok := st.Addr.(*ssa.Global); ok {
						p.globalStores[gg] = append(p.globalStores[gg], st)
					}
				}
				// the address of the variable escaping (&table passed on,
				// element address taken for writing) is not tracked here:
				// stores through IndexAddr of a load are caught below
				if ia, ok := in.(*ssa.IndexAddr); ok {
					if ld, ok := ia.X.(*ssa.UnOp); ok {
						if gg, ok := ld.X.(*ssa.Global); ok && ia.Referrers() != nil {
							for _, u := range *ia.Referrers() {
								switch y := u.(type) {
								case *ssa.Store:
									if y.Addr == ssa.Value(ia) {
										p.globalAddrTaken[gg] = true
									}
								case *ssa.FieldAddr:
									if y.Referrers() != nil {
										for _, fu := range *y.Referrers() {
											if st, ok := fu.(*ssa.Store); ok && st.Addr == ssa.Value(y) {
												p.globalAddrTaken[gg] = true
											}
										}
									}
								}
							}
						}
					}
				}
			})
		}
	}
	sts := p.globalStores[g]
	if len(sts) != 1 || p.globalAddrTaken[g] || sts[0].Parent().Name() != "init" {
		return nil
	}
	return sts[0]
}

// globalInitSV: the value of a package-level variable assigned once in the
// initialiser (a pointer to a literal, a function, a constant).
func (p *Prog) globalInitSV(g *ssa.Global, depth int) *SV {
	st := p.globalStoreOnce(g)
	if st == nil {
		return nil
	}
	switch st.Val.(type) {
	case *ssa.Alloc, *ssa.Function, *ssa.Const, *ssa.MakeClosure:
		return p.evalSV(st.Val, svEnv{}, depth)
	}
	return nil
}

// tableElems: the elements of a package-level slice (or array) of structs
// built as a literal in the package initialiser and never written again.
func (p *Prog) tableElems(g *ssa.Global) ([]*SV, bool) {
	st := p.globalStoreOnce(g)
	if st == nil {
		return nil, false
	}
	sl, ok := st.Val.(*ssa.Slice)
	if !ok {
		return nil, false
	}
	arr, ok := sl.X.(*ssa.Alloc)
	if !ok || arr.Referrers() == nil {
		return nil, false
	}
	at, ok := deref(arr.Type()).Underlying().(*types.Array)
	if !ok {
		return nil, false
	}
	elems := make([]*SV, at.Len())
	for _, u := range *arr.Referrers() {
		ia, ok := u.(*ssa.IndexAddr)
		if !ok {
			continue
		}
		k, ok := ia.Index.(*ssa.Const)
		if !ok || ia.Referrers() == nil {
			return nil, false
		}
		idx := int(k.Int64())
		if idx < 0 || idx >= len(elems) {
			return nil, false
		}
		fields := map[int]*SV{}
		for _, eu := range *ia.Referrers() {
			switch y := eu.(type) {
			case *ssa.Store:
				if y.Addr == ssa.Value(ia) {
					sv := p.evalSV(y.Val, svEnv{}, 0)
					if sv.K != "struct" {
						return nil, false
					}
					for f, v := range sv.Fields {
						fields[f] = v
					}
				}
			case *ssa.FieldAddr:
				if y.Referrers() != nil {
					for _, fu := range *y.Referrers() {
						if st2, ok := fu.(*ssa.Store); ok && st2.Addr == ssa.Value(y) {
							fields[y.Field] = p.evalSV(st2.Val, svEnv{}, 0)
						}
					}
				}
			}
		}
		elems[idx] = &SV{K: "struct", Fields: fields, Src: ia}
	}
	for _, e := range elems {
		if e == nil {
			return nil, false
		}
	}
	return elems, true
}

// closureResult: what a closure (or function) value returns when called: its
// single return value evaluated with the free variables bound.
func (p *Prog) closureResult(sv *SV, depth int) *SV {
	if sv == nil || (sv.K != "closure" && sv.K != "func") || sv.Fn == nil || sv.Fn.Blocks == nil {
		return &SV{K: "unknown"}
	}
	env := svEnv{}
	for i, fv := range sv.Fn.FreeVars {
		if i < len(sv.Binds) {
			env[fv] = sv.Binds[i]
		}
	}
	return p.evalReturn(sv.Fn, env, depth+1)
}

// tablePath: v reads the field path `path` of an element of the
// package-level table g (through a pointer to the element, a copy of the
// element in a local variable, or pointers stored in its fields).
func tablePath(v ssa.Value) (g *ssa.Global, elem *ssa.IndexAddr, path []int, ok bool) {
	cur := v
	for i := 0; i < 16 && cur != nil; i++ {
		switch x := cur.(type) {
		case *ssa.UnOp:
			if x.Op != token.MUL {
				return nil, nil, nil, false
			}
			cur = x.X
		case *ssa.ChangeType:
			cur = x.X
		case *ssa.FieldAddr:
			path = append([]int{x.Field}, path...)
			cur = x.X
		case *ssa.Field:
			path = append([]int{x.Field}, path...)
			cur = x.X
		case *ssa.Alloc:
			// a local copy of the element: route := table[i]
			var src ssa.Value
			n := 0
			if x.Referrers() != nil {
				for _, u := range *x.Referrers() {
					if st, ok := u.(*ssa.Store); ok && st.Addr == ssa.Value(x) {
						n++
						src = st.Val
					}
				}
			}
			if n != 1 {
				return nil, nil, nil, false
			}
			cur = src
		case *ssa.IndexAddr:
			ld, ok := x.X.(*ssa.UnOp)
			if !ok || ld.Op != token.MUL {
				return nil, nil, nil, false
			}
			gg, ok := ld.X.(*ssa.Global)
			if !ok {
				return nil, nil, nil, false
			}
			return gg, x, path, true
		default:
			return nil, nil, nil, false
		}
	}
	return nil, nil, nil, false
}

// followSV: the field path of a table element (through pointers to literals).
func followSV(sv *SV, path []int) *SV {
	cur := sv
	for _, f := range path {
		if cur == nil || (cur.K != "struct" && cur.K != "ptr") || cur.Fields == nil {
			return &SV{K: "unknown"}
		}
		nx, ok := cur.Fields[f]
		if !ok {
			return &SV{K: "zero"}
		}
		cur = nx
	}
	return cur
}

func (p *Prog) tableOf(g *ssa.Global) []*SV {
	if p.tableMemo == nil {
		p.tableMemo = map[*ssa.Global][]*SV{}
	}
	if t, ok := p.tableMemo[g]; ok {
		return t
	}
	t, ok := p.tableElems(g)
	if !ok {
		t = nil
	}
	p.tableMemo[g] = t
	return t
}

// svOrg renders an init-time value as an origin (constants and functions only).
func svOrg(r *Resolver, sv *SV) *Org {
	switch sv.K {
	case "const", "nil":
		return r.Of(sv.C)
	case "func":
		return r.Of(sv.Fn)
	case "zero":
		return &Org{K: "zero"}
	}
	return nil
}

// predFromSV: the dispatch predicate a table element's matcher stands for:
// a closure whose body is strings.HasPrefix(arg, <bound constant>), or a
// bound (*regexp.Regexp).MatchString of a package-level pattern.
func (p *Prog) predFromSV(sv *SV, subject *Org, call *ssa.Call) (Pred, bool) {
	if sv == nil || sv.Fn == nil {
		return Pred{}, false
	}
	fn := sv.Fn
	if sv.K == "closure" && fn.Synthetic != "" {
		// bound method wrapper
		if t := unwrapBound(fn); t != nil && t.String() == "(*regexp.Regexp).MatchString" && len(sv.Binds) == 1 && sv.Binds[0].K == "global" {
			g := sv.Binds[0].G
			return Pred{Kind: "regex", Regex: g.Pkg.Pkg.Name() + "." + g.Name(), Subject: subject, Call: call}, true
		}
		return Pred{}, false
	}
	if fn.Blocks == nil || len(fn.Params) != 1 {
		return Pred{}, false
	}
	env := svEnv{}
	for i, fv := range fn.FreeVars {
		if i < len(sv.Binds) {
			env[fv] = sv.Binds[i]
		}
	}
	var rets []*ssa.Return
	allInstrs(fn, func(in ssa.Instruction) {
		if r, ok := in.(*ssa.Return); ok {
			rets = append(rets, r)
		}
	})
	if len(rets) != 1 || len(rets[0].Results) != 1 {
		return Pred{}, false
	}
	cl, ok := rets[0].Results[0].(*ssa.Call)
	if !ok {
		return Pred{}, false
	}
	sc := staticCallee(cl.Common())
	if sc == nil {
		return Pred{}, false
	}
	switch sc.String() {
	case "strings.HasPrefix":
		if cl.Call.Args[0] != ssa.Value(fn.Params[0]) {
			return Pred{}, false
		}
		k := p.evalSV(cl.Call.Args[1], env, 0)
		if k.K != "const" || k.C.Value == nil || k.C.Value.Kind() != constant.String {
			return Pred{}, false
		}
		return Pred{Kind: "prefix", Prefix: constant.StringVal(k.C.Value), Subject: subject, Call: call}, true
	case "(*regexp.Regexp).MatchString":
		if cl.Call.Args[1] != ssa.Value(fn.Params[0]) {
			return Pred{}, false
		}
		k := p.evalSV(cl.Call.Args[0], env, 0)
		if k.K != "global" {
			return Pred{}, false
		}
		return Pred{Kind: "regex", Regex: k.G.Pkg.Pkg.Name() + "." + k.G.Name(), Subject: subject, Call: call}, true
	}
	return Pred{}, false
}

// tablePredAt: the guards of an instruction that test the table element
// currently visited (element k of table g): a call of the element's matcher
// field, or MatchString on the element's pattern field.
func (p *Prog) tablePredsAt(r *Resolver, in ssa.Instruction, g *ssa.Global, elem *SV) (pos []Pred, other int) {
	for _, gd := range GuardsOf(in) {
		a := atomsOf(gd)
		if pr, ok := predOf(r, a.V); ok {
			if a.Pos {
				pos = append(pos, pr)
			}
			continue
		}
		cl, ok := a.V.(*ssa.Call)
		if !ok {
			other++
			continue
		}
		cc := cl.Common()
		if sc := staticCallee(cc); sc != nil && sc.String() == "(*regexp.Regexp).MatchString" && len(cc.Args) == 2 {
			if gg, _, path, ok := tablePath(cc.Args[0]); ok && gg == g {
				if sv := followSV(elem, path); sv.K == "global" && a.Pos {
					pos = append(pos, Pred{Kind: "regex", Regex: sv.G.Pkg.Pkg.Name() + "." + sv.G.Name(), Subject: r.Of(cc.Args[1]), Call: cl})
					continue
				}
			}
		}
		if !cc.IsInvoke() && staticCallee(cc) == nil && len(cc.Args) == 1 {
			if gg, _, path, ok := tablePath(cc.Value); ok && gg == g {
				if pr, ok := p.predFromSV(followSV(elem, path), r.Of(cc.Args[0]), cl); ok && a.Pos {
					pos = append(pos, pr)
					continue
				}
			}
		}
		other++
	}
	return
}

// selectionRows: the dispatch rows a selected function value stands for.
// val is the value assigned to the "selected entry function" at instruction
// at (in function fn); pos/neg are the predicates already known.
func (p *Prog) selectionRows(d *Dispatch, fn *ssa.Function, r *Resolver, val ssa.Value, at ssa.Instruction, pos, neg []Pred, bodies []*ssa.BasicBlock, inner bool, depth int) {
	if depth > 3 {
		d.Problems = append(d.Problems, "selection nested too deep at "+p.InstrPos(at))
		return
	}
	val = strip(val)
	switch v := val.(type) {
	case *ssa.Function:
		ipos, ineg, other := predsAt(r, at)
		d.Rows = append(d.Rows, Row{Pos: append(append([]Pred{}, pos...), ipos...), Neg: append(append([]Pred{}, neg...), ineg...), Fn: unwrapBound(v), Bodies: bodies, Inner: inner, Site: at, Other: other})
		return
	case *ssa.Const:
		d.Default = true
		return
	case *ssa.Phi:
		for i, e := range v.Edges {
			pred := v.Block().Preds[i]
			p.selectionRows(d, fn, r, e, pred.Instrs[len(pred.Instrs)-1], pos, neg, bodies, inner, depth)
		}
		return
	case *ssa.Call:
		cc := v.Common()
		if sc := staticCallee(cc); sc != nil {
			if !InRepo(sc) || sc.Blocks == nil {
				d.Problems = append(d.Problems, "entry function selected by an unresolved call at "+p.InstrPos(v))
				return
			}
			ipos, ineg, _ := predsAt(r, at)
			nr := r.Bind(sc, v)
			allInstrs(sc, func(in ssa.Instruction) {
				ret, ok := in.(*ssa.Return)
				if !ok || len(ret.Results) != 1 {
					return
				}
				p.selectionRows(d, sc, nr, ret.Results[0], ret, append(append([]Pred{}, pos...), ipos...), append(append([]Pred{}, neg...), ineg...), bodies, true, depth+1)
			})
			return
		}
		// a call of a function-valued field of a table element
		if g, ia, path, ok := tablePath(cc.Value); ok {
			p.tableRows(d, fn, r, g, ia, at, pos, neg, bodies, inner, depth, func(elem *SV) *SV {
				hv := followSV(elem, path)
				if res := p.closureResult(hv, 0); res.K == "func" || res.K == "nil" {
					return res
				}
				return hv // evaluated below: a selector function
			}, true)
			return
		}
	}
	// the function value itself read from a table element
	if g, ia, path, ok := tablePath(val); ok {
		p.tableRows(d, fn, r, g, ia, at, pos, neg, bodies, inner, depth, func(elem *SV) *SV { return followSV(elem, path) }, false)
		return
	}
	d.Problems = append(d.Problems, "entry function of unknown origin at "+p.InstrPos(at))
}

// tableRows: one row per element of the table: the element's matcher gives
// the row's predicate, the earlier elements' matchers its negative
// predicates (the scan is first-match-wins from element 0).
func (p *Prog) tableRows(d *Dispatch, fn *ssa.Function, r *Resolver, g *ssa.Global, ia *ssa.IndexAddr, at ssa.Instruction, pos, neg []Pred, bodies []*ssa.BasicBlock, inner bool, depth int, handlerOf func(*SV) *SV, called bool) {
	elems := p.tableOf(g)
	if elems == nil {
		d.Problems = append(d.Problems, "the entry function is taken from "+g.Name()+", which is not a table fixed at initialisation, at "+p.InstrPos(at))
		return
	}
	// the scan visits the elements in ascending order from 0
	if ok, why := ascendingFromZero(r, ia.Index, r.Of(ia.X)); !ok {
		if _, isRange := rangeIndexOf(ia.Index); !isRange {
			d.Problems = append(d.Problems, "the table "+g.Name()+" is not scanned from its first element upwards ("+why+") at "+p.InstrPos(at))
			return
		}
	}
	var earlier []Pred
	for k, elem := range elems {
		ipos, other := p.tablePredsAt(r, at, g, elem)
		_ = other
		if len(ipos) == 0 {
			d.Problems = append(d.Problems, fmt.Sprintf("element %d of %s: the matcher is not a literal prefix test nor a package-level pattern (at %s)", k, g.Name(), p.InstrPos(at)))
		}
		rowPos := append(append([]Pred{}, pos...), ipos...)
		rowNeg := append(append([]Pred{}, neg...), earlier...)
		hv := handlerOf(elem)
		env := map[ssa.Value]*Org{}
		p.tableEnv(fn, g, elem, r, env)
		switch {
		case hv.K == "func" && (!called || hv.Fn.Signature.Results().Len() == 1 && isErrorType(hv.Fn.Signature.Results().At(0).Type())):
			d.Rows = append(d.Rows, Row{Pos: rowPos, Neg: rowNeg, Fn: unwrapBound(hv.Fn), Bodies: bodies, Inner: inner, Site: at, TabG: g, TabK: k, TabEnv: env, TabElem: elem})
		case hv.K == "nil" || hv.K == "zero":
			d.Default = true
		case (hv.K == "func" || hv.K == "closure") && hv.Fn != nil && hv.Fn.Blocks != nil:
			// a selector: its returns give the rows
			sel := hv.Fn
			nr := NewResolver(p)
			for kk, vv := range r.Env {
				nr.Env[kk] = vv
			}
			// the selector's parameters are bound to the arguments of the dynamic call
			if cl, ok := at.(*ssa.Call); ok {
				_ = cl
			}
			before := len(d.Rows)
			allInstrs(sel, func(in ssa.Instruction) {
				ret, ok := in.(*ssa.Return)
				if !ok || len(ret.Results) != 1 {
					return
				}
				p.selectionRows(d, sel, nr, ret.Results[0], ret, rowPos, rowNeg, bodies, true, depth+1)
			})
			for i := before; i < len(d.Rows); i++ {
				d.Rows[i].TabG, d.Rows[i].TabK, d.Rows[i].TabEnv, d.Rows[i].TabElem = g, k, env, elem
				d.Rows[i].Sel = sel
			}
		default:
			d.Problems = append(d.Problems, fmt.Sprintf("element %d of %s: handler not understood (%s) at %s", k, g.Name(), hv, p.InstrPos(at)))
		}
		earlier = append(earlier, ipos...)
	}
}

func rangeIndexOf(v ssa.Value) (*ssa.Phi, bool) {
	if b, ok := v.(*ssa.BinOp); ok {
		if ph, ok := b.X.(*ssa.Phi); ok && ph.Comment == "rangeindex" {
			return ph, true
		}
	}
	return nil, false
}

// tableEnv: for element elem of table g, binds every value of fn that reads
// a field path of "the current element" to the element's constant (or
// function), so that the dispatcher can be read as specialised to this row.
func (p *Prog) tableEnv(fn *ssa.Function, g *ssa.Global, elem *SV, r *Resolver, env map[ssa.Value]*Org) {
	allInstrs(fn, func(in ssa.Instruction) {
		v, ok := in.(ssa.Value)
		if !ok {
			return
		}
		switch in.(type) {
		case *ssa.UnOp, *ssa.Field:
		default:
			return
		}
		gg, _, path, ok := tablePath(v)
		if !ok || gg != g || len(path) == 0 {
			return
		}
		if o := svOrg(r, followSV(elem, path)); o != nil {
			env[v] = o
		}
	})
}
