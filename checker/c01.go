package main

import (
	"fmt"
	"strings"

	"go/token"

	"golang.org/x/tools/go/ssa"
)

func init() { register("C01", "other", checkC01) }

func checkC01(c *Check) {
	c.Explanation = "Identity-provenance and key-consistency rules on the inlined tracker cones: (1) the login and the bound flag of a session object are written by exactly one function; each call of it is a bind site (floor 2); (2) every bind site is PID-justified: either it lies on the true edge of u.srcPID == login.PID for the very object and login being bound (login arrives second), or the login is the parked-logins entry looked up under key k and the same k initialises srcPID of the fresh object being bound (login arrived first); (3) a login is parked under its own PID; (4) a session object is stored fresh, under the session ID of the LOGIN event whose Process.PID (through strconv.Atoi, error edge returning) initialised its srcPID, and only under Type == AUDIT_LOGIN; (5) the renderer takes source, subjects and target only from the receiver's own login and the audit ID from the event's session; (6) at every emit the object rendered and the event rendered are tied through the event's session ID (lookup entry, fresh entry, or element of the object's own queue), and an event is held only in the object of its own session. Necessary conditions; together with per-delivery atomicity (C03) they are close to sufficient."
	c.Rule("who-may-write-identity / bind-is-PID-justified / parked-login-key / session-object-isolation / render-from-own-login / emit-from-own-session")
	c.Trust("go-libaudit fills Process.PID and Session of the coalesced event from the LOGIN record", "GenericSyncMap.WithLockedValueDo(k, cb) hands cb the value stored under k (read structurally by the inliner)")
	t := NewTracker(c)
	if t == nil {
		return
	}
	p := c.P
	mapContract(c)
	// 1. who may write identity
	var names []string
	for f := range t.BindFns {
		names = append(names, f.Name())
	}
	c.Cond(len(t.BindFns) == 1, "who-may-write-identity", "functions writing user.login / user.hasRUL", "-", "only "+strings.Join(names, ","), "the identity of a session object is written by "+fmt.Sprint(len(t.BindFns))+" functions: "+strings.Join(names, ","))
	binds := t.Of("bind")
	c.Floor("bind sites (login-arrives-second, login-arrives-first)", 2, len(binds))
	// direct stores of identity fields outside the bind function (e.g. in a constructor or recycler)
	for _, s := range t.Of("userstore") {
		if (s.Field == "login" || s.Field == "hasRUL") && !t.BindFns[s.Fn] {
			if isZeroOrg(s.Val) {
				continue // the zero value written out in a literal: still unbound
			}
			c.Bad("who-may-write-identity", "store to user."+s.Field+" in "+s.Fn.Name(), s.Pos(p), "identity field written outside the bind function")
		}
	}

	// 2. bind is PID-justified
	for _, b := range binds {
		name := fmt.Sprintf("bind in %s (%s): %s <- %s", b.Fn.Name(), b.EP, shortU(b.U), shortU(b.Login))
		okA := false
		for _, g := range b.Guards {
			if !((g.Op == "==" && g.Pos) || (g.Op == "!=" && !g.Pos)) {
				continue
			}
			isSrc := func(o *Org) bool { return o.K == "field" && o.Name == "srcPID" && sameOrg(o.Sub[0], b.U) }
			isPID := func(o *Org) bool { return o.K == "field" && o.Name == "PID" && sameOrg(o.Sub[0], b.Login) }
			if (isSrc(g.X) && isPID(g.Y)) || (isSrc(g.Y) && isPID(g.X)) {
				okA = true
			}
		}
		if okA {
			c.OK("bind-is-PID-justified", name, b.Pos(p), "form A: on the true edge of u.srcPID == login.PID for this very object and login")
			continue
		}
		// form A through a finder function: the object comes out of a
		// repository function as a result that is only ever assigned, on the
		// true edge of v.srcPID == pid, the very v compared, with pid bound
		// to this login's PID at the call; and the bind is conditional on a
		// result of that same call (found flag / non-nil object)
		if ok, why := finderJustified(p, b); ok {
			c.OK("bind-is-PID-justified", name, b.Pos(p), "form A (finder): "+why)
			continue
		}
		// form B
		okB := false
		why := "no guard u.srcPID == login.PID of this object and this login dominates the bind"
		if b.Login.K == "lookup" && pathRecv(b.Login.Sub[0]) == t.RulMap+".m" && b.U.K == "alloc" {
			key := b.Login.Sub[1]
			for _, s := range t.Of("userstore") {
				if s.EP == b.EP && s.Field == "srcPID" && sameOrg(s.U, b.U) {
					if sameOrg(s.Val, key) {
						okB = true
					} else {
						why = "the fresh object's srcPID is " + shortU(s.Val) + " but the login is looked up under " + shortU(key)
					}
				}
			}
		}
		if okB {
			c.OK("bind-is-PID-justified", name, b.Pos(p), "form B: the login is the parked entry under the key that initialises the fresh object's srcPID")
		} else {
			o := Obl{Rule: "bind-is-PID-justified", Construct: name, Pos: b.Pos(p), Verdict: Violated, Fact: "a login is attached to a session object without their process IDs having been compared (" + why + "): events of that session can carry another login's identity", Entry: stackStr(b)}
			c.Obls = append(c.Obls, o)
		}
	}

	// 3. parked-login key consistency
	npark := 0
	for _, s := range t.Of("mapop") {
		if s.Map != t.RulMap || s.Method != "Store" {
			continue
		}
		npark++
		want := &Org{K: "field", Name: "PID", Sub: []*Org{s.Val}}
		c.Cond(sameOrg(s.Key, want) || trimOrg(s.Key.String()) == trimOrg(want.String()), "parked-login-key", "Store into "+s.Map+" in "+s.Fn.Name(), s.Pos(p), "key is the PID of the login being stored", "a login is parked under "+shortU(s.Key)+", not under its own PID: it will be taken by the session of another process")
	}
	c.Floor("parking sites", 1, npark)

	// 4. session object isolation
	nst := 0
	for _, s := range t.Of("mapop") {
		if s.Map != t.SessMap || s.Method != "Store" {
			continue
		}
		nst++
		name := fmt.Sprintf("Store into %s in %s (%s)", s.Map, s.Fn.Name(), s.EP)
		if s.Val.K != "alloc" {
			c.Bad("session-object-isolation", name, s.Pos(p), "the stored session object is not a fresh allocation of this delivery ("+shortU(s.Val)+"): it can be shared with, or inherited from, another session")
			continue
		}
		eq, found, ev := guardEventType(s.Guards, t.LoginT)
		if !(found && eq) {
			c.Bad("session-object-isolation", name, s.Pos(p), "session stored without the guard Type == AUDIT_LOGIN")
			continue
		}
		sess := &Org{K: "field", Name: "Session", Sub: []*Org{ev}}
		if trimOrg(s.Key.String()) != trimOrg(sess.String()) {
			c.Bad("session-object-isolation", name, s.Pos(p), "stored under "+shortU(s.Key)+", not under the LOGIN event's session ID")
			continue
		}
		// srcPID <- Atoi(ev.Process.PID), error checked
		okPID := false
		why := "srcPID of the new object is never initialised"
		for _, us := range t.Of("userstore") {
			if us.EP != s.EP || us.Field != "srcPID" || !sameOrg(us.U, s.Val) {
				continue
			}
			v := us.Val
			why = "srcPID is " + shortU(v)
			// the conversion may sit in a helper returning (pid, error): the
			// helper's error must be non-nil whenever the conversion failed,
			// and the store must be on the nil edge of the helper's error
			if v.K == "call" && v.Name != "strconv.Atoi" && v.Idx == 0 {
				if hc, isCall := v.V.(*ssa.Call); isCall {
					var ds []*Org
					for _, d := range Deref(v, 0) {
						if d.K != "const" && d.K != "zero" { // the value returned together with an error
							ds = append(ds, d)
						}
					}
					if len(ds) == 1 && ds[0].K == "call" && ds[0].Name == "strconv.Atoi" && ds[0].Idx == 0 && ds[0].R != nil {
						ac := ds[0].V.(*ssa.Call)
						ao := ds[0].R.Of(ac.Call.Args[0])
						root, fields := ao.FieldPath()
						helperChecked := false
						for _, g := range s.Guards {
							if (g.Op == "!=" && !g.Pos || g.Op == "==" && g.Pos) && g.X.K == "call" && g.X.V == ssa.Value(hc) && g.X.Idx == 1 {
								helperChecked = true
							}
						}
						// in the helper: the Atoi error edge returns a non-nil error
						propagates := false
						var aerr ssa.Value
						if rr := ac.Referrers(); rr != nil {
							for _, u := range *rr {
								if ex, ok := u.(*ssa.Extract); ok && ex.Index == 1 {
									aerr = ex
								}
							}
						}
						if aerr != nil {
							if nn, _, _ := errEdge(aerr); nn != nil {
								propagates = true
								hr := NewResolver(p)
								for _, b := range ac.Parent().Blocks {
									if len(b.Instrs) == 0 {
										continue
									}
									ret, ok := b.Instrs[len(b.Instrs)-1].(*ssa.Return)
									if !ok || !(b == nn || nn.Dominates(b)) {
										continue
									}
									if len(ret.Results) < 2 || nilKind(hr, ret.Results[len(ret.Results)-1], ret) != NonNil {
										propagates = false
									}
								}
							}
						}
						switch {
						case !(sameOrg(root, ev) && len(fields) == 2 && fields[0] == "Process" && fields[1] == "PID"):
							why = "srcPID is converted from " + shortU(ao) + ", not from the LOGIN event's Process.PID"
						case !propagates:
							why = "the helper converting the PID does not return an error when the conversion fails"
						case !helperChecked:
							why = "the conversion error of the PID is not checked before the session is stored"
						default:
							okPID = true
						}
					}
				}
			}
			if v.K == "call" && v.Name == "strconv.Atoi" && v.Idx == 0 {
				ac := v.V.(*ssa.Call)
				ao := us.R.Of(ac.Call.Args[0])
				root, fields := ao.FieldPath()
				if sameOrg(root, ev) && len(fields) == 2 && fields[0] == "Process" && fields[1] == "PID" {
					// error edge returns: the store is guarded by err == nil
					for _, g := range s.Guards {
						if (g.Op == "!=" && !g.Pos || g.Op == "==" && g.Pos) && g.X.K == "call" && g.X.V == ssa.Value(ac) && g.X.Idx == 1 {
							okPID = true
						}
					}
					if !okPID {
						why = "the conversion error of the PID is not checked before the session is stored"
					}
				} else {
					why = "srcPID is converted from " + shortU(ao) + ", not from the LOGIN event's Process.PID"
				}
			}
		}
		c.Cond(okPID, "session-object-isolation", name, s.Pos(p), "fresh object; key = LOGIN event's session; srcPID = Atoi(event.Process.PID) on its nil-error edge", why)
	}
	c.Floor("stores into the sessions map", 2, nst)

	// 5. render from own login
	nr := 0
	for fn := range t.Renderer {
		nr++
		renderRule(c, t, fn)
	}
	c.Floor("renderer functions", 1, nr)

	// 6. emit from own session; hold in own session
	nem := 0
	for _, f := range t.Of("emit") {
		nem++
		name := fmt.Sprintf("emit in %s (%s): object %s, event %s", f.Fn.Name(), f.EP, shortU(f.U), shortU(f.E))
		ok, why := t.tied(f, f.U, f.E)
		if ok {
			c.OK("emit-from-own-session", name, f.Pos(p), why)
		} else {
			o := Obl{Rule: "emit-from-own-session", Construct: name, Pos: f.Pos(p), Verdict: Violated, Fact: "an event is rendered with the identity of a session object that is not the one registered under the event's session ID: " + why, Entry: stackStr(f)}
			c.Obls = append(c.Obls, o)
		}
	}
	c.Floor("emit sites x contexts", 3, nem)
	for _, f := range t.Of("append") {
		ok, why := t.tied(f, f.U, f.E)
		name := fmt.Sprintf("hold in %s (%s)", f.Fn.Name(), f.EP)
		c.Cond(ok, "emit-from-own-session", name, f.Pos(p), why, "an event is held in a session object it does not belong to: "+why)
	}
	// the login handed to the correlator is the event parsed from that very
	// line (its own subjects map, the PID of that line): rules of C05
	nl := importRules(c, "C05", checkC05, "login-as-parsed: ", "same-event", "event-slots", "cred-user-id", "pid-from-line")
	c.Floor("imported login-as-parsed obligations", 10, nl)
	// ... and stays what it was: nothing on the correlator's side writes
	// through the login's event, whose subjects every event of the session
	// is rendered from (rule S7 of C03)
	loginDeliveredAsReceived(c)
	// the events a session emits are its own: each session's hold queue is
	// its own storage (rule of C02)
	nq := importRules(c, "C02", checkC02, "own-events-only: ", "queue-private")
	c.Floor("imported own-events-only obligations", 3, nq)
	ns := importRules(c, "C03", checkC03, "login-unaltered: ", "S7 login-event-read-only")
	c.Floor("imported login-unaltered obligations", 1, ns)
}

// renderRule: the renderer copies identity only from the receiver's login.
func renderRule(c *Check, t *Tracker, fn *ssa.Function) {
	p := c.P
	c.Fn(funcDisplayName(fn))
	r := NewResolver(p)
	if len(fn.Params) != 2 {
		c.Unk("render-from-own-login", "renderer "+fn.Name(), p.Pos(fn.Pos()), "unexpected signature")
		return
	}
	recv, ae := fn.Params[0], fn.Params[1]
	var ret *ssa.Return
	allInstrs(fn, func(in ssa.Instruction) {
		if rt, ok := in.(*ssa.Return); ok {
			ret = rt
		}
	})
	if ret == nil || len(ret.Results) != 1 {
		c.Unk("render-from-own-login", "renderer "+fn.Name(), p.Pos(fn.Pos()), "no single return")
		return
	}
	ev := ExtractEvent(p, r, ret.Results[0], ret)
	for _, u := range ev.Unknown {
		c.Unk("render-from-own-login", "renderer "+fn.Name()+": "+u, p.InstrPos(ret), "event construction not understood")
	}
	loginSrc := "P(" + recv.Name() + ").login.Source"
	chk := func(slot, want string) {
		vals := ev.Effective(slot)
		ok := len(vals) > 0
		got := []string{}
		for _, v := range vals {
			s := trimOrg(v.Org.String())
			got = append(got, s)
			if s != want {
				ok = false
			}
		}
		c.Cond(ok, "render-from-own-login", "renderer "+fn.Name()+": "+slot, p.InstrPos(ret), "<- "+want, fmt.Sprintf("slot %s of a UserAction is %v, expected %s: the event can carry identity that is not the bound login's", slot, got, want))
	}
	chk("source", loginSrc+".Source")
	chk("target", loginSrc+".Target")
	chk("metadata.auditId", "P("+ae.Name()+").Session")
	// subjects: a fresh map filled only with (k, v) ranging over the login's subjects
	nsub := 0
	for _, slot := range ev.Names() {
		if !strings.HasPrefix(slot, "subjects") {
			continue
		}
		nsub++
		wantK := "subjects.<range(" + loginSrc + ".Subjects).key>"
		wantV := "range(" + loginSrc + ".Subjects).value"
		for _, v := range ev.Effective(slot) {
			s := trimOrg(v.Org.String())
			c.Cond(trimOrg(slot) == wantK && s == wantV, "render-from-own-login", "renderer "+fn.Name()+": "+trimOrg(slot), p.InstrPos(ret), "copy of the bound login's subjects", fmt.Sprintf("subjects entry %s <- %s does not come from the bound login's subjects", trimOrg(slot), s))
		}
	}
	c.Cond(nsub >= 1, "render-from-own-login", "renderer "+fn.Name()+": subjects copied", p.InstrPos(ret), "subjects map filled from the login", "the UserAction's subjects are not filled from the bound login")
}

// finderJustified: see form A (finder) in checkC01.
func finderJustified(p *Prog, b TFact) (bool, string) {
	u := b.U
	if u == nil || u.K != "call" || u.R == nil {
		return false, ""
	}
	call, ok := u.V.(*ssa.Call)
	if !ok {
		return false, ""
	}
	sc := staticCallee(call.Common())
	if sc == nil || !InRepo(sc) || sc.Blocks == nil || u.Idx < 0 {
		return false, ""
	}
	nr := u.R.Bind(sc, call)
	// the result's variable
	var cell *ssa.Alloc
	okCell := true
	allInstrs(sc, func(in ssa.Instruction) {
		ret, isRet := in.(*ssa.Return)
		if !isRet || u.Idx >= len(ret.Results) || ret.Block() == sc.Recover {
			return
		}
		ld, isLd := ret.Results[u.Idx].(*ssa.UnOp)
		if !isLd {
			okCell = false
			return
		}
		a, isA := ld.X.(*ssa.Alloc)
		if !isA || (cell != nil && cell != a) {
			okCell = false
			return
		}
		cell = a
	})
	if !okCell || cell == nil {
		return false, ""
	}
	// every store of a non-nil value into it is guarded by v.srcPID == pid
	nst := 0
	for _, st := range nr.cellStores(cell) {
		if isNilConst(st.Val) {
			continue
		}
		nst++
		fr := NewResolver(p)
		for k, v := range nr.Env {
			fr.Env[k] = v
		}
		vo := fr.Of(st.Val)
		okG := false
		for _, g := range guardAtoms(fr, st) {
			if !((g.Op == "==" && g.Pos) || (g.Op == "!=" && !g.Pos)) {
				continue
			}
			isSrc := func(o *Org) bool { return o.K == "field" && o.Name == "srcPID" && sameOrg(o.Sub[0], vo) }
			isPID := func(o *Org) bool { return o.K == "field" && o.Name == "PID" && sameOrg(o.Sub[0], b.Login) }
			if (isSrc(g.X) && isPID(g.Y)) || (isSrc(g.Y) && isPID(g.X)) {
				okG = true
			}
		}
		if !okG {
			return false, ""
		}
	}
	if nst == 0 {
		return false, ""
	}
	// the bind is conditional on a result of the same call
	cond := false
	for _, g := range b.Guards {
		var ex *ssa.Extract
		switch x := g.V.(type) {
		case *ssa.Extract:
			ex = x
		case *ssa.BinOp:
			if e, ok := x.X.(*ssa.Extract); ok && isNilConst(x.Y) {
				ex = e
			}
		}
		if ex != nil && ex.Tuple == ssa.Value(call) {
			cond = true
		}
	}
	if !cond {
		return false, ""
	}
	return true, "the object is result #" + fmt.Sprint(u.Idx) + " of " + sc.Name() + ", assigned only on the true edge of v.srcPID == pid with pid bound to this login's PID; the bind is conditional on that call's result"
}

// loginDeliveredAsReceived: between the logins channel and the tracker the
// login is not touched: the value given to RemoteLogin is the value received
// from the channel, with no field of it assigned on the way. A login whose
// Source is redirected (to a copy kept in a variable of the loop, a cache, a
// pooled object) makes several sessions share one identity object.
func loginDeliveredAsReceived(c *Check) {
	p := c.P
	n := 0
	for _, fn := range p.AllRepoFuncs() {
		if FuncPkgPath(fn) != ModPath+"/processors/auditd" || fn.Blocks == nil {
			continue
		}
		for _, ci := range callsIn(fn) {
			cc := ci.Common()
			name := ""
			if cc.IsInvoke() {
				name = cc.Method.Name()
			} else if sc := staticCallee(cc); sc != nil {
				name = sc.Name()
			}
			if name != "RemoteLogin" || len(cc.Args) == 0 {
				continue
			}
			arg := cc.Args[len(cc.Args)-1]
			if nt := namedOf(arg.Type()); nt == nil || nt.Obj().Name() != "RemoteUserLogin" {
				continue
			}
			n++
			okA, why := true, "the value received from the logins channel"
			v := strip(arg)
			if ld, isLd := v.(*ssa.UnOp); isLd && ld.Op == token.MUL {
				if al, isAl := ld.X.(*ssa.Alloc); isAl && al.Referrers() != nil {
					for _, u := range *al.Referrers() {
						switch x := u.(type) {
						case *ssa.FieldAddr:
							if x.Referrers() != nil {
								for _, fu := range *x.Referrers() {
									if st, ok := fu.(*ssa.Store); ok && st.Addr == ssa.Value(x) {
										okA = false
										why = "field " + fieldName(x.X.Type(), x.Field) + " of the received login is assigned at " + p.InstrPos(st) + " before it is delivered"
									}
								}
							}
						case *ssa.Store:
							if x.Addr == ssa.Value(al) {
								if _, isEx := strip(x.Val).(*ssa.Extract); !isEx {
									if uo, isU := strip(x.Val).(*ssa.UnOp); !isU || uo.Op != token.ARROW {
										okA = false
										why = "the delivered login is " + trimOrg(NewResolver(p).Of(x.Val).String()) + ", not the value received from the channel"
									}
								}
							}
						}
					}
				}
			} else if _, isEx := v.(*ssa.Extract); !isEx {
				if uo, isU := v.(*ssa.UnOp); !isU || uo.Op != token.ARROW {
					okA = false
					why = "the delivered login is " + trimOrg(NewResolver(p).Of(arg).String()) + ", not the value received from the channel"
				}
			}
			c.Cond(okA, "who-may-write-identity", "login delivered to the tracker in "+fn.Name(), p.InstrPos(ci), why, "the login is altered between the logins channel and the tracker ("+why+"): logins delivered one after the other can end up sharing one identity object, so events of an earlier session carry a later login's identity")
		}
	}
	c.Floor("deliveries of a received login to the tracker", 1, n)
}
