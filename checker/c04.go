package main

import (
	"fmt"
	"strings"
)

func init() { register("C04", "other", checkC04) }

// sessionGuarded: the guards exclude the empty and the unset session.
func sessionGuarded(gs []GAtom) (bool, string) {
	seen := map[string]bool{}
	for _, g := range gs {
		if g.Op != "==" && g.Op != "!=" {
			continue
		}
		var fld, cst *Org
		switch {
		case g.X.K == "field" && g.X.Name == "Session" && g.Y.K == "const":
			fld, cst = g.X, g.Y
		case g.Y.K == "field" && g.Y.Name == "Session" && g.X.K == "const":
			fld, cst = g.Y, g.X
		default:
			continue
		}
		_ = fld
		s, ok := cst.ConstString()
		if !ok {
			continue
		}
		neq := (g.Op == "!=") == g.Pos
		if neq {
			seen[s] = true
		}
	}
	if seen[""] && seen["unset"] {
		return true, "guarded by Session != \"\" and Session != \"unset\""
	}
	var miss []string
	for _, s := range []string{"", "unset"} {
		if !seen[s] {
			miss = append(miss, fmt.Sprintf("%q", s))
		}
	}
	return false, "not guarded against session " + strings.Join(miss, " and ")
}

func checkC04(c *Check) {
	c.Explanation = "Guard-dominance rules over the inlined cone of the Auditor entry point and the other tracker entry points (closure parameters bound to the map entries they come from): (1) every map operation and every emit made for an audit event is reachable only when the event's session is neither empty nor 'unset'; (2) a session object is stored only under the guard event.Type == AUDIT_LOGIN and only as a fresh, unbound object (hasRUL false, no login); (3) every emit is either control-dependent on the bound flag of the rendered object being true, or dominated in the same activation by the bind of that same object; (4) the bound flag and the login are written only by the bind function (so 'bound' implies 'a login with the matching PID arrived', C01), and the hold queue is appended only for looked-up or freshly stored objects. Each is a necessary condition; together they cover every emit site of the package."
	c.Rule("short-circuit: map operations / emits of AuditdEvent's cone under Session != \"\" && Session != \"unset\"")
	c.Rule("only-LOGIN-opens: Store into the sessions map only under Type == AUDIT_LOGIN (floor 2 stores)")
	c.Rule("sessions-start-unbound: the stored object is a fresh allocation whose hasRUL/login are not initialised")
	c.Rule("emit-only-bound: every emit under hasRUL==true of the rendered object, or after its bind in the same activation (floor 3 emit sites)")
	c.Rule("bound-flag-only-by-bind: stores to user.hasRUL/login only in the bind function")
	c.Trust("aucoalesce/auparse map the kernel's 4294967295 session to \"unset\" (go-libaudit)", "AUDIT_LOGIN = 1006 (auparse constant resolved from the dependency)")
	t := NewTracker(c)
	if t == nil {
		return
	}
	p := c.P
	// what reaches the tracker is the coalesced event itself (no session filled in on the way)
	sub := NewCheck("C14", "other", c.Tier, c.P)
	callbackPipeline(sub)
	for _, o := range sub.Obls {
		if o.Rule == "callback-pipeline" || o.Rule == "anchor" {
			o.Rule = "event-as-recorded: " + o.Rule
			c.Obls = append(c.Obls, o)
		}
	}
	// 1. short-circuit
	n1 := 0
	for _, f := range t.Facts {
		if f.EP != "AuditdEvent" || (f.Kind != "mapop" && f.Kind != "emit") {
			continue
		}
		n1++
		ok, why := sessionGuarded(f.Guards)
		name := fmt.Sprintf("%s %s%s in %s", f.Kind, f.Map, dotIf(f.Method), f.Fn.Name())
		if ok {
			c.OK("short-circuit", name, f.Pos(p), why)
		} else {
			o := Obl{Rule: "short-circuit", Construct: name, Pos: f.Pos(p), Verdict: Violated, Fact: "tracker state is touched / an event is emitted for an audit event " + why + ": activity outside any session would be correlated", Entry: stackStr(f)}
			c.Obls = append(c.Obls, o)
		}
	}
	c.Floor("map operations and emits in the cone of AuditdEvent", 8, n1)

	// 2. only LOGIN opens; sessions start unbound
	nst := 0
	for _, f := range t.Of("mapop") {
		if f.Method != "Store" || f.Map != t.SessMap {
			continue
		}
		nst++
		name := fmt.Sprintf("Store into %s in %s (%s)", f.Map, f.Fn.Name(), f.EP)
		eq, found, ev := guardEventType(f.Guards, t.LoginT)
		if found && eq {
			// the session key must be that event's session
			sess := &Org{K: "field", Name: "Session", Sub: []*Org{ev}}
			c.Cond(trimOrg(f.Key.String()) == trimOrg(sess.String()), "only-LOGIN-opens", name, f.Pos(p), "under Type == AUDIT_LOGIN of the event whose Session is the key", "session stored under a key that is not the LOGIN record's session ID: "+trimOrg(f.Key.String()))
		} else {
			o := Obl{Rule: "only-LOGIN-opens", Construct: name, Pos: f.Pos(p), Verdict: Violated, Fact: "a session is opened without the guard event.Type == AUDIT_LOGIN: a record of another type (or of a session whose LOGIN record was never seen) can open a session and be attributed to a login", Entry: stackStr(f)}
			c.Obls = append(c.Obls, o)
		}
		// fresh and unbound
		fresh := f.Val.K == "alloc"
		why := "stored object is " + trimOrg(f.Val.String())
		if fresh {
			for _, s := range t.Of("userstore") {
				if s.EP == f.EP && sameOrg(s.U, f.Val) && (s.Field == "hasRUL" || s.Field == "login") && !t.BindFns[s.Fn] && !isZeroOrg(s.Val) {
					fresh = false
					why = "new session object is created with " + s.Field + " already set"
				}
			}
		}
		c.Cond(fresh, "sessions-start-unbound", name, f.Pos(p), "fresh object of this activation; bound flag and login only through the bind function", "the session object is not a fresh unbound allocation ("+why+"): a session can start already carrying some login's identity")
	}
	c.Floor("stores into the sessions map", 2, nst)

	// 3. emit only bound
	nem := 0
	for _, f := range t.Of("emit") {
		nem++
		name := fmt.Sprintf("emit in %s (%s) of %s", f.Fn.Name(), f.EP, shortU(f.U))
		if f.U == nil {
			c.Unk("emit-only-bound", name, f.Pos(p), "emitted event is not rendered from a session object")
			continue
		}
		if v, found := t.guardHasRUL(f.Guards, f.U); found && v {
			c.OK("emit-only-bound", name, f.Pos(p), "control-dependent on the bound flag of the rendered object")
			continue
		}
		// bind of the same object earlier in the same activation, dominating
		bound := false
		for _, b := range t.Of("bind") {
			if b.EP != f.EP || !sameOrg(b.U, f.U) {
				continue
			}
			// also through helpers on either side (bind in a helper, emit in a
			// helper called after the bind)
			if t.Before(b, f) {
				bound = true
			}
		}
		if bound {
			c.OK("emit-only-bound", name, f.Pos(p), "dominated by the bind of the same object in this activation")
		} else {
			o := Obl{Rule: "emit-only-bound", Construct: name, Pos: f.Pos(p), Verdict: Violated, Fact: "an event is emitted on a path where the session object is not known to be bound to a login: activity of an uncorrelated session (cron, console) can be emitted, or emitted before its login is known", Entry: stackStr(f)}
			c.Obls = append(c.Obls, o)
		}
	}
	c.Floor("emit sites x contexts", 3, nem)

	// 3b. 'bound' means: a login whose PID matches the session's source PID
	// arrived (C01), and an ended session does not stay around to be bound
	// again (C09)
	nb := importRules(c, "C01", checkC01, "bound-means-matching-login: ", "bind-is-PID-justified", "who-may-write-identity")
	nb += importRules(c, "C09", checkC09, "ended-session-released: ", "end-evidence-complete", "release-on-end", "end-record-held: event-reaches-correlation", "end-record-held: hold-keeps-queue", "end-record-held: hold-keeps-event", "map-contract")
	c.Floor("imported bound-means-matching-login / ended-session-released obligations", 5, nb)

	// 4. bound flag only by bind; appends only for own session
	c.Floor("bind functions", 1, len(t.BindFns))
	c.Cond(len(t.BindFns) == 1, "bound-flag-only-by-bind", "functions writing user.hasRUL / user.login", "-", "exactly one bind function", fmt.Sprintf("%d functions write the bound flag or the login", len(t.BindFns)))
	nap := 0
	for _, f := range t.Of("append") {
		nap++
		ok, why := t.tied(f, f.U, f.E)
		name := fmt.Sprintf("append to hold queue in %s (%s)", f.Fn.Name(), f.EP)
		if ok {
			c.OK("hold-own-events-only", name, f.Pos(p), why)
		} else {
			c.Bad("hold-own-events-only", name, f.Pos(p), "an event is held in a session object it does not belong to: "+why)
		}
	}
	c.Floor("appends to the hold queue", 2, nap)
}

func dotIf(s string) string {
	if s == "" {
		return ""
	}
	return "." + s
}

func shortU(u *Org) string {
	if u == nil {
		return "?"
	}
	return trimOrg(pathName(u))
}
