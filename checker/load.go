package main

import (
	"fmt"
	"go/ast"
	"go/token"
	"go/types"
	"os"
	"sort"
	"strings"

	"golang.org/x/tools/go/callgraph"
	"golang.org/x/tools/go/callgraph/cha"
	"golang.org/x/tools/go/callgraph/vta"
	"golang.org/x/tools/go/packages"
	"golang.org/x/tools/go/ssa"
	"golang.org/x/tools/go/ssa/ssautil"
)

// ModPath is the import path prefix of the analysed repository.
const ModPath = "github.com/metal-toolbox/audito-maldito"

// Prog is the loaded, type-checked program in SSA form.
type Prog struct {
	Repo            string
	Config          string // description of the build configuration
	Fset            *token.FileSet
	Pkgs            []*packages.Package // repository packages (roots)
	All             map[string]*packages.Package
	SSA             *ssa.Program
	vtaCG           *callgraph.Graph
	chaCG           *callgraph.Graph
	fieldInit       map[string]bool              // fieldOnlyInitialised memo
	globalStores    map[*ssa.Global][]*ssa.Store // tableval.go
	globalAddrTaken map[*ssa.Global]bool
	tableMemo       map[*ssa.Global][]*SV
	// forbidden features found in repository packages (unsafe, reflect
	// calls, linkname, cgo); affected checks treat them as undecided.
	Forbidden []string
	// Daemon: repository packages reachable from package main through
	// non-test imports. Test-support packages (fakes, testtools) are
	// outside and never part of a worker's cone.
	Daemon map[string]bool
}

// LoadOpts selects the build configuration.
type LoadOpts struct {
	Repo   string
	GOARCH string
	Tags   string
}

func Load(o LoadOpts) (*Prog, error) {
	env := []string{}
	for _, kv := range os.Environ() {
		k := strings.SplitN(kv, "=", 2)[0]
		switch k {
		case "GOFLAGS", "GOPROXY", "GOSUMDB", "GOTOOLCHAIN", "GOWORK", "GOARCH", "GOOS":
			continue
		}
		env = append(env, kv)
	}
	env = append(env, "GOFLAGS=-mod=mod", "GOPROXY=off", "GOSUMDB=off", "GOTOOLCHAIN=local", "GOWORK=off", "GOOS=linux", "CGO_ENABLED=0")
	arch := o.GOARCH
	if arch == "" {
		arch = "amd64"
	}
	env = append(env, "GOARCH="+arch)
	cfg := &packages.Config{
		Mode:  packages.LoadAllSyntax,
		Dir:   o.Repo,
		Env:   env,
		Tests: false,
	}
	if o.Tags != "" {
		cfg.BuildFlags = []string{"-tags=" + o.Tags}
	}
	pkgs, err := packages.Load(cfg, "./...")
	if err != nil {
		return nil, fmt.Errorf("load: %w", err)
	}
	if len(pkgs) == 0 {
		return nil, fmt.Errorf("load: zero packages matched ./... in %s", o.Repo)
	}
	var errs []string
	all := map[string]*packages.Package{}
	packages.Visit(pkgs, nil, func(p *packages.Package) {
		all[p.PkgPath] = p
		for _, e := range p.Errors {
			errs = append(errs, e.Error())
		}
	})
	if len(errs) > 0 {
		sort.Strings(errs)
		if len(errs) > 10 {
			errs = errs[:10]
		}
		return nil, fmt.Errorf("load: type/parse errors: %s", strings.Join(errs, "; "))
	}
	sort.Slice(pkgs, func(i, j int) bool { return pkgs[i].PkgPath < pkgs[j].PkgPath })
	prog, _ := ssautil.AllPackages(pkgs, ssa.InstantiateGenerics)
	prog.Build()
	p := &Prog{
		Repo:   o.Repo,
		Config: fmt.Sprintf("linux/%s tags=%q", arch, o.Tags),
		Fset:   pkgs[0].Fset,
		Pkgs:   pkgs,
		All:    all,
		SSA:    prog,
	}
	p.scanForbidden()
	p.Daemon = map[string]bool{}
	var visit func(pk *packages.Package)
	visit = func(pk *packages.Package) {
		if pk == nil || p.Daemon[pk.PkgPath] {
			return
		}
		p.Daemon[pk.PkgPath] = true
		for _, imp := range pk.Imports {
			if strings.HasPrefix(imp.PkgPath, ModPath) {
				visit(imp)
			}
		}
	}
	visit(all[ModPath])
	if len(p.Daemon) == 0 {
		return nil, fmt.Errorf("load: main package %s not found", ModPath)
	}
	return p, nil
}

// scanForbidden records constructs that would invalidate call-graph and
// value reasoning inside repository packages.
func (p *Prog) scanForbidden() {
	for _, pkg := range p.Pkgs {
		if strings.Contains(pkg.PkgPath, "/internal/integration_tests") {
			continue
		}
		for _, f := range pkg.Syntax {
			for _, imp := range f.Imports {
				path := strings.Trim(imp.Path.Value, `"`)
				if path == "unsafe" || path == "C" || path == "reflect" {
					p.Forbidden = append(p.Forbidden, fmt.Sprintf("%s imports %s", p.Fset.Position(imp.Pos()), path))
				}
			}
			for _, cg := range f.Comments {
				for _, c := range cg.List {
					if strings.HasPrefix(c.Text, "//go:linkname") {
						p.Forbidden = append(p.Forbidden, fmt.Sprintf("%s go:linkname", p.Fset.Position(c.Pos())))
					}
				}
			}
		}
	}
}

// RepoPkg returns the SSA package of a repository-relative import path
// ("" is the main package).
func (p *Prog) RepoPkg(rel string) *ssa.Package {
	path := ModPath
	if rel != "" {
		path += "/" + rel
	}
	pk := p.All[path]
	if pk == nil {
		return nil
	}
	return p.SSA.Package(pk.Types)
}

func (p *Prog) TypesPkg(path string) *types.Package {
	pk := p.All[path]
	if pk == nil {
		return nil
	}
	return pk.Types
}

func (p *Prog) PackagesPkg(rel string) *packages.Package {
	path := ModPath
	if rel != "" {
		path += "/" + rel
	}
	return p.All[path]
}

// InRepo reports whether fn is declared in the analysed repository.
func InRepo(fn *ssa.Function) bool {
	if fn == nil {
		return false
	}
	o := fn
	for o.Parent() != nil {
		o = o.Parent()
	}
	if o.Origin() != nil {
		o = o.Origin()
	}
	if o.Pkg != nil {
		return strings.HasPrefix(o.Pkg.Pkg.Path(), ModPath)
	}
	if ob := o.Object(); ob != nil && ob.Pkg() != nil {
		return strings.HasPrefix(ob.Pkg().Path(), ModPath)
	}
	return false
}

// FuncPkgPath returns the package path a function (or its generic origin
// / enclosing function) is declared in.
func FuncPkgPath(fn *ssa.Function) string {
	o := fn
	for o.Parent() != nil {
		o = o.Parent()
	}
	if o.Origin() != nil {
		o = o.Origin()
	}
	if o.Pkg != nil {
		return o.Pkg.Pkg.Path()
	}
	if ob := o.Object(); ob != nil && ob.Pkg() != nil {
		return ob.Pkg().Path()
	}
	return ""
}

// Pos renders a position relative to the repository root.
func (p *Prog) Pos(pos token.Pos) string {
	if !pos.IsValid() {
		return "-"
	}
	ps := p.Fset.Position(pos)
	f := ps.Filename
	if strings.HasPrefix(f, p.Repo+"/") {
		f = f[len(p.Repo)+1:]
	} else if i := strings.Index(f, "/pkg/mod/"); i >= 0 {
		f = f[i+len("/pkg/mod/"):]
	}
	return fmt.Sprintf("%s:%d", f, ps.Line)
}

// InstrPos finds a usable position for an instruction (falling back to
// its operands / block neighbours, since many SSA instructions have NoPos).
func (p *Prog) InstrPos(in ssa.Instruction) string {
	if in == nil {
		return "-"
	}
	if in.Pos().IsValid() {
		return p.Pos(in.Pos())
	}
	if v, ok := in.(ssa.Value); ok {
		_ = v
	}
	var ops []*ssa.Value
	for _, op := range in.Operands(ops) {
		if *op != nil && (*op).Pos().IsValid() {
			return p.Pos((*op).Pos())
		}
	}
	b := in.Block()
	if b != nil {
		for _, x := range b.Instrs {
			if x.Pos().IsValid() {
				return p.Pos(x.Pos())
			}
		}
		return p.Pos(b.Parent().Pos())
	}
	return "-"
}

// VTA returns the VTA call graph (seeded with CHA), built on demand.
func (p *Prog) VTA() *callgraph.Graph {
	if p.vtaCG == nil {
		p.vtaCG = vta.CallGraph(ssautil.AllFunctions(p.SSA), p.CHA())
	}
	return p.vtaCG
}

func (p *Prog) CHA() *callgraph.Graph {
	if p.chaCG == nil {
		p.chaCG = cha.CallGraph(p.SSA)
	}
	return p.chaCG
}

// FuncDeclOf returns the syntax of a source function if available.
func FuncSyntax(fn *ssa.Function) ast.Node { return fn.Syntax() }

// ---- lookup helpers -------------------------------------------------

// Func looks up a package-level function by repository-relative package and name.
func (p *Prog) Func(rel, name string) *ssa.Function {
	pk := p.RepoPkg(rel)
	if pk == nil {
		return nil
	}
	return pk.Func(name)
}

// Method looks up method name on *T or T declared in the repository package rel.
func (p *Prog) Method(rel, typ, name string) *ssa.Function {
	pk := p.RepoPkg(rel)
	if pk == nil {
		return nil
	}
	t := pk.Type(typ)
	if t == nil {
		return nil
	}
	T := t.Type()
	for _, recv := range []types.Type{types.NewPointer(T), T} {
		ms := p.SSA.MethodSets.MethodSet(recv)
		for i := 0; i < ms.Len(); i++ {
			if ms.At(i).Obj().Name() == name {
				return p.SSA.MethodValue(ms.At(i))
			}
		}
	}
	return nil
}

// ExtFunc resolves a function or method object of a dependency:
// pkgPath, optional receiver type name, name.
func (p *Prog) ExtObj(pkgPath, recv, name string) types.Object {
	tp := p.TypesPkg(pkgPath)
	if tp == nil {
		return nil
	}
	if recv == "" {
		return tp.Scope().Lookup(name)
	}
	tn, _ := tp.Scope().Lookup(recv).(*types.TypeName)
	if tn == nil {
		return nil
	}
	named, _ := tn.Type().(*types.Named)
	if named == nil {
		return nil
	}
	for i := 0; i < named.NumMethods(); i++ {
		if named.Method(i).Name() == name {
			return named.Method(i)
		}
	}
	if it, ok := named.Underlying().(*types.Interface); ok {
		for i := 0; i < it.NumMethods(); i++ {
			if it.Method(i).Name() == name {
				return it.Method(i)
			}
		}
	}
	return nil
}

// AllRepoFuncs returns every function (incl. anonymous and generic
// instances) whose declaration lives in the repository, sorted by position.
func (p *Prog) AllRepoFuncs() []*ssa.Function {
	var out []*ssa.Function
	for fn := range ssautil.AllFunctions(p.SSA) {
		if InRepo(fn) && fn.Blocks != nil {
			out = append(out, fn)
		}
	}
	sort.Slice(out, func(i, j int) bool {
		if out[i].Pos() != out[j].Pos() {
			return out[i].Pos() < out[j].Pos()
		}
		return out[i].String() < out[j].String()
	})
	return out
}

// InDaemon: fn is declared in a package the daemon binary links.
func (p *Prog) InDaemon(fn *ssa.Function) bool {
	return InRepo(fn) && p.Daemon[FuncPkgPath(fn)]
}
