package main

import (
	"fmt"
	"go/constant"
	"go/token"
	"go/types"
	"strings"

	"golang.org/x/tools/go/ssa"
)

func init() { register("C16", "other", checkC16) }

const oneMinuteNs = int64(60_000_000_000)

// hasEarlyExit: the function ranges over a map and can leave the loop
// before the iterator is exhausted.
func hasEarlyExit(fn *ssa.Function) (ranges bool, early bool) {
	var next *ssa.Next
	allInstrs(fn, func(in ssa.Instruction) {
		if n, ok := in.(*ssa.Next); ok {
			next = n
		}
	})
	if next == nil {
		return false, false
	}
	loopBlocks := map[*ssa.BasicBlock]bool{}
	for _, b := range fn.Blocks {
		if len(b.Instrs) == 0 {
			continue
		}
		// in the loop: can reach the Next again
		if b == next.Block() || reachesFromBlock(b, next) && reachesInstrFromBlock(next.Block(), b) {
			loopBlocks[b] = true
		}
	}
	// the regular exit: the If testing the iterator's ok flag
	var okIf *ssa.If
	if rr := next.Referrers(); rr != nil {
		for _, u := range *rr {
			if ex, ok := u.(*ssa.Extract); ok && ex.Index == 0 {
				if er := ex.Referrers(); er != nil {
					for _, uu := range *er {
						if iff, ok := uu.(*ssa.If); ok {
							okIf = iff
						}
					}
				}
			}
		}
	}
	for b := range loopBlocks {
		for _, s := range b.Succs {
			if loopBlocks[s] {
				continue
			}
			if okIf != nil && b == okIf.Block() {
				continue
			}
			early = true
		}
	}
	return true, early
}

func reachesInstrFromBlock(from, to *ssa.BasicBlock) bool {
	seen := map[*ssa.BasicBlock]bool{from: true}
	work := []*ssa.BasicBlock{from}
	for len(work) > 0 {
		x := work[len(work)-1]
		work = work[:len(work)-1]
		if x == to {
			return true
		}
		for _, s := range x.Succs {
			if !seen[s] {
				seen[s] = true
				work = append(work, s)
			}
		}
	}
	return false
}

func checkC16(c *Check) {
	p := c.P
	c.Explanation = "Guard and constant-wiring rules: (1) in the sessions sweep a removal is control-dependent on exactly {the object has no login, its creation time is before the cut-off parameter}, keyed by the entry's own key, under the map's lock; in the parked-logins sweep on exactly {the login event's LoggedAt is before the cut-off}; (2) both sweeps visit every entry (the callback returns true on all paths, or the iteration primitive has no early exit); (3) the audit processor creates one ticker before its loop with the constant period of one minute, and the ticker case computes time.Now().Add(-one minute) once and passes that single value to both sweeps; (4) the ages compared are the session object's creation time (time.Now() when the LOGIN record is processed) and the login event's timestamp. This decides that the code computes the window the statement names ([1 min, 2 min)); real-time behaviour is not decided."
	c.Rule("cleanup-guard-exact (sessions: !hasRUL && added.Before(t); logins: Source.LoggedAt.Before(t)) / removal-keyed-by-entry / full-sweep / ticker-wiring / age-sources")
	c.Trust("time.Ticker fires once per period; time.Time.Before is a strict order")
	t := NewTracker(c)
	if t == nil {
		return
	}
	mapContract(c)
	type sweep struct {
		ep    string
		m     string
		atoms []string // expected guard atoms (canonical)
	}
	var sweeps []sweep
	// discover the sweeps: entry points with a time.Time parameter
	for _, ep := range t.EPs {
		if len(ep.Params) == 2 && typeName(ep.Params[1].Type()) == "time.Time" {
			// which map does it sweep
			m := ""
			for _, f := range t.Of("mapop") {
				if f.EP == ep.Name() && f.Method == "Iterate" {
					m = f.Map
				}
			}
			sweeps = append(sweeps, sweep{ep: ep.Name(), m: m})
		}
	}
	c.Floor("cleanup entry points (time.Time cut-off parameter)", 2, len(sweeps))
	sawSess, sawRul := false, false
	for _, sw := range sweeps {
		var it *TFact
		for i, f := range t.Facts {
			if f.Kind == "mapop" && f.EP == sw.ep && (f.Method == "Iterate" || (f.Cb == nil && false)) {
				it = &t.Facts[i]
			}
		}
		name := "sweep " + sw.ep
		if it == nil {
			// another iteration primitive taking a callback
			for i, f := range t.Facts {
				if f.Kind != "mapop" || f.EP != sw.ep {
					continue
				}
				if ci, ok := f.Ins.(ssa.CallInstruction); ok {
					for _, a := range ci.Common().Args {
						if mc, ok := a.(*ssa.MakeClosure); ok {
							t.Facts[i].Cb = unwrapBound(mc.Fn.(*ssa.Function))
							it = &t.Facts[i]
							sw.m = f.Map
						}
					}
				}
			}
		}
		if it == nil || it.Cb == nil {
			c.Bad("full-sweep", name, "-", "the cleanup does not sweep a map with Iterate and a callback: whether every stale entry is visited and removed cannot be established")
			continue
		}
		cb := it.Cb
		// 2. full sweep
		fullOK := true
		for _, rf := range t.Of("return") {
			if rf.Fn == cb && rf.EP == sw.ep && rf.Ret != "true" {
				fullOK = false
			}
		}
		// the iteration primitive
		var prim *ssa.Function
		if ci, ok := it.Ins.(ssa.CallInstruction); ok {
			prim = staticCallee(ci.Common())
		}
		if prim != nil {
			if rg, early := hasEarlyExit(prim); rg && !early {
				fullOK = true // no way to stop early at all
			} else if rg && early && it.Method != "Iterate" {
				// a primitive whose loop can stop early: the callback must never trigger the exit
				constTrue := true
				allInstrs(cb, func(in ssa.Instruction) {
					if ret, ok := in.(*ssa.Return); ok && len(ret.Results) == 1 {
						k, isC := ret.Results[0].(*ssa.Const)
						if !isC || k.Value == nil || k.Value.String() != "true" {
							constTrue = false
						}
					}
				})
				fullOK = constTrue
			}
		}
		c.Cond(fullOK, "full-sweep", name+": callback "+cb.Name(), p.Pos(cb.Pos()), "the callback returns true on every path (the iteration stops only when exhausted)", "the sweep can stop before every entry was examined: stale entries visited later survive the cleanup and can still be correlated late")
		// 1. guards of removals
		nrem := 0
		for _, d := range t.Of("mapop") {
			if d.EP != sw.ep || (d.Method != "DeleteUnsafe" && d.Method != "Delete") {
				continue
			}
			nrem++
			rname := fmt.Sprintf("removal from %s in %s", d.Map, d.Fn.Name())
			// entry being visited
			var uOrg *Org
			isSess := d.Map == t.SessMap
			want := map[string]bool{}
			got := map[string]bool{}
			extra := []string{}
			keyOK := d.Key.K == "range" && d.Key.Name == "key" && pathRecv(d.Key.Sub[0]) == d.Map+".m"
			uOrg = &Org{K: "range", Name: "value", Sub: d.Key.Sub}
			if isSess {
				sawSess = true
				want["unbound"], want["older"] = true, true
			} else {
				sawRul = true
				want["older"] = true
			}
			for _, g := range d.Guards {
				if g.X != nil && g.X.K == "range" && g.X.Name == "ok" {
					continue // being inside the iteration
				}
				if g.Expanded {
					continue // a predicate helper: its implied conditions are judged
				}
				switch g.Op {
				case "value", "call":
					// hasRUL (field or accessor)
					if v, found := t.guardHasRUL([]GAtom{g}, uOrg); found {
						if !v && isSess {
							got["unbound"] = true
						} else {
							extra = append(extra, g.String())
						}
						continue
					}
					if cl, ok := g.V.(*ssa.Call); ok {
						if sc := staticCallee(cl.Common()); sc != nil && (sc.String() == "(time.Time).Before" || sc.String() == "(time.Time).After") && g.Pos {
							// age.Before(cut), or the same strict order written cut.After(age)
							x := g.R.Of(cl.Call.Args[0])
							y := g.R.Of(cl.Call.Args[1])
							if sc.Name() == "After" {
								x, y = y, x
							}
							cut := y.K == "param" && typeName(y.V.Type()) == "time.Time"
							age := false
							if isSess {
								age = x.K == "field" && x.Name == "added" && sameOrg(x.Sub[0], uOrg)
							} else {
								root, names := x.FieldPath()
								age = sameOrg(root, uOrg) && len(names) == 2 && names[0] == "Source" && names[1] == "LoggedAt"
							}
							if cut && age {
								got["older"] = true
								continue
							}
						}
					}
					// logger-enabled tests do not restrict the removal (they guard logging blocks that rejoin)
					extra = append(extra, g.String())
				case "!=", "==":
					// a nil test of the visited entry itself, or of a pointer of it
					// that the age condition dereferences, restricts nothing: an
					// entry without that pointer has no age to compare (the age
					// condition would not be evaluable for it)
					isNilO := func(o *Org) bool { return o != nil && o.K == "const" && o.Name == "nil" }
					var other *Org
					if isNilO(g.X) {
						other = g.Y
					} else if isNilO(g.Y) {
						other = g.X
					}
					if other != nil && (other.K == "closure" || other.K == "func") {
						continue // a nil test of a function value that is a literal: always non-nil
					}
					if other != nil {
						root, names := other.FieldPath()
						if sameOrg(root, uOrg) && (len(names) == 0 || (!isSess && len(names) == 1 && names[0] == "Source")) {
							continue
						}
					}
					// debugLogger != nil blocks rejoin before the removal; if one still guards it, it is an extra condition
					extra = append(extra, g.String())
				default:
					extra = append(extra, g.String())
				}
			}
			miss := []string{}
			for k := range want {
				if !got[k] {
					miss = append(miss, k)
				}
			}
			okG := len(miss) == 0 && len(extra) == 0
			why := ""
			if len(miss) > 0 {
				why += "missing condition(s) " + strings.Join(miss, ",") + " (an entry younger than the cut-off, or a correlated session, can be discarded); "
			}
			if len(extra) > 0 {
				why += "additional condition(s) " + strings.Join(extra, " ") + " (some stale entries are kept and can be correlated late)"
			}
			c.Cond(okG, "cleanup-guard-exact", rname, d.Pos(p), "removed exactly when "+map[bool]string{true: "the object has no login and was created before the cut-off", false: "the login event's timestamp is before the cut-off"}[isSess], why)
			c.Cond(keyOK && contains(d.Held, d.Map+".mtx"), "removal-keyed-by-entry", rname, d.Pos(p), "removes the visited entry, under the map's lock", "the removal does not address the entry being visited (key "+shortU(d.Key)+") or is made outside the map's lock")
		}
		c.Floor("removals in sweep "+sw.ep, 1, nrem)
	}
	for _, sw := range sweeps {
		for _, f := range t.Of("mapop") {
			if f.EP == sw.ep && f.Map == t.SessMap {
				sawSess = true
			}
			if f.EP == sw.ep && f.Map == t.RulMap {
				sawRul = true
			}
		}
	}
	c.Cond(sawSess && sawRul, "cleanup-guard-exact", "both maps are swept", "-", "sessions map and parked-logins map each have a sweep", "one of the two maps is never cleaned: its stale halves are kept for ever")

	// 4. age sources
	nadd := 0
	for _, s := range t.Of("userstore") {
		if s.Field != "added" {
			continue
		}
		nadd++
		c.Cond(s.Val.K == "call" && s.Val.Name == "time.Now", "age-sources", "user.added in "+s.Fn.Name(), s.Pos(p), "time.Now() when the session object is created", "the session's age is taken from "+shortU(s.Val))
	}
	c.Floor("initialisations of user.added", 1, nadd)
	if st, ok := t.UserT.Underlying().(*types.Struct); ok {
		for i := 0; i < st.NumFields(); i++ {
			if st.Field(i).Name() == "added" {
				pos := "-"
				if ls := p.fieldLateStore(t.UserT, i); ls != nil {
					pos = p.InstrPos(ls)
				}
				c.Cond(p.fieldOnlyInitialised(t.UserT, i), "age-sources", "user.added is the arrival time", pos, "written only while the session object is being built", "the arrival stamp of an existing session object is rewritten later (refreshed): the cleanup then measures the age from the last refresh instead of the arrival, and a half that keeps receiving records is never discarded")
			}
		}
	}

	// 5. a discarded half is gone: the maps the sweeps clean are the only
	// containers of session objects (a secondary index that the sweep does
	// not clean keeps a discarded session reachable, and its held events are
	// emitted late when the login arrives)
	singleOwner(c, t)

	// 3. ticker wiring
	tickerWiring(c, t)
}

func tickerWiring(c *Check, t *Tracker) {
	p := c.P
	read := p.Method("processors/auditd", "Auditd", "Read")
	if !c.Anchor("(*auditd.Auditd).Read", read != nil) {
		return
	}
	c.Fn(funcDisplayName(read))
	// the processor's loop function: Read, or the function of its package
	// holding the blocking select loop when Read was split
	entryRead := read
	{
		var best *ssa.Select
		for _, bf := range cmdBody(p, read) {
			allInstrs(bf, func(in ssa.Instruction) {
				if s, ok := in.(*ssa.Select); ok && s.Blocking && (best == nil || len(s.States) > len(best.States)) {
					best = s
				}
			})
		}
		if best != nil && best.Parent() != read {
			read = best.Parent()
			c.Fn(funcDisplayName(read))
		}
	}
	_ = entryRead
	r := NewResolver(p)
	// the calls of the two sweeps: in the processor's loop function or in a
	// function of its package that it calls (directly, or through an
	// interface the tracker implements)
	isSweep := func(cl *ssa.Call) bool {
		var cands []*ssa.Function
		if sc := staticCallee(cl.Common()); sc != nil {
			cands = []*ssa.Function{sc}
		} else if cl.Common().IsInvoke() {
			cands = p.dynCallees(cl)
		}
		for _, sc := range cands {
			for _, ep := range t.EPs {
				if sc == ep && len(ep.Params) == 2 && typeName(ep.Params[1].Type()) == "time.Time" {
					return true
				}
			}
		}
		return false
	}
	type found struct {
		fn    *ssa.Function
		chain []ssa.CallInstruction // call sites from Read down to fn
	}
	work := []found{{read, nil}}
	seenFn := map[*ssa.Function]bool{read: true}
	var calls []*ssa.Call
	var chain []ssa.CallInstruction
	holders := 0
	for len(work) > 0 {
		f := work[0]
		work = work[1:]
		n := 0
		allInstrs(f.fn, func(in ssa.Instruction) {
			cl, ok := in.(*ssa.Call)
			if !ok {
				return
			}
			if isSweep(cl) {
				calls = append(calls, cl)
				n++
				return
			}
			sc := staticCallee(cl.Common())
			if sc != nil && !seenFn[sc] && sc.Blocks != nil && FuncPkgPath(sc) == FuncPkgPath(read) && len(f.chain) < 3 {
				seenFn[sc] = true
				work = append(work, found{sc, append(append([]ssa.CallInstruction{}, f.chain...), cl)})
			}
		})
		if n > 0 {
			holders++
			chain = f.chain
		}
	}
	c.Cond(len(calls) == 2 && holders == 1, "ticker-wiring", "both sweeps are called by the processor", p.Pos(read.Pos()), "two sweep calls", fmt.Sprintf("%d sweep call(s) in the processor: a map is never cleaned (or cleaned twice per tick)", len(calls)))
	if len(calls) == 0 {
		return
	}
	// the sweeps' position in the loop function, and the resolver of the
	// function holding them (its parameters bound along the call chain)
	var inRead ssa.Instruction = calls[0]
	for _, site := range chain {
		r = r.Bind(staticCallee(site.Common()), site)
	}
	if len(chain) > 0 {
		inRead = chain[0]
		for _, site := range chain {
			c.Cond(len(GuardsOf(site)) == len(GuardsOf(chain[0])) || site == chain[0], "ticker-wiring", "helper holding the sweeps is called unconditionally: "+calleeName(site.Common()), p.InstrPos(site), "no extra condition", "the sweeps run only under an additional condition")
		}
		for _, cl := range calls {
			c.Cond(len(GuardsOf(cl)) == 0, "ticker-wiring", "sweep call in helper "+cl.Parent().Name(), p.InstrPos(cl), "unconditional in the helper", "a sweep is conditional inside the helper: a map may never be cleaned")
		}
	}
	same := true
	for _, cl := range calls[1:] {
		if cl.Call.Args[len(cl.Call.Args)-1] != calls[0].Call.Args[len(calls[0].Call.Args)-1] || cl.Block() != calls[0].Block() {
			same = false
		}
	}
	c.Cond(same, "ticker-wiring", "one cut-off value for both sweeps", p.InstrPos(calls[0]), "the same value is passed to both, in the same case", "the two sweeps use different cut-offs (or run in different cases)")
	// cut-off = time.Now().Add(-1m)
	co := r.Of(calls[0].Call.Args[len(calls[0].Call.Args)-1])
	okCut := false
	why := "cut-off is " + trimOrg(co.String())
	if co.K == "call" && co.Name == "(time.Time).Add" {
		ac := co.V.(*ssa.Call)
		base := callArgOrg(co, 0)
		dOrg := callArgOrg(co, 1)
		d, isK := dOrg.V.(*ssa.Const)
		if dOrg.K != "const" {
			isK = false
		}
		_ = ac
		if base.K == "call" && base.Name == "time.Now" && isK && d.Value != nil && d.Value.Kind() == constant.Int {
			if d.Int64() == -oneMinuteNs {
				okCut = true
			} else {
				why = fmt.Sprintf("cut-off is now%+d ns, not now - 1 minute", d.Int64())
			}
		}
	}
	c.Cond(okCut, "ticker-wiring", "cut-off computation", p.InstrPos(calls[0]), "time.Now().Add(-1 minute)", why+": halves are kept for a different window than the statement's one minute")
	// the case is driven by a ticker created once before the loop with period 1 minute
	var sel *ssa.Select
	allInstrs(read, func(in ssa.Instruction) {
		if s, ok := in.(*ssa.Select); ok && s.Blocking {
			sel = s
		}
	})
	okTick := false
	whyT := "the sweeps are not driven by a select case on a ticker"
	if sel != nil {
		for k, st := range sel.States {
			if st.Dir != types.RecvOnly {
				continue
			}
			cb := selectCaseBlock(sel, k)
			if cb == nil || !(cb == inRead.Block() || cb.Dominates(inRead.Block())) {
				continue
			}
			// channel = ticker.C
			co := r.Of(st.Chan)
			if co.K == "param" {
				// the ticker's channel handed to the loop function by Read
				if ups := resolveUp(p, read, st.Chan, 0); len(ups) == 1 {
					co = ups[0]
				}
			}
			whyT = "the case is driven by " + trimOrg(co.String())
			if co.K == "field" && co.Name == "C" {
				tk := co.Sub[0]
				if tk.K == "call" && tk.Name == "time.NewTicker" {
					nc := tk.V.(*ssa.Call)
					per, isK := nc.Call.Args[0].(*ssa.Const)
					switch {
					case nc.Parent() != sel.Parent() && !inLoop(nc):
						// created by the caller before it enters the loop function
						okCaller := false
						for _, site := range staticCallers(p, sel.Parent()) {
							if site.Parent() == nc.Parent() && dominatesInstr(nc, site) && !inLoop(site) {
								okCaller = true
							}
						}
						if !okCaller {
							whyT = "the ticker is not created once before the loop function is entered"
						} else if !isK || per.Value == nil || per.Int64() != oneMinuteNs {
							whyT = "the ticker's period is not the one-minute constant"
						} else {
							okTick = true
						}
					case inLoop(nc) || !dominatesInstr(nc, sel):
						whyT = "the ticker is created inside the loop: every other event restarts the period and cleanup may never run"
					case !isK || per.Value == nil || per.Int64() != oneMinuteNs:
						whyT = "the ticker's period is not the one-minute constant"
					default:
						okTick = true
					}
				}
			} else if co.K == "call" && (co.Name == "time.After" || co.Name == "time.Tick") {
				whyT = co.Name + " inside the select is re-armed on every pass of the loop: traffic on the other cases postpones cleanup indefinitely, so halves more than two minutes apart are still correlated"
			}
		}
	}
	c.Cond(okTick, "ticker-wiring", "periodic trigger of the sweeps", p.Pos(read.Pos()), "time.NewTicker(1 minute) created once before the loop drives the case", whyT)
	_ = token.ADD
}
