package main

import (
	"fmt"
	"go/constant"
	"go/token"
	"go/types"
	"strings"

	"golang.org/x/tools/go/ssa"
)

// Analysis F: blocking-operation scan and cancellation idioms.

type BSite struct {
	Fn   *ssa.Function
	In   ssa.Instruction
	Kind string // send recv select call lock
	Desc string
}

// blocking externals: display name -> short description. Matched on the
// resolved callee (types.Object), never on source text.
var blockingCalls = map[string]string{
	"os.OpenFile":                              "open (blocks on a FIFO until a writer appears)",
	"os.Open":                                  "open (blocks on a FIFO until a writer appears)",
	"(*bufio.Reader).ReadString":               "buffered read",
	"(*bufio.Reader).ReadBytes":                "buffered read",
	"(*bufio.Reader).ReadLine":                 "buffered read",
	"(*bufio.Reader).ReadSlice":                "buffered read",
	"(*bufio.Reader).Read":                     "buffered read",
	"(*bufio.Reader).ReadByte":                 "buffered read",
	"(*bufio.Reader).ReadRune":                 "buffered read",
	"(*bufio.Scanner).Scan":                    "buffered read",
	"(*os.File).Read":                          "file read",
	"io.ReadAll":                               "read until EOF",
	"io.Copy":                                  "copy until EOF",
	"(*net/http.Server).ListenAndServe":        "serve",
	"(*net/http.Server).Serve":                 "serve",
	"(*net/http.Server).Shutdown":              "graceful shutdown (waits for active connections until its context ends)",
	"(*sync.WaitGroup).Wait":                   "wait group",
	"(*sync.Cond).Wait":                        "condition wait",
	"time.Sleep":                               "sleep",
	"(*golang.org/x/sync/errgroup.Group).Wait": "errgroup wait",
}

func selectStateOf(in ssa.Instruction) bool { return false }

// blockingSites enumerates the blocking operations of a function.
func blockingSites(fn *ssa.Function) []BSite {
	var out []BSite
	allInstrs(fn, func(in ssa.Instruction) {
		switch x := in.(type) {
		case *ssa.Send:
			out = append(out, BSite{fn, in, "send", "channel send"})
		case *ssa.UnOp:
			if x.Op == token.ARROW {
				out = append(out, BSite{fn, in, "recv", "channel receive"})
			}
		case *ssa.Select:
			if x.Blocking {
				out = append(out, BSite{fn, in, "select", "blocking select"})
			} else if inLoop(in) {
				// a polling loop: a non-blocking receive repeated in a loop
				for _, st := range x.States {
					if st.Dir == types.RecvOnly {
						out = append(out, BSite{fn, in, "poll", "non-blocking receive in a loop"})
						break
					}
				}
			}
		case ssa.CallInstruction:
			if _, isDefer := in.(*ssa.Defer); isDefer {
				// a deferred blocking call blocks when the function returns
				cc := x.Common()
				if sc := staticCallee(cc); sc != nil {
					if d, ok := blockingCalls[sc.String()]; ok && (strings.Contains(sc.String(), "WaitGroup") || strings.Contains(sc.String(), "errgroup")) {
						out = append(out, BSite{fn, in, "call", "deferred " + sc.String() + ": " + d})
					}
				}
				return
			}
			cc := x.Common()
			sc := staticCallee(cc)
			if sc == nil {
				return
			}
			if d, ok := blockingCalls[sc.String()]; ok {
				out = append(out, BSite{fn, in, "call", sc.String() + ": " + d})
			}
			if d := retryExternal(sc); d != "" {
				out = append(out, BSite{fn, in, "call", sc.String() + ": " + d})
			}
			if sc.String() == "(*sync.Mutex).Lock" || sc.String() == "(*sync.RWMutex).Lock" || sc.String() == "(*sync.RWMutex).RLock" {
				out = append(out, BSite{fn, in, "lock", sc.String()})
			}
		}
	})
	return out
}

// CtxJudge decides whether a context value is (derived from) the worker's
// cancellation context.
type CtxJudge struct {
	P *Prog
	// NoDeadline: a context derived with a deadline or timeout is not
	// accepted: it ends for a reason other than the shutdown of the worker
	NoDeadline bool
	fieldOK    map[*types.Var]*bool
	paramOK    map[*ssa.Parameter]*string // nil while in progress; "" = ok; else reason
}

func isContextType(t types.Type) bool {
	n, ok := t.(*types.Named)
	return ok && n.Obj().Pkg() != nil && n.Obj().Pkg().Path() == "context" && n.Obj().Name() == "Context"
}

// OK: the context value v is the workers' group context (the context
// result of errgroup.WithContext) or derives from it: through context
// parameters (every caller in the program passes such a context), context
// fields (every store stores such a context) and context.With*.
func (j *CtxJudge) OK(r *Resolver, v ssa.Value) (bool, string) {
	return j.okOrg(r, r.Of(v), 0)
}

func (j *CtxJudge) okOrg(r *Resolver, o *Org, depth int) (bool, string) {
	if depth > 12 {
		return false, "derivation too deep"
	}
	for _, a := range o.Alts() {
		switch a.K {
		case "param":
			prm, isP := a.V.(*ssa.Parameter)
			if !isP || !isContextType(a.V.Type()) {
				return false, "parameter " + a.Name + " is not a context"
			}
			if why := j.paramWhy(prm, depth); why != "" {
				return false, why
			}
		case "field":
			fv := fieldVarOf(a)
			if fv == nil || !isContextType(fv.Type()) {
				return false, "field " + a.Name + " is not a context field"
			}
			if ok, why := j.fieldStoresOK(fv); !ok {
				return false, why
			}
		case "call":
			c := a.V.(*ssa.Call)
			switch a.Name {
			case "golang.org/x/sync/errgroup.WithContext":
				if a.Idx != 1 {
					return false, "not the context result of errgroup.WithContext"
				}
			case "context.WithCancel", "context.WithTimeout", "context.WithDeadline", "context.WithValue", "context.WithCancelCause":
				if j.NoDeadline && (a.Name == "context.WithTimeout" || a.Name == "context.WithDeadline") {
					return false, "the context is derived with " + a.Name + " at " + j.P.InstrPos(c) + ": it is done when the deadline passes, not only when the worker is shut down"
				}
				if ok, why := j.okOrg(r, r.Of(c.Call.Args[0]), depth+1); !ok {
					return false, why
				}
			default:
				return false, "context produced by " + a.Name + " is not the workers' group context: cancelling the group does not cancel it"
			}
		default:
			return false, "context of unknown origin " + a.String()
		}
	}
	return true, "context derives from the errgroup context via " + o.String()
}

// paramWhy judges a context parameter through every call edge into its
// function ("" = every caller passes the group context).
func (j *CtxJudge) paramWhy(prm *ssa.Parameter, depth int) string {
	if j.paramOK == nil {
		j.paramOK = map[*ssa.Parameter]*string{}
	}
	if w, ok := j.paramOK[prm]; ok {
		if w == nil {
			return "" // in progress (recursive call chain): coinductive
		}
		return *w
	}
	j.paramOK[prm] = nil
	fn := prm.Parent()
	idx := -1
	for i, q := range fn.Params {
		if q == prm {
			idx = i
		}
	}
	res := ""
	node := j.P.graph().Nodes[fn]
	n := 0
	if node != nil {
		for _, e := range node.In {
			if e.Site == nil {
				continue
			}
			// a compiler-made wrapper of fn that nothing calls (the
			// pointer-receiver form of a value method, an unused thunk)
			if cf := e.Caller.Func; cf != nil && cf.Synthetic != "" && unwrapBound(cf) == fn {
				if cn := j.P.graph().Nodes[cf]; cn == nil || len(cn.In) == 0 {
					continue
				}
			}
			cc := e.Site.Common()
			args := cc.Args
			if cc.IsInvoke() {
				args = append([]ssa.Value{cc.Value}, cc.Args...)
			}
			// calls of a closure / function value: callee params == args
			if len(args) != len(fn.Params) {
				continue
			}
			cr := NewResolver(j.P)
			ok, why := j.okOrg(cr, cr.Of(args[idx]), depth+1)
			if cf := e.Caller.Func; !ok && cf != nil && cf.Synthetic != "" && strings.Contains(why, "has no caller in the program") {
				continue // a compiler-made wrapper that nothing calls
			}
			n++
			if !ok {
				res = fmt.Sprintf("context parameter %s of %s receives, at %s, a context that is not the group context (%s)", prm.Name(), funcDisplayName(fn), j.P.InstrPos(e.Site), why)
				break
			}
		}
	}
	if n == 0 && res == "" {
		res = fmt.Sprintf("context parameter %s of %s has no caller in the program: its context is not tied to the workers' group", prm.Name(), funcDisplayName(fn))
	}
	j.paramOK[prm] = &res
	return res
}

// fieldVarOf returns the struct field object selected by a field origin.
func fieldVarOf(a *Org) *types.Var {
	var xt types.Type
	var idx int
	switch v := a.V.(type) {
	case *ssa.FieldAddr:
		xt, idx = v.X.Type(), v.Field
	case *ssa.Field:
		xt, idx = v.X.Type(), v.Field
	case *ssa.UnOp:
		if fa, ok := v.X.(*ssa.FieldAddr); ok {
			xt, idx = fa.X.Type(), fa.Field
		}
	}
	if xt == nil {
		return nil
	}
	st, ok := deref(xt).Underlying().(*types.Struct)
	if !ok || idx >= st.NumFields() {
		return nil
	}
	return st.Field(idx)
}

// fieldStoresOK: every store to the context-typed field anywhere in the
// repository stores an acceptable context.
func (j *CtxJudge) fieldStoresOK(fv *types.Var) (bool, string) {
	if j.fieldOK == nil {
		j.fieldOK = map[*types.Var]*bool{}
	}
	if b, ok := j.fieldOK[fv]; ok {
		if b == nil {
			return true, "" // in progress: assume (coinductive)
		}
		return *b, "some store to field " + fv.Name() + " is not a worker context"
	}
	j.fieldOK[fv] = nil
	res := true
	why := ""
	n := 0
	for _, fn := range j.P.AllRepoFuncs() {
		r := NewResolver(j.P)
		allInstrs(fn, func(in ssa.Instruction) {
			st, ok := in.(*ssa.Store)
			if !ok {
				return
			}
			fa, ok := st.Addr.(*ssa.FieldAddr)
			if !ok {
				return
			}
			s, ok := deref(fa.X.Type()).Underlying().(*types.Struct)
			if !ok || fa.Field >= s.NumFields() || s.Field(fa.Field) != fv {
				return
			}
			n++
			if ok, w := j.okOrg(r, r.Of(st.Val), 1); !ok {
				res = false
				why = fmt.Sprintf("store to %s at %s: %s", fv.Name(), j.P.InstrPos(in), w)
			}
		})
	}
	if n == 0 {
		res = false
		why = "field " + fv.Name() + " is never assigned"
	}
	j.fieldOK[fv] = &res
	return res, why
}

// doneRecvOf: if ch is the result of X.Done() on a context, returns X.
func doneRecvOf(ch ssa.Value) ssa.Value {
	c, ok := ch.(*ssa.Call)
	if !ok {
		return nil
	}
	cc := c.Common()
	if cc.IsInvoke() && cc.Method.Name() == "Done" && isContextType(cc.Value.Type()) {
		return cc.Value
	}
	return nil
}

// selectCaseBlock returns the block executed when state k of sel fires.
func selectCaseBlock(sel *ssa.Select, k int) *ssa.BasicBlock {
	refs := sel.Referrers()
	if refs == nil {
		return nil
	}
	for _, u := range *refs {
		ex, ok := u.(*ssa.Extract)
		if !ok || ex.Index != 0 {
			continue
		}
		if er := ex.Referrers(); er != nil {
			for _, uu := range *er {
				b, ok := uu.(*ssa.BinOp)
				if !ok || b.Op != token.EQL {
					continue
				}
				c, ok := b.Y.(*ssa.Const)
				if !ok || c.Value == nil || c.Value.Kind() != constant.Int {
					continue
				}
				if v, _ := constant.Int64Val(c.Value); int(v) != k {
					continue
				}
				if br := b.Referrers(); br != nil {
					for _, x := range *br {
						if iff, ok := x.(*ssa.If); ok {
							return iff.Block().Succs[0]
						}
					}
				}
			}
		}
	}
	return nil
}

// reachesFromBlock: can instruction target be executed on a path that
// starts at the beginning of block b (before any return)?
func reachesFromBlock(b *ssa.BasicBlock, target ssa.Instruction) bool {
	seen := map[*ssa.BasicBlock]bool{b: true}
	work := []*ssa.BasicBlock{b}
	for len(work) > 0 {
		x := work[len(work)-1]
		work = work[:len(work)-1]
		for _, in := range x.Instrs {
			if in == target {
				return true
			}
		}
		for _, s := range x.Succs {
			if !seen[s] {
				seen[s] = true
				work = append(work, s)
			}
		}
	}
	return false
}

// cellOf returns the variable cell a value is loaded from (directly or
// through a captured free variable).
func cellOf(r *Resolver, v ssa.Value) *ssa.Alloc {
	v = strip(v)
	u, ok := v.(*ssa.UnOp)
	if !ok || u.Op != token.MUL {
		return nil
	}
	o := r.Of(u.X)
	if o.K == "cell" {
		return o.V.(*ssa.Alloc)
	}
	return nil
}

func shortFn(fn *ssa.Function) string {
	s := funcDisplayName(fn)
	return strings.TrimPrefix(s, "github.com/")
}
