package main

import (
	"fmt"
	"go/constant"
	"go/token"
	"sort"
	"strings"

	"golang.org/x/tools/go/ssa"
)

// Event-slot extraction: for an *auditevent.AuditEvent value reaching a
// sink (an EventWriter.Write call, a return, a channel send) compute, per
// output slot, the origins of the values stored there.

type SlotVal struct {
	Org  *Org
	At   ssa.Instruction
	Must bool // the update dominates the sink
}

type EventSlots struct {
	Slots   map[string][]SlotVal
	Ctors   []*ssa.Call // NewAuditEvent calls that may have created the event
	Notes   []string
	Unknown []string // constructs not understood (fail closed)
}

func (e *EventSlots) add(slot string, o *Org, at ssa.Instruction, must bool) {
	e.Slots[slot] = append(e.Slots[slot], SlotVal{o, at, must})
}

func (e *EventSlots) Names() []string {
	var n []string
	for k := range e.Slots {
		n = append(n, k)
	}
	sort.Strings(n)
	return n
}

// Src is a classified slot origin.
type Src struct {
	Kind string // group const field now other zero
	A, B string
}

func (s Src) String() string {
	switch s.Kind {
	case "group":
		return "group(" + s.A + "," + s.B + ")"
	case "const":
		return "const " + s.A
	case "field":
		return s.A
	case "now":
		return "time.Now()"
	case "zero":
		return "zero"
	}
	return s.Kind + ":" + s.A
}

type evx struct {
	p     *Prog
	out   *EventSlots
	newFn map[string]bool
	seen  map[string]bool
}

func isAuditEventPtr(v ssa.Value) bool {
	return typeName(v.Type()) == "*auditevent.AuditEvent"
}

// ExtractEvent computes the slots of event value v as seen at sink.
func ExtractEvent(p *Prog, r *Resolver, v ssa.Value, sink ssa.Instruction) *EventSlots {
	x := &evx{p: p, out: &EventSlots{Slots: map[string][]SlotVal{}}, seen: map[string]bool{}}
	x.fromValue(r, v, sink, 0)
	return x.out
}

func (x *evx) unknown(format string, a ...any) {
	x.out.Unknown = append(x.out.Unknown, fmt.Sprintf(format, a...))
}

func (x *evx) fromValue(r *Resolver, v ssa.Value, sink ssa.Instruction, depth int) {
	if depth > 6 {
		x.unknown("event construction nested too deeply")
		return
	}
	fn := sink.Parent()
	// backward: roots of v
	roots := map[ssa.Value]bool{}
	var back func(v ssa.Value)
	visited := map[ssa.Value]bool{}
	back = func(v ssa.Value) {
		v = strip(v)
		if visited[v] {
			return
		}
		visited[v] = true
		switch t := v.(type) {
		case *ssa.Call:
			cc := t.Common()
			sc := staticCallee(cc)
			if sc == nil {
				x.unknown("event produced by a dynamic call at %s", x.p.InstrPos(t))
				return
			}
			switch sc.String() {
			case "github.com/metal-toolbox/auditevent.NewAuditEvent", "github.com/metal-toolbox/auditevent.NewAuditEventWithID":
				roots[t] = true
				return
			case "(*github.com/metal-toolbox/auditevent.AuditEvent).WithTarget", "(*github.com/metal-toolbox/auditevent.AuditEvent).WithData", "(*github.com/metal-toolbox/auditevent.AuditEvent).WithDataFromString":
				roots[t] = true // alias
				back(cc.Args[0])
				return
			}
			if InRepo(sc) && sc.Blocks != nil {
				roots[t] = true
				return
			}
			x.unknown("event produced by %s", sc.String())
		case *ssa.UnOp:
			if t.Op == token.MUL {
				if a, ok := t.X.(*ssa.Alloc); ok {
					for _, st := range r.cellStores(a) {
						back(st.Val)
					}
					return
				}
				if fv, ok := t.X.(*ssa.FreeVar); ok {
					o := r.Of(fv)
					if o.K == "cell" {
						for _, st := range r.cellStores(o.V.(*ssa.Alloc)) {
							back(st.Val)
						}
						return
					}
				}
			}
			x.unknown("event loaded from %s", t.String())
		case *ssa.Phi:
			for _, e := range t.Edges {
				back(e)
			}
		case *ssa.Parameter:
			if o, ok := r.Env[t]; ok && o.V != nil && o.V != t {
				// bound to a caller value: continue in the caller at the call site
				if site := r.Site[t.Parent()]; site != nil && depth < 6 {
					for _, alt := range o.Alts() {
						if alt.V != nil && isAuditEventPtr(alt.V) {
							x.fromValue(r, alt.V, site, depth+1)
						}
					}
				}
			}
			roots[t] = true
		case *ssa.Const:
			// nil event
		default:
			x.unknown("event value of unknown origin %s", v.String())
		}
	}
	back(v)

	// forward alias closure inside fn
	alias := map[ssa.Value]bool{}
	var work []ssa.Value
	for v := range roots {
		alias[v] = true
		work = append(work, v)
	}
	for len(work) > 0 {
		a := work[len(work)-1]
		work = work[:len(work)-1]
		refs := a.Referrers()
		if refs == nil {
			continue
		}
		for _, u := range *refs {
			switch t := u.(type) {
			case *ssa.Call:
				if sc := staticCallee(t.Common()); sc != nil && strings.HasPrefix(sc.String(), "(*github.com/metal-toolbox/auditevent.AuditEvent).With") && len(t.Call.Args) > 0 && t.Call.Args[0] == a {
					if !alias[t] {
						alias[t] = true
						work = append(work, t)
					}
				}
			case *ssa.Phi:
				if !alias[t] {
					alias[t] = true
					work = append(work, t)
				}
			case *ssa.Store:
				if t.Val == a {
					if al, ok := t.Addr.(*ssa.Alloc); ok {
						if lr := al.Referrers(); lr != nil {
							for _, lu := range *lr {
								if ld, ok := lu.(*ssa.UnOp); ok && ld.Op == token.MUL && !alias[ld] {
									alias[ld] = true
									work = append(work, ld)
								}
							}
						}
					}
				}
			case *ssa.MakeInterface, *ssa.ChangeType:
				tv := u.(ssa.Value)
				if !alias[tv] {
					alias[tv] = true
					work = append(work, tv)
				}
			}
		}
	}

	applies := func(at ssa.Instruction) (bool, bool) {
		if at.Parent() != fn {
			return false, false
		}
		if at == sink {
			return true, true
		}
		if !reachesInstr(at, sink) {
			return false, false
		}
		return true, dominatesInstr(at, sink)
	}

	// constructor slots and callee-built events
	var rootList []ssa.Value
	for v := range roots {
		rootList = append(rootList, v)
	}
	sort.Slice(rootList, func(i, j int) bool { return rootList[i].Pos() < rootList[j].Pos() })
	for _, rv := range rootList {
		c, ok := rv.(*ssa.Call)
		if !ok {
			continue
		}
		ok2, must := applies(c)
		if !ok2 {
			continue
		}
		sc := staticCallee(c.Common())
		args := c.Call.Args
		switch sc.String() {
		case "github.com/metal-toolbox/auditevent.NewAuditEvent":
			x.out.Ctors = append(x.out.Ctors, c)
			x.out.add("type", r.Of(args[0]), c, must)
			x.structSlots(r, "source", args[1], c, must)
			x.out.add("outcome", r.Of(args[2]), c, must)
			x.mapSlots(r, "subjects", args[3], c, must, sink)
			x.out.add("component", r.Of(args[4]), c, must)
			x.out.add("loggedAt", &Org{K: "call", V: c, Name: "time.Now(in NewAuditEvent)", Idx: -1}, c, must)
			x.out.add("metadata.auditId", &Org{K: "call", V: c, Name: "uuid.New(in NewAuditEvent)", Idx: -1}, c, must)
		case "github.com/metal-toolbox/auditevent.NewAuditEventWithID":
			x.out.Ctors = append(x.out.Ctors, c)
			x.out.add("metadata.auditId", r.Of(args[0]), c, must)
			x.out.add("type", r.Of(args[1]), c, must)
			x.structSlots(r, "source", args[2], c, must)
			x.out.add("outcome", r.Of(args[3]), c, must)
			x.mapSlots(r, "subjects", args[4], c, must, sink)
			x.out.add("component", r.Of(args[5]), c, must)
		case "(*github.com/metal-toolbox/auditevent.AuditEvent).WithTarget", "(*github.com/metal-toolbox/auditevent.AuditEvent).WithData", "(*github.com/metal-toolbox/auditevent.AuditEvent).WithDataFromString":
			// recorded with the aliases below
		default:
			// repository function returning the event
			nr := NewResolver(x.p)
			for k, v := range r.Env {
				nr.Env[k] = v
			}
			for i, prm := range sc.Params {
				if i < len(args) {
					nr.Env[prm] = r.Of(args[i])
				}
			}
			key := fmt.Sprintf("%p/%s", sc, envKey(nr, sc))
			if x.seen[key] {
				continue
			}
			x.seen[key] = true
			allInstrs(sc, func(in ssa.Instruction) {
				if ret, ok := in.(*ssa.Return); ok {
					for _, res := range ret.Results {
						if isAuditEventPtr(res) {
							x.fromValue(nr, res, ret, depth+1)
						}
					}
				}
			})
		}
	}

	// updates through aliases
	var aliasList []ssa.Value
	for a := range alias {
		aliasList = append(aliasList, a)
	}
	sort.Slice(aliasList, func(i, j int) bool { return aliasList[i].Name() < aliasList[j].Name() })
	for _, a := range aliasList {
		if wc, ok := a.(*ssa.Call); ok {
			if sc := staticCallee(wc.Common()); sc != nil && len(wc.Call.Args) > 1 {
				if ok2, must := applies(wc); ok2 {
					switch sc.String() {
					case "(*github.com/metal-toolbox/auditevent.AuditEvent).WithTarget":
						x.mapSlots(r, "target", wc.Call.Args[1], wc, must, sink)
					case "(*github.com/metal-toolbox/auditevent.AuditEvent).WithData":
						x.dataSlots(r, wc.Call.Args[1], wc, must)
					case "(*github.com/metal-toolbox/auditevent.AuditEvent).WithDataFromString":
						x.out.add("data", r.Of(wc.Call.Args[1]), wc, must)
					}
				}
			}
		}
		refs := a.Referrers()
		if refs == nil {
			continue
		}
		for _, u := range *refs {
			switch t := u.(type) {
			case *ssa.FieldAddr:
				if t.X != a {
					continue
				}
				x.fieldUpdates(r, fieldName(t.X.Type(), t.Field), t, applies, sink)
			case *ssa.Call:
				sc := staticCallee(t.Common())
				if sc == nil || !InRepo(sc) || sc.Blocks == nil {
					continue
				}
				ok, _ := applies(t)
				if !ok {
					continue
				}
				// helper that receives the event and updates it
				for i, arg := range t.Call.Args {
					if arg != a || i >= len(sc.Params) {
						continue
					}
					nr := NewResolver(x.p)
					for k, v := range r.Env {
						nr.Env[k] = v
					}
					for j, prm := range sc.Params {
						if j < len(t.Call.Args) {
							nr.Env[prm] = r.Of(t.Call.Args[j])
						}
					}
					key := fmt.Sprintf("upd %p/%d/%s/%s", sc, i, envKey(nr, sc), x.p.InstrPos(t))
					if x.seen[key] {
						continue
					}
					x.seen[key] = true
					// the updates inside the helper apply at its returns
					allInstrs(sc, func(in ssa.Instruction) {
						if ret, ok := in.(*ssa.Return); ok {
							x.helperUpdates(nr, sc.Params[i], ret, depth+1)
						}
					})
				}
			}
		}
	}
}

// helperUpdates collects updates a helper applies to its event parameter.
func (x *evx) helperUpdates(r *Resolver, prm *ssa.Parameter, ret *ssa.Return, depth int) {
	save := r.Env[prm]
	// make the parameter a root so that fromValue follows it inside the helper
	r.Env[prm] = &Org{K: "param", V: prm, Name: prm.Name()}
	x.fromValue(r, prm, ret, depth)
	r.Env[prm] = save
}

func (x *evx) fieldUpdates(r *Resolver, field string, fa *ssa.FieldAddr, applies func(ssa.Instruction) (bool, bool), sink ssa.Instruction) {
	refs := fa.Referrers()
	if refs == nil {
		return
	}
	lower := map[string]string{"LoggedAt": "loggedAt", "Type": "type", "Outcome": "outcome", "Component": "component", "Subjects": "subjects", "Target": "target", "Data": "data", "Source": "source", "Metadata": "metadata"}
	slot := lower[field]
	if slot == "" {
		slot = field
	}
	for _, u := range *refs {
		switch t := u.(type) {
		case *ssa.Store:
			if t.Addr != fa {
				continue
			}
			ok, must := applies(t)
			if !ok {
				continue
			}
			switch slot {
			case "subjects", "target":
				x.mapSlots(r, slot, t.Val, t, must, sink)
			case "source":
				x.structSlots(r, "source", t.Val, t, must)
			case "data":
				x.dataSlots(r, t.Val, t, must)
			default:
				x.out.add(slot, r.Of(t.Val), t, must)
			}
		case *ssa.UnOp:
			// load of a map field followed by element updates
			if t.Op != token.MUL {
				continue
			}
			if lr := t.Referrers(); lr != nil {
				for _, lu := range *lr {
					if mu, ok := lu.(*ssa.MapUpdate); ok && mu.Map == t {
						ok, must := applies(mu)
						if !ok {
							continue
						}
						x.out.add(slot+"."+keyText(r, mu.Key), r.Of(mu.Value), mu, must)
					}
				}
			}
		case *ssa.FieldAddr:
			if t.X != fa {
				continue
			}
			sub := fieldName(t.X.Type(), t.Field)
			name := slot + "." + strings.ToLower(sub[:1]) + sub[1:]
			if slot == "metadata" && sub == "AuditID" {
				name = "metadata.auditId"
			}
			if slot == "metadata" && sub == "Extra" {
				name = "metadata.extra"
			}
			if slot == "source" {
				name = "source." + strings.ToLower(sub)
			}
			if sr := t.Referrers(); sr != nil {
				for _, su := range *sr {
					switch s := su.(type) {
					case *ssa.Store:
						if s.Addr != t {
							continue
						}
						ok, must := applies(s)
						if !ok {
							continue
						}
						if _, isMap := strip(s.Val).(*ssa.MakeMap); isMap {
							x.mapSlots(r, name, s.Val, s, must, sink)
							x.out.add(name+"(map)", r.Of(s.Val), s, must)
						} else {
							x.out.add(name, r.Of(s.Val), s, must)
						}
					case *ssa.UnOp:
						if s.Op != token.MUL {
							continue
						}
						if lr := s.Referrers(); lr != nil {
							for _, lu := range *lr {
								if mu, ok := lu.(*ssa.MapUpdate); ok && mu.Map == s {
									ok, must := applies(mu)
									if !ok {
										continue
									}
									x.out.add(name+"."+keyText(r, mu.Key), r.Of(mu.Value), mu, must)
								}
							}
						}
					}
				}
			}
		}
	}
}

func keyText(r *Resolver, k ssa.Value) string {
	o := r.Of(k)
	if s, ok := o.ConstString(); ok {
		return s
	}
	return "<" + o.String() + ">"
}

// mapSlots records the entries of a map literal (make + updates).
func (x *evx) mapSlots(r *Resolver, prefix string, m ssa.Value, at ssa.Instruction, must bool, sink ssa.Instruction) {
	mv := strip(m)
	mk, ok := mv.(*ssa.MakeMap)
	if !ok {
		// a map built by a repository helper: every return of the helper
		// yields a map made in the helper; its updates are the slots, the
		// helper's parameters bound to the caller's arguments
		if cl, isCall := mv.(*ssa.Call); isCall {
			if sc := staticCallee(cl.Common()); sc != nil && InRepo(sc) && sc.Blocks != nil && sc.Signature.Results().Len() == 1 {
				var mks []*ssa.MakeMap
				okAll := true
				allInstrs(sc, func(in ssa.Instruction) {
					if ret, isRet := in.(*ssa.Return); isRet && len(ret.Results) == 1 {
						if hm, isMk := strip(ret.Results[0]).(*ssa.MakeMap); isMk {
							mks = append(mks, hm)
						} else {
							okAll = false
						}
					}
				})
				if okAll && len(mks) == 1 {
					nr := r.Bind(sc, cl)
					if refs := mks[0].Referrers(); refs != nil {
						for _, u := range *refs {
							if t, isMU := u.(*ssa.MapUpdate); isMU && t.Map == ssa.Value(mks[0]) {
								x.out.add(prefix+"."+keyText(nr, t.Key), nr.Of(t.Value), at, false)
							}
						}
					}
					return
				}
			}
		}
		x.out.add(prefix, r.Of(m), at, must)
		return
	}
	refs := mk.Referrers()
	if refs == nil {
		return
	}
	for _, u := range *refs {
		switch t := u.(type) {
		case *ssa.MapUpdate:
			if t.Map != mk {
				continue
			}
			if t.Parent() == sink.Parent() && t != sink && !reachesInstr(t, sink) {
				continue
			}
			x.out.add(prefix+"."+keyText(r, t.Key), r.Of(t.Value), t, must && (t.Parent() != sink.Parent() || dominatesInstr(t, sink)))
		}
	}
}

// structSlots records the fields of a struct literal value.
func (x *evx) structSlots(r *Resolver, prefix string, v ssa.Value, at ssa.Instruction, must bool) {
	sv := strip(v)
	ld, ok := sv.(*ssa.UnOp)
	if ok && ld.Op == token.MUL {
		if al, ok := ld.X.(*ssa.Alloc); ok {
			refs := al.Referrers()
			if refs != nil {
				for _, u := range *refs {
					fa, ok := u.(*ssa.FieldAddr)
					if !ok || fa.X != al {
						continue
					}
					fname := strings.ToLower(fieldName(fa.X.Type(), fa.Field))
					if fr := fa.Referrers(); fr != nil {
						for _, fu := range *fr {
							if st, ok := fu.(*ssa.Store); ok && st.Addr == fa {
								if _, isMap := strip(st.Val).(*ssa.MakeMap); isMap {
									x.mapSlots(r, prefix+"."+fname, st.Val, st, must, at)
								} else {
									x.out.add(prefix+"."+fname, r.Of(st.Val), st, must)
								}
							}
						}
					}
				}
				return
			}
		}
	}
	x.out.add(prefix, r.Of(v), at, must)
}

// dataSlots: data built by a repository helper that marshals a map.
func (x *evx) dataSlots(r *Resolver, v ssa.Value, at ssa.Instruction, must bool) {
	o := r.Of(v)
	for _, a := range o.Alts() {
		if a.K == "call" {
			c := a.V.(*ssa.Call)
			sc := staticCallee(c.Common())
			if sc != nil && InRepo(sc) && sc.Blocks != nil {
				nr := NewResolver(x.p)
				for k, vv := range r.Env {
					nr.Env[k] = vv
				}
				for i, prm := range sc.Params {
					if i < len(c.Call.Args) {
						nr.Env[prm] = r.Of(c.Call.Args[i])
					}
				}
				found := false
				// the marshalling may sit one or two helpers further down (a
				// shared "marshal this map" helper, possibly in another
				// package): the map is then the argument handed to it
				var scan func(fn *ssa.Function, fr *Resolver, depth int)
				scan = func(fn *ssa.Function, fr *Resolver, depth int) {
					allInstrs(fn, func(in ssa.Instruction) {
						jc, ok := in.(*ssa.Call)
						if !ok {
							return
						}
						js := staticCallee(jc.Common())
						if js == nil {
							return
						}
						if js.String() == "encoding/json.Marshal" {
							if _, isPrm := strip(jc.Call.Args[0]).(*ssa.Parameter); isPrm && depth > 0 {
								return // judged at the call site of this helper
							}
							found = true
							x.mapSlots(fr, "data", jc.Call.Args[0], at, must, jc)
							return
						}
						if InRepo(js) && js.Blocks != nil && depth < 2 {
							// does the callee marshal one of its parameters?
							for pi, prm := range js.Params {
								marsh := false
								allInstrs(js, func(in2 ssa.Instruction) {
									if c2, ok := in2.(*ssa.Call); ok {
										if s2 := staticCallee(c2.Common()); s2 != nil && s2.String() == "encoding/json.Marshal" && strip(c2.Call.Args[0]) == ssa.Value(prm) {
											marsh = true
										}
									}
								})
								if marsh && pi < len(jc.Call.Args) {
									found = true
									x.mapSlots(fr, "data", jc.Call.Args[pi], at, must, jc)
								}
							}
							scan(js, fr.Bind(js, jc), depth+1)
						}
					})
				}
				scan(sc, nr, 0)
				if found {
					continue
				}
			}
		}
		x.out.add("data", a, at, must)
	}
}

// ---- classification --------------------------------------------------

// Classify maps an origin to its sources in terms of regex groups,
// configuration fields and constants.
func Classify(p *Prog, o *Org) []Src { return classifyDepth(p, o, 0) }

// classifyDepth also looks into repository helper functions (a call origin
// of a repository function with a body is replaced by the origins of the
// values it returns, its parameters bound to the caller's arguments).
func classifyDepth(p *Prog, o *Org, depth int) []Src {
	var out []Src
	seen := map[string]bool{}
	add := func(s Src) {
		if !seen[s.String()] {
			seen[s.String()] = true
			out = append(out, s)
		}
	}
	for _, a := range o.Alts() {
		if a.K == "call" && a.R != nil && depth < 4 {
			if call, ok := a.V.(*ssa.Call); ok {
				ridx := a.Idx
				if ridx < 0 {
					ridx = 0
				}
				if sc := staticCallee(call.Common()); sc != nil && InRepo(sc) && sc.Blocks != nil && sc.Signature.Results().Len() > ridx {
					nr := a.R.Bind(sc, call)
					n := 0
					allInstrs(sc, func(in ssa.Instruction) {
						if ret, ok := in.(*ssa.Return); ok && len(ret.Results) > ridx {
							n++
							for _, s := range classifyDepth(p, nr.Of(ret.Results[ridx]), depth+1) {
								add(s)
							}
						}
					})
					if n > 0 {
						continue
					}
				}
			}
		}
		add(classifyOne(p, a))
	}
	return out
}

func classifyOne(p *Prog, a *Org) Src {
	switch a.K {
	case "const":
		if c, ok := a.V.(*ssa.Const); ok && c.Value != nil && c.Value.Kind() == constant.String {
			return Src{Kind: "const", A: constant.StringVal(c.Value)}
		}
		return Src{Kind: "const", A: a.Name}
	case "zero":
		return Src{Kind: "zero"}
	case "index":
		if g, grp, ok := groupOf(a); ok {
			return Src{Kind: "group", A: g, B: grp}
		}
	case "field":
		root, names := a.FieldPath()
		if root.K == "param" {
			// the per-line processor object is named by its type, not by the
			// parameter's spelling
			rn := root.Name
			if root.V != nil {
				if nt := namedOf(root.V.Type()); nt != nil && nt.Obj().Name() == "SshdProcessorer" {
					rn = "config"
				}
			}
			return Src{Kind: "field", A: rn + "." + strings.Join(names, ".")}
		}
		return Src{Kind: "field", A: root.String() + "." + strings.Join(names, ".")}
	case "call":
		if strings.HasPrefix(a.Name, "time.Now") {
			return Src{Kind: "now"}
		}
	case "slice":
		// slice of another string: report the base
		// the per-line object is named by its type (see "field" above)
		if b := classifyOne(p, a.Sub[0]); b.Kind == "field" {
			return Src{Kind: "sliceof", A: b.A}
		}
		return Src{Kind: "sliceof", A: a.Sub[0].String()}
	}
	return Src{Kind: "other", A: a.String()}
}

// groupOf recognises matches[idx] with matches := R.FindStringSubmatch(..)
// and idx := R.SubexpIndex("Name") (or a constant).
func groupOf(a *Org) (regex string, group string, ok bool) {
	if a.K != "index" || len(a.Sub) != 2 {
		return "", "", false
	}
	base, idx := a.Sub[0], a.Sub[1]
	if base.K == "call" && base.Name != "(*regexp.Regexp).FindStringSubmatch" {
		// the match slice handed out by a repository helper (nil
		// alternatives cannot be indexed and are ignored)
		var found *Org
		for _, d := range Deref(base, 0) {
			if d.K == "call" && d.Name == "(*regexp.Regexp).FindStringSubmatch" {
				if found != nil && found.V != d.V {
					return "", "", false
				}
				found = d
			} else if !(d.K == "const" && d.Name == "nil") {
				return "", "", false
			}
		}
		if found == nil {
			return "", "", false
		}
		base = found
	}
	if base.K != "call" || base.Name != "(*regexp.Regexp).FindStringSubmatch" {
		return "", "", false
	}
	if ds := Deref(idx, 0); len(ds) == 1 {
		idx = ds[0]
	}
	rg := regexGlobalOfArg(base, 0)
	if rg == "" {
		return "", "", false
	}
	if n, isC := idx.ConstInt(); isC {
		return rg, fmt.Sprintf("#%d", n), true
	}
	if idx.K == "call" && idx.Name == "(*regexp.Regexp).SubexpIndex" {
		ig := regexGlobalOfArg(idx, 0)
		name, isC := callArgOrg(idx, 1).ConstString()
		if !isC {
			return "", "", false
		}
		if ig != rg {
			return rg, name + "@" + ig, true // index taken from another regex: flagged by callers
		}
		return rg, name, true
	}
	return "", "", false
}

// callArgOrg: origin of argument i of a call origin, resolved in the calling
// context the call was seen in (parameters of a helper bound to the
// caller's values).
func callArgOrg(o *Org, i int) *Org {
	cl, ok := o.V.(*ssa.Call)
	if !ok || i >= len(cl.Call.Args) {
		return &Org{K: "unknown"}
	}
	if o.R != nil {
		return o.R.Of(cl.Call.Args[i])
	}
	return NewResolver(nil).Of(cl.Call.Args[i])
}

// regexGlobalOfArg: argument i of the call is (a load of) a package-level
// *regexp.Regexp, possibly through a parameter bound in the calling context.
func regexGlobalOfArg(o *Org, i int) string {
	if cl, ok := o.V.(*ssa.Call); ok && i < len(cl.Call.Args) {
		if g := regexGlobalOf(cl.Call.Args[i]); g != "" {
			return g
		}
	}
	a := callArgOrg(o, i)
	if a.K == "global" {
		return a.Name
	}
	return ""
}

// regexGlobalOf: v is a load of a package-level *regexp.Regexp.
func regexGlobalOf(v ssa.Value) string {
	u, ok := strip(v).(*ssa.UnOp)
	if !ok || u.Op != token.MUL {
		return ""
	}
	g, ok := u.X.(*ssa.Global)
	if !ok {
		return ""
	}
	return g.Pkg.Pkg.Name() + "." + g.Name()
}

// EmitSite is a call of (*auditevent.EventWriter).Write in the repository.
type EmitSite struct {
	Fn    *ssa.Function
	Call  *ssa.Call
	Event ssa.Value
}

func EmitSites(p *Prog) []EmitSite {
	w := p.ExtObj("github.com/metal-toolbox/auditevent", "EventWriter", "Write")
	var out []EmitSite
	for _, fn := range p.AllRepoFuncs() {
		allInstrs(fn, func(in ssa.Instruction) {
			c, ok := in.(*ssa.Call)
			if ok && isCalleeObj(c.Common(), w) && len(c.Call.Args) >= 1 {
				out = append(out, EmitSite{fn, c, c.Call.Args[len(c.Call.Args)-1]})
			}
		})
	}
	return out
}

// Effective returns the values a slot may hold at the sink: values that
// are overwritten by a later update dominating the sink are dropped.
func (e *EventSlots) Effective(slot string) []SlotVal {
	vals := e.Slots[slot]
	var keep []SlotVal
	for i, v := range vals {
		over := false
		for j, w := range vals {
			if i == j || !w.Must {
				continue
			}
			if v.At.Parent() == w.At.Parent() {
				if v.At != w.At && dominatesInstr(v.At, w.At) {
					over = true
				}
			} else if i < j {
				over = true
			}
		}
		if !over {
			keep = append(keep, v)
		}
	}
	return keep
}

// EffectiveSrcs classifies the effective values of a slot.
func (e *EventSlots) EffectiveSrcs(p *Prog, slot string) []Src {
	var out []Src
	seen := map[string]bool{}
	for _, v := range e.Effective(slot) {
		for _, s := range Classify(p, v.Org) {
			if !seen[s.String()] {
				seen[s.String()] = true
				out = append(out, s)
			}
		}
	}
	return out
}
