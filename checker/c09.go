package main

import (
	"fmt"
	"go/constant"
	"go/token"
	"go/types"
	"strings"

	"golang.org/x/tools/go/ssa"
)

func init() { register("C09", "other", checkC09) }

// endEvidence: do the guards establish that a credential-disposal record
// is being processed for user object u / event e? Returns a description.
func (t *Tracker) endEvidence(gs []GAtom, u, e *Org) (bool, string) {
	if eq, found, ev := guardEventType(gs, t.CredDisp); found && eq {
		if e == nil || sameOrg(ev, e) {
			return true, "guarded by Type == AUDIT_CRED_DISP of the event being emitted"
		}
		// element of u's queue
		if u != nil && ev.K == "index" && ev.Sub[0].K == "field" && ev.Sub[0].Name == "cached" && sameOrg(ev.Sub[0].Sub[0], u) {
			return true, "guarded by Type == AUDIT_CRED_DISP of an element of the flushed queue"
		}
	}
	whyNot := ""
	for _, g := range gs {
		if !g.Pos {
			continue
		}
		var call *ssa.Call
		switch v := g.V.(type) {
		case *ssa.Call:
			call = v
		default:
			// flag computed earlier: value := helper(u)
			for _, a := range g.X.Alts() {
				if a.K == "call" {
					if cl, ok := a.V.(*ssa.Call); ok {
						call = cl
					}
				}
			}
		}
		if call == nil {
			continue
		}
		sc := staticCallee(call.Common())
		if sc == nil || !InRepo(sc) || len(call.Call.Args) < 1 {
			continue
		}
		if u != nil && !sameOrg(g.R.Of(call.Call.Args[0]), u) {
			continue
		}
		if fn := sc; fn.Signature.Recv() == nil || namedOf(fn.Signature.Recv().Type()) == nil || namedOf(fn.Signature.Recv().Type()).Obj() != t.UserT.Obj() {
			continue // only predicates on the session object
		}
		if ok, why := t.trueOnlyOnCredDisp(sc); ok {
			return true, "guarded by " + sc.Name() + "(u), which is true only when an element of u's queue has Type == AUDIT_CRED_DISP"
		} else if why != "" {
			whyNot = sc.Name() + ": " + why
		}
	}
	if whyNot != "" {
		return false, whyNot
	}
	return false, "no guard establishes that the session's credential-disposal record is among the events being emitted"
}

// trueOnlyOnCredDisp: helper(u) returns true only under a comparison
// <element of u.cached>.Type == AUDIT_CRED_DISP.
func (t *Tracker) trueOnlyOnCredDisp(fn *ssa.Function) (bool, string) {
	if fn.Blocks == nil || fn.Signature.Results().Len() != 1 || len(fn.Params) < 1 {
		return false, ""
	}
	if b, ok := fn.Signature.Results().At(0).Type().Underlying().(*types.Basic); !ok || b.Kind() != types.Bool {
		return false, ""
	}
	r := NewResolver(t.P)
	okAll := true
	why := ""
	sawTrue := false
	check := func(at ssa.Instruction) {
		eq, found, ev := guardEventType(guardAtoms(r, at), t.CredDisp)
		queueElem := false
		if found {
			base := ev
			if base.K == "index" || (base.K == "range" && base.Name == "value") {
				b0 := base.Sub[0]
				if b0.K == "field" && b0.Name == "cached" && b0.Sub[0].K == "param" {
					queueElem = true
				}
			}
		}
		if !(found && eq && queueElem) {
			okAll = false
			why = "returns true on a path that is not guarded by Type == AUDIT_CRED_DISP of a queued event (e.g. another record type is treated as the end of the session)"
		}
	}
	allInstrs(fn, func(in ssa.Instruction) {
		ret, ok := in.(*ssa.Return)
		if !ok {
			return
		}
		switch v := ret.Results[0].(type) {
		case *ssa.Const:
			if v.Value != nil && v.Value.Kind() == constant.Bool && constant.BoolVal(v.Value) {
				sawTrue = true
				check(ret)
			}
		case *ssa.Phi:
			for i, e := range v.Edges {
				k, isC := e.(*ssa.Const)
				if !isC {
					okAll = false
					why = "result is computed, not a constant per path"
					continue
				}
				if k.Value != nil && constant.BoolVal(k.Value) {
					sawTrue = true
					pred := v.Block().Preds[i]
					check(pred.Instrs[len(pred.Instrs)-1])
				}
			}
		default:
			okAll = false
			why = "result is computed (" + v.String() + ")"
		}
	})
	if !sawTrue {
		return false, "never returns true"
	}
	return okAll, why
}

func checkC09(c *Check) {
	c.Explanation = "End-of-session release rules on the inlined tracker cones: (1) every emit of an event whose type is not known to be the LOGIN record, and every flush that follows a bind (late login), is accompanied in the same locked callback by a removal of that very session from the sessions map, control-dependent on evidence that the credential-disposal record is among the events emitted (Type == AUDIT_CRED_DISP of the emitted event, or a helper that is true only for a queued AUDIT_CRED_DISP); (2) conversely every removal made while delivering logins/events requires that evidence (no early release); (3) sessions are stored only under Type == AUDIT_LOGIN, so a late stray event cannot resurrect an ended session; (4) the bound flag is written only by the bind function; (5) session objects live only in the sessions map (no second container keeps an ended session reachable). Necessary conditions; with C01/C02 they give the statement for histories in which the disposal record is processed."
	c.Rule("release-on-end (floor 2: bound path, late-login path)")
	c.Rule("release-only-on-end")
	c.Rule("only-LOGIN-opens")
	c.Rule("bound-flag-only-by-bind")
	c.Rule("single-owner: *user values are stored only into the sessions map or local variables")
	c.Trust("AUDIT_CRED_DISP = 1104 / AUDIT_LOGIN = 1006 resolved from auparse")
	t := NewTracker(c)
	if t == nil {
		return
	}
	p := c.P
	mapContract(c)
	dels := []TFact{}
	for _, f := range t.Of("mapop") {
		if f.Map == t.SessMap && (f.Method == "DeleteUnsafe" || f.Method == "Delete") {
			dels = append(dels, f)
		}
	}
	// keyOf: the sessions-map key a looked-up / iterated object lives under
	keyOf := func(u *Org) *Org {
		switch {
		case u.K == "lookup":
			return u.Sub[1]
		case u.K == "range" && u.Name == "value":
			return &Org{K: "range", Name: "key", Sub: u.Sub}
		case u.K == "call" && u.R != nil && u.Idx >= 0:
			// the object is a result of a finder function: the key is the
			// other result that is assigned, at the same places, the key of
			// the same map entry
			if j := finderKeyResult(p, u); j >= 0 {
				return &Org{K: "call", V: u.V, Name: u.Name, Idx: j, R: u.R}
			}
		}
		return nil
	}
	need := 0
	requireRelease := func(f TFact, u, e *Org, what string) {
		need++
		name := fmt.Sprintf("%s in %s (%s)", what, f.Fn.Name(), f.EP)
		k := keyOf(u)
		if k == nil {
			// fresh object stored in this activation under e.Session
			if e != nil {
				k = &Org{K: "field", Name: "Session", Sub: []*Org{e}}
			} else {
				c.Unk("release-on-end", name, f.Pos(p), "session object of unknown provenance "+shortU(u))
				return
			}
		}
		var okDel *TFact
		why := "no removal of this session from the sessions map in this delivery"
		for i := range dels {
			d := dels[i]
			if d.EP != f.EP {
				continue
			}
			if trimOrg(d.Key.String()) != trimOrg(k.String()) {
				why = "a removal exists but with another key (" + trimOrg(pathName(d.Key)) + " instead of " + trimOrg(pathName(k)) + ")"
				continue
			}
			if !contains(d.Held, t.SessMap+".mtx") {
				why = "the removal is not executed under the sessions-map lock"
				continue
			}
			ok, w := t.endEvidence(d.Guards, u, e)
			if !ok {
				why = "the removal is not conditional on the end of the session: " + w
				continue
			}
			// evidence read from the hold queue must be read before the
			// queue is flushed: the flush empties it
			if e == nil {
				late := false
				for _, g := range d.Guards {
					var call *ssa.Call
					if cl, isCall := g.V.(*ssa.Call); isCall {
						call = cl
					} else if g.X != nil {
						for _, a := range g.X.Alts() {
							if a.K == "call" {
								if cl, isCall := a.V.(*ssa.Call); isCall {
									call = cl
								}
							}
						}
					}
					if call == nil {
						continue
					}
					sc := staticCallee(call.Common())
					if sc == nil || !InRepo(sc) {
						continue
					}
					if okP, _ := t.trueOnlyOnCredDisp(sc); !okP {
						continue
					}
					// position of the flush in the function of the predicate call
					var fl ssa.Instruction
					if f.Ins.Parent() == call.Parent() {
						fl = f.Ins
					} else {
						for _, fr := range f.Frames {
							if fr.Parent() == call.Parent() {
								fl = fr
							}
						}
					}
					if fl != nil && reachesInstr(fl, call) && !reachesInstr(call, fl) {
						late = true
					}
				}
				if late {
					why = "the end of the session is looked for in the hold queue after the queue was flushed (the flush empties it): the test never succeeds and the ended session is never released"
					continue
				}
			}
			okDel = &dels[i]
			why = w
			break
		}
		if okDel != nil {
			c.OK("release-on-end", name, f.Pos(p), "session removed at "+okDel.Pos(p)+" "+why)
		} else {
			o := Obl{Rule: "release-on-end", Construct: name, Pos: f.Pos(p), Verdict: Violated, Fact: "events of a session can be emitted up to its credential-disposal record without the session being released (" + why + "): a later login with a reused PID can be bound to the ended session", Entry: stackStr(f)}
			c.Obls = append(c.Obls, o)
		}
	}
	for _, f := range t.Of("emit") {
		if f.U == nil || f.E == nil {
			continue
		}
		// element of the queue: covered by the flush rule
		if f.E.K == "index" || f.E.K == "range" {
			continue
		}
		// the LOGIN record itself never ends a session
		if eq, found, ev := guardEventType(f.Guards, t.LoginT); found && eq && sameOrg(ev, f.E) {
			c.OK("release-on-end", fmt.Sprintf("emit of the LOGIN record in %s (%s)", f.Fn.Name(), f.EP), f.Pos(p), "event type is AUDIT_LOGIN, not the end of a session")
			continue
		}
		requireRelease(f, f.U, f.E, "emit of the delivered event")
	}
	for _, f := range t.Of("flush") {
		late := false
		for _, b := range t.Of("bind") {
			if sameOrg(b.U, f.U) && t.Before(b, f) {
				late = true
			}
		}
		if late {
			requireRelease(f, f.U, nil, "flush of the hold queue after a late login")
		}
	}
	c.Floor("emitting paths that can contain the end of a session", 2, need)

	// 2. release only on end
	releaseOnlyOnEnd(c, t)

	// 3. only LOGIN opens
	nst := 0
	for _, f := range t.Of("mapop") {
		if f.Method != "Store" || f.Map != t.SessMap {
			continue
		}
		nst++
		eq, found, _ := guardEventType(f.Guards, t.LoginT)
		name := fmt.Sprintf("Store into %s in %s (%s)", f.Map, f.Fn.Name(), f.EP)
		if found && eq {
			c.OK("only-LOGIN-opens", name, f.Pos(p), "under Type == AUDIT_LOGIN: a stray late event of an ended session is dropped")
		} else {
			o := Obl{Rule: "only-LOGIN-opens", Construct: name, Pos: f.Pos(p), Verdict: Violated, Fact: "a session can be (re)opened by a record that is not the LOGIN record: a stray late event of an ended session re-creates it and can take a later login's identity", Entry: stackStr(f)}
			c.Obls = append(c.Obls, o)
		}
	}
	c.Floor("stores into the sessions map", 2, nst)

	// 4. bound flag only by bind
	c.Cond(len(t.BindFns) == 1, "bound-flag-only-by-bind", "functions writing user.hasRUL / user.login", "-", "exactly one bind function", fmt.Sprintf("%d functions write the bound flag or the login", len(t.BindFns)))

	// 5. single owner
	singleOwner(c, t)

	// 5b. the end-of-session predicates look at the whole hold queue
	nep := 0
	for _, fn := range p.AllRepoFuncs() {
		// boolean functions of the tracker's package that compare an event
		// type with the credential-disposal constant
		if fn.Blocks == nil || FuncPkgPath(fn) != ModPath+"/"+pkgTracker || fn.Signature.Results().Len() != 1 {
			continue
		}
		if bt, isB := fn.Signature.Results().At(0).Type().Underlying().(*types.Basic); !isB || bt.Kind() != types.Bool {
			continue
		}
		cmp := false
		er := NewResolver(p)
		allInstrs(fn, func(in ssa.Instruction) {
			b, ok := in.(*ssa.BinOp)
			if !ok || (b.Op != token.EQL && b.Op != token.NEQ) {
				return
			}
			for _, pair := range [][2]ssa.Value{{b.X, b.Y}, {b.Y, b.X}} {
				o := er.Of(pair[0])
				if k, isK := pair[1].(*ssa.Const); isK && o.K == "field" && o.Name == "Type" && k.Value != nil && k.Value.Kind() == constant.Int && k.Int64() == t.CredDisp {
					cmp = true
				}
			}
			// the same test through a read-only table keyed by the record type
			for _, pos := range []bool{true, false} {
				for _, ga := range expandTable(er, Atom{V: b, Pos: pos}) {
					if ga.X != nil && ga.Y != nil && ga.X.K == "field" && ga.X.Name == "Type" {
						if k, okK := ga.Y.ConstInt(); okK && k == t.CredDisp && ga.Op == "==" && ga.Pos {
							cmp = true
						}
					}
				}
			}
		})
		if !cmp {
			continue
		}
		nep++
		okC, why := t.scansWholeQueue(fn)
		if okC {
			okC, why = t.trueOnAnyCredDisp(fn)
		}
		c.Cond(okC, "end-evidence-complete", "end-of-session predicate "+fn.Name(), p.Pos(fn.Pos()), "true as soon as any held event is the credential-disposal record, false only after the whole queue was examined", "the predicate can miss a held credential-disposal record ("+why+"): an ended session is not released when its late login arrives, and a later sshd with the same PID is bound to it")
	}
	c.Floor("end-of-session predicates on the hold queue", 1, nep)

	// 6. the end-of-session record of a session still waiting for its login
	// is in the hold queue: every delivered event of an unbound session is
	// held (never dropped), in a queue that is the object's own (rules of C02)
	ne := importRules(c, "C02", checkC02, "end-record-held: ", "exactly-one-of", "hold-iff-unbound", "queue-private", "event-reaches-correlation", "hold-keeps-queue", "hold-keeps-event")
	c.Floor("imported end-record-held obligations", 10, ne)
	// 7. the login of the new sshd with a reused PID reaches the correlator:
	// every accepted login is handed over, whatever PIDs were seen before
	// (rules of C05)
	// 8. a session opened by the reused PID starts unbound and is bound only
	// to the login whose PID it compared (rules of C01): an object recycled
	// from a pool, still carrying the ended session's login, fails them
	nb := importRules(c, "C01", checkC01, "new-session-new-identity: ", "bind-is-PID-justified", "who-may-write-identity")
	c.Floor("imported new-session-new-identity obligations", 3, nb)
	nl := importRules(c, "C05", checkC05, "login-reaches-correlator: ", "handoff-always-after-write", "handoff-only-cancellation-gives-up", "who-may-send")
	c.Floor("imported login-reaches-correlator obligations", 8, nl)
}

// containsUserPtr: type mentions *user (directly, in a slice, array, map,
// struct field or channel element).
func containsUserPtr(tp types.Type, user *types.Named, depth int) bool {
	if depth > 4 {
		return false
	}
	switch u := tp.(type) {
	case *types.Pointer:
		if n, ok := u.Elem().(*types.Named); ok && n.Obj() == user.Obj() {
			return true
		}
		return containsUserPtr(u.Elem(), user, depth+1)
	case *types.Named:
		if u.Obj() == user.Obj() {
			return false
		}
		if ta := u.TypeArgs(); ta != nil {
			for i := 0; i < ta.Len(); i++ {
				if containsUserPtr(ta.At(i), user, depth+1) {
					return true
				}
			}
		}
		if u.Obj().Pkg() == nil || !strings.HasPrefix(u.Obj().Pkg().Path(), ModPath) {
			return false
		}
		return containsUserPtr(u.Underlying(), user, depth+1)
	case *types.Slice:
		return containsUserPtr(u.Elem(), user, depth+1)
	case *types.Array:
		return containsUserPtr(u.Elem(), user, depth+1)
	case *types.Map:
		return containsUserPtr(u.Elem(), user, depth+1) || containsUserPtr(u.Key(), user, depth+1)
	case *types.Chan:
		return containsUserPtr(u.Elem(), user, depth+1)
	case *types.Struct:
		for i := 0; i < u.NumFields(); i++ {
			if containsUserPtr(u.Field(i).Type(), user, depth+1) {
				return true
			}
		}
	}
	return false
}

func singleOwner(c *Check, t *Tracker) {
	p := c.P
	n := 0
	// struct fields of the package that can hold session objects
	pk := p.PackagesPkg(pkgTracker)
	if pk != nil {
		scope := pk.Types.Scope()
		for _, name := range scope.Names() {
			tn, ok := scope.Lookup(name).(*types.TypeName)
			if !ok {
				continue
			}
			st, ok := tn.Type().Underlying().(*types.Struct)
			if !ok {
				continue
			}
			for i := 0; i < st.NumFields(); i++ {
				f := st.Field(i)
				ft := typeName(f.Type())
				if strings.Contains(ft, "GenericSyncMap[") && strings.HasSuffix(ft, "user]") && "recv."+f.Name() == t.SessMap && tn == t.Named.Obj() {
					continue
				}
				holds := containsUserPtr(f.Type(), t.UserT, 0) || (strings.Contains(ft, "GenericSyncMap[") && strings.Contains(ft, "sessiontracker.user"))
				n++
				if holds {
					if nt, isN := tn.Type().(*types.Named); isN {
						if ok, why := transientCarrier(p, nt); ok {
							c.OK("single-owner", "field "+tn.Name()+"."+f.Name()+" : "+ft, p.Pos(f.Pos()), "field of a transient carrier struct ("+why+"): values of this type live only in locals, parameters and callbacks handed to repository functions for the duration of one delivery")
							continue
						}
					}
				}
				c.Cond(!holds, "single-owner", "field "+tn.Name()+"."+f.Name()+" : "+ft, p.Pos(f.Pos()), "cannot hold a session object", "a second container can hold session objects: releasing a session from the sessions map leaves it reachable here, so an ended session can still be bound or recycled with its old identity")
			}
		}
	}
	// package-level variables
	if sp := p.RepoPkg(pkgTracker); sp != nil {
		for _, m := range sp.Members {
			if g, ok := m.(*ssa.Global); ok {
				n++
				c.Cond(!containsUserPtr(deref(g.Type()), t.UserT, 0), "single-owner", "package variable "+g.Name(), p.Pos(g.Pos()), "cannot hold a session object", "a package-level variable can hold session objects")
			}
		}
	}
	// channel sends of session objects
	for _, fn := range p.AllRepoFuncs() {
		if FuncPkgPath(fn) != ModPath+"/"+pkgTracker {
			continue
		}
		allInstrs(fn, func(in ssa.Instruction) {
			if s, ok := in.(*ssa.Send); ok && containsUserPtr(s.X.Type(), t.UserT, 0) {
				c.Bad("single-owner", "send of a session object in "+fn.Name(), p.InstrPos(in), "session object escapes through a channel")
			}
		})
	}
	c.Floor("containers examined for session objects", 5, n)
}

// releaseOnlyOnEnd: every removal from the sessions map made while
// delivering a login or an event requires evidence of the session's
// credential-disposal record (cleanup sweeps are C16).
func releaseOnlyOnEnd(c *Check, t *Tracker) {
	p := c.P
	n := 0
	for _, d := range t.Of("mapop") {
		if d.Map != t.SessMap || (d.Method != "DeleteUnsafe" && d.Method != "Delete") {
			continue
		}
		if d.EP != "AuditdEvent" && d.EP != "RemoteLogin" {
			continue
		}
		n++
		name := fmt.Sprintf("removal from %s in %s (%s)", d.Map, d.Fn.Name(), d.EP)
		ok, why := t.endEvidence(d.Guards, nil, nil)
		if ok {
			c.OK("release-only-on-end", name, d.Pos(p), why)
		} else {
			o := Obl{Rule: "release-only-on-end", Construct: name, Pos: d.Pos(p), Verdict: Violated, Fact: "a session is removed while delivering a login or an event without evidence of its credential-disposal record (" + why + "): the remaining events of the session, up to and including the disposal record, are dropped", Entry: stackStr(d)}
			c.Obls = append(c.Obls, o)
		}
	}
	c.Floor("session removals in deliveries", 2, n)
}

// typeMentions: tp contains the named type nt (by value, pointer, element).
func typeMentions(tp types.Type, nt *types.Named, depth int) bool {
	if depth > 5 {
		return false
	}
	switch u := tp.(type) {
	case *types.Named:
		if u.Obj() == nt.Obj() {
			return true
		}
		if u.Obj().Pkg() == nil || !strings.HasPrefix(u.Obj().Pkg().Path(), ModPath) {
			return false
		}
		if _, isStruct := u.Underlying().(*types.Struct); isStruct {
			return false // a field of another struct: judged on that struct's own fields
		}
		return typeMentions(u.Underlying(), nt, depth+1)
	case *types.Pointer:
		return typeMentions(u.Elem(), nt, depth+1)
	case *types.Slice:
		return typeMentions(u.Elem(), nt, depth+1)
	case *types.Array:
		return typeMentions(u.Elem(), nt, depth+1)
	case *types.Map:
		return typeMentions(u.Elem(), nt, depth+1) || typeMentions(u.Key(), nt, depth+1)
	case *types.Chan:
		return typeMentions(u.Elem(), nt, depth+1)
	}
	return false
}

// transientCarrier: values of struct type nt never outlive one activation
// chain: no struct field (other than an embedding in another transient
// carrier), package variable, map, slice element, channel or interface
// value of the daemon holds one; a method value made from one is only
// called or handed to a repository function.
func transientCarrier(p *Prog, nt *types.Named) (bool, string) {
	return transientCarrierD(p, nt, 0)
}

func transientCarrierD(p *Prog, nt *types.Named, depth int) (bool, string) {
	if depth > 3 {
		return false, "nesting too deep"
	}
	// type level: fields and package variables
	for _, pkg := range p.Pkgs {
		if !p.Daemon[pkg.PkgPath] {
			continue
		}
		scope := pkg.Types.Scope()
		for _, name := range scope.Names() {
			switch o := scope.Lookup(name).(type) {
			case *types.TypeName:
				st, ok := o.Type().Underlying().(*types.Struct)
				if !ok || o == nt.Obj() {
					continue
				}
				for i := 0; i < st.NumFields(); i++ {
					if typeMentions(st.Field(i).Type(), nt, 0) {
						on, isN := o.Type().(*types.Named)
						if !isN {
							return false, ""
						}
						if ok2, _ := transientCarrierD(p, on, depth+1); !ok2 {
							return false, "held in field " + o.Name() + "." + st.Field(i).Name()
						}
					}
				}
			case *types.Var:
				if typeMentions(o.Type(), nt, 0) {
					return false, "held in package variable " + o.Name()
				}
			}
		}
	}
	// instruction level
	bad := ""
	for _, fn := range p.AllRepoFuncs() {
		if !p.InDaemon(fn) || fn.Blocks == nil {
			continue
		}
		allInstrs(fn, func(in ssa.Instruction) {
			switch x := in.(type) {
			case *ssa.Store:
				if !typeMentions(x.Val.Type(), nt, 0) {
					return
				}
				base := x.Addr
				for {
					if fa, ok := base.(*ssa.FieldAddr); ok {
						base = fa.X
						continue
					}
					break
				}
				if _, isAlloc := base.(*ssa.Alloc); !isAlloc {
					bad = "stored through " + p.InstrPos(in)
				}
			case *ssa.MapUpdate:
				if typeMentions(x.Value.Type(), nt, 0) {
					bad = "stored into a map at " + p.InstrPos(in)
				}
			case *ssa.Send:
				if typeMentions(x.X.Type(), nt, 0) {
					bad = "sent on a channel at " + p.InstrPos(in)
				}
			case *ssa.MakeInterface:
				if typeMentions(x.X.Type(), nt, 0) {
					bad = "converted to an interface at " + p.InstrPos(in)
				}
			case *ssa.Go:
				for _, a := range x.Call.Args {
					if typeMentions(a.Type(), nt, 0) {
						bad = "handed to a goroutine at " + p.InstrPos(in)
					}
				}
			case *ssa.MakeClosure:
				holds := false
				for _, b := range x.Bindings {
					if typeMentions(b.Type(), nt, 0) {
						holds = true
					}
				}
				if !holds {
					return
				}
				if rr := x.Referrers(); rr != nil {
					for _, u := range *rr {
						ci, isCall := u.(*ssa.Call)
						if !isCall {
							if _, isDbg := u.(*ssa.DebugRef); !isDbg {
								bad = "a method value of it is kept at " + p.InstrPos(u)
							}
							continue
						}
						if ci.Call.Value == ssa.Value(x) {
							continue // called directly
						}
						sc := staticCallee(ci.Common())
						if sc == nil || !InRepo(sc) {
							bad = "a method value of it is handed to code outside the repository at " + p.InstrPos(u)
						}
					}
				}
			}
		})
	}
	if bad != "" {
		return false, bad
	}
	return true, "never stored in a field, variable, map, channel or interface"
}

// finderKeyResult: u is result #i of a repository function that stores, in a
// scan callback, the visited entry's value into the variable returned as #i
// and, in the same block, the visited entry's key into the variable returned
// as #j: returns j (or -1).
func finderKeyResult(p *Prog, u *Org) int {
	call, ok := u.V.(*ssa.Call)
	if !ok {
		return -1
	}
	sc := staticCallee(call.Common())
	if sc == nil || !InRepo(sc) || sc.Blocks == nil {
		return -1
	}
	cells := map[int]*ssa.Alloc{}
	allInstrs(sc, func(in ssa.Instruction) {
		ret, isRet := in.(*ssa.Return)
		if !isRet || ret.Block() == sc.Recover {
			return
		}
		for i, rv := range ret.Results {
			if ld, isLd := rv.(*ssa.UnOp); isLd {
				if a, isA := ld.X.(*ssa.Alloc); isA {
					cells[i] = a
				}
			}
		}
	})
	uc := cells[u.Idx]
	if uc == nil {
		return -1
	}
	r := NewResolver(p)
	for j, kc := range cells {
		if j == u.Idx {
			continue
		}
		okAll, n := true, 0
		for _, st := range r.cellStores(uc) {
			if isNilConst(st.Val) {
				continue
			}
			n++
			vprm, isP := strip(st.Val).(*ssa.Parameter)
			if !isP {
				okAll = false
				continue
			}
			// a store to kc in the same block whose value is the key parameter of the same callback
			found := false
			for _, ks := range r.cellStores(kc) {
				if ks.Block() != st.Block() {
					continue
				}
				kprm, isK := strip(ks.Val).(*ssa.Parameter)
				if isK && kprm.Parent() == vprm.Parent() && len(vprm.Parent().Params) == 2 && vprm.Parent().Params[0] == kprm && vprm.Parent().Params[1] == vprm {
					found = true
				}
			}
			if !found {
				okAll = false
			}
		}
		if okAll && n > 0 {
			return j
		}
	}
	return -1
}

// scansWholeQueue: the predicate compares the type of every element of the
// receiver's hold queue: the compared element is the value of a range over
// the queue, or queue[i] with i counting from 0 up to len(queue)-1, and no
// 'false' is returned from inside the loop.
func (t *Tracker) scansWholeQueue(fn *ssa.Function) (bool, string) {
	r := NewResolver(t.P)
	okElem := false
	why := "the compared event is not an element visited by a scan of the whole queue"
	allInstrs(fn, func(in ssa.Instruction) {
		b, ok := in.(*ssa.BinOp)
		if !ok || b.Op != token.EQL && b.Op != token.NEQ {
			return
		}
		for _, side := range []ssa.Value{b.X, b.Y} {
			o := r.Of(side)
			// table[ev.Type] for a read-only table keyed by the record type
			if o.K == "lookup" && len(o.Sub) == 2 && o.Sub[1].K == "field" && o.Sub[1].Name == "Type" {
				o = o.Sub[1]
			}
			if o.K != "field" || o.Name != "Type" {
				continue
			}
			ev := o.Sub[0]
			switch {
			case ev.K == "range" && ev.Name == "value":
				if q := ev.Sub[0]; (q.K == "field" && q.Name == "cached") || q.K == "param" {
					okElem = true
				}
			case ev.K == "index":
				q := ev.Sub[0]
				if (q.K == "field" && q.Name == "cached") || q.K == "param" {
					// the index must be an ascending counter over the whole queue
					var idx ssa.Value
					if ld, isLd := ev.V.(*ssa.UnOp); isLd {
						if ia, isIA := ld.X.(*ssa.IndexAddr); isIA {
							idx = ia.Index
						}
					}
					if ia, isIA := ev.V.(*ssa.IndexAddr); isIA {
						idx = ia.Index
					}
					if idx != nil {
						if okAsc, w := ascendingFromZero(r, idx, q); okAsc {
							okElem = true
						} else {
							why = "the compared event is queue[" + trimOrg(r.Of(idx).String()) + "]: " + w
						}
					}
				}
			}
		}
	})
	if !okElem {
		return false, why
	}
	// no 'false' from inside the loop
	bad := false
	allInstrs(fn, func(in ssa.Instruction) {
		ret, ok := in.(*ssa.Return)
		if !ok || len(ret.Results) != 1 {
			return
		}
		if k, isK := ret.Results[0].(*ssa.Const); isK && k.Value != nil && k.Value.Kind() == constant.Bool && !constant.BoolVal(k.Value) && inLoop(ret) {
			bad = true
		}
	})
	if bad {
		return false, "false is returned from inside the scan, before the remaining events were examined"
	}
	return true, ""
}

// trueOnAnyCredDisp: the predicate answers true for *every* held
// credential-disposal record: on the way to "true" the record is tested for
// its type only. A further condition on the record (its result, its
// executable, ...) makes the hold-queue test narrower than the direct path,
// which ends the session on any credential-disposal record: a held record
// that fails the extra condition is flushed without the session being
// released.
func (t *Tracker) trueOnAnyCredDisp(fn *ssa.Function) (bool, string) {
	r := NewResolver(t.P)
	isElem := func(o *Org) bool {
		if o.K == "index" || (o.K == "range" && o.Name == "value") {
			q := o.Sub[0]
			return (q.K == "field" && q.Name == "cached") || q.K == "param"
		}
		return false
	}
	var mentionsElem func(o *Org, depth int) (bool, string)
	mentionsElem = func(o *Org, depth int) (bool, string) {
		if o == nil || depth > 6 {
			return false, ""
		}
		if o.K == "field" {
			root, names := o.FieldPath()
			if isElem(root) {
				return true, strings.Join(names, ".")
			}
		}
		if o.K == "call" {
			if cl, ok := o.V.(*ssa.Call); ok {
				rr := o.R
				if rr == nil {
					rr = r
				}
				for _, a := range cl.Call.Args {
					ao := rr.Of(a)
					if isElem(ao) {
						return true, "call(" + o.Name + ")"
					}
					if m, w := mentionsElem(ao, depth+1); m {
						return true, w
					}
				}
			}
		}
		for _, s := range o.Sub {
			if m, w := mentionsElem(s, depth+1); m {
				return true, w
			}
		}
		return false, ""
	}
	okAll, why := true, ""
	check := func(at ssa.Instruction) {
		for _, g := range guardAtoms(r, at) {
			if g.Expanded {
				continue
			}
			isType := false
			for _, pair := range [][2]*Org{{g.X, g.Y}, {g.Y, g.X}} {
				if pair[0] == nil || pair[1] == nil {
					continue
				}
				if pair[0].K == "field" && pair[0].Name == "Type" && pair[1].K == "const" {
					if k, ok := pair[1].ConstInt(); ok && k == t.CredDisp {
						isType = true
					}
				}
			}
			if isType {
				continue
			}
			for _, o := range []*Org{g.X, g.Y} {
				if m, w := mentionsElem(o, 0); m {
					okAll = false
					why = "besides its type the held record must also satisfy a condition on " + w + " before the predicate answers true; the direct path ends the session on any credential-disposal record"
				}
			}
		}
	}
	allInstrs(fn, func(in ssa.Instruction) {
		ret, ok := in.(*ssa.Return)
		if !ok || len(ret.Results) != 1 {
			return
		}
		switch v := ret.Results[0].(type) {
		case *ssa.Const:
			if v.Value != nil && v.Value.Kind() == constant.Bool && constant.BoolVal(v.Value) {
				check(ret)
			}
		case *ssa.Phi:
			for i, e := range v.Edges {
				if k, isC := e.(*ssa.Const); isC && k.Value != nil && k.Value.Kind() == constant.Bool && constant.BoolVal(k.Value) {
					pred := v.Block().Preds[i]
					check(pred.Instrs[len(pred.Instrs)-1])
				}
			}
		}
	})
	return okAll, why
}
