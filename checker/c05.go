package main

import (
	"fmt"
	"go/token"
	"go/types"
	"strings"

	"golang.org/x/tools/go/ssa"
)

func init() { register("C05", "other", checkC05) }

// HandOff is a send of a RemoteUserLogin on a channel.
type HandOff struct {
	Fn    *ssa.Function
	In    ssa.Instruction // *ssa.Select or *ssa.Send
	State int             // select state index (-1 for a bare send)
	Chan  ssa.Value
	Val   ssa.Value
}

func findHandOffs(p *Prog) []HandOff {
	var out []HandOff
	for _, fn := range p.AllRepoFuncs() {
		allInstrs(fn, func(in ssa.Instruction) {
			switch x := in.(type) {
			case *ssa.Send:
				if isChanOf(x.Chan.Type(), "/internal/common", "RemoteUserLogin") {
					out = append(out, HandOff{fn, in, -1, x.Chan, x.X})
				}
			case *ssa.Select:
				for k, st := range x.States {
					if st.Dir == types.SendOnly && isChanOf(st.Chan.Type(), "/internal/common", "RemoteUserLogin") {
						out = append(out, HandOff{fn, in, k, st.Chan, st.Send})
					}
				}
			}
		})
	}
	return out
}

// structLitFields returns the field stores of a struct literal value
// (`*alloc` with per-field stores).
func structLitFields(v ssa.Value) map[string]ssa.Value {
	out := map[string]ssa.Value{}
	ld, ok := strip(v).(*ssa.UnOp)
	if !ok || ld.Op != token.MUL {
		return nil
	}
	al, ok := ld.X.(*ssa.Alloc)
	if !ok {
		return nil
	}
	refs := al.Referrers()
	if refs == nil {
		return nil
	}
	for _, u := range *refs {
		fa, ok := u.(*ssa.FieldAddr)
		if !ok || fa.X != al {
			continue
		}
		if fr := fa.Referrers(); fr != nil {
			for _, fu := range *fr {
				if st, ok := fu.(*ssa.Store); ok && st.Addr == fa {
					out[fieldName(fa.X.Type(), fa.Field)] = st.Val
				}
			}
		}
	}
	return out
}

// writeCallsDominating returns the EventWriter.Write calls of fn that
// dominate instruction in.
func writeCallsDominating(p *Prog, in ssa.Instruction) []*ssa.Call {
	w := p.ExtObj("github.com/metal-toolbox/auditevent", "EventWriter", "Write")
	var out []*ssa.Call
	allInstrs(in.Parent(), func(x ssa.Instruction) {
		if c, ok := x.(*ssa.Call); ok && isCalleeObj(c.Common(), w) && dominatesInstr(c, in) {
			out = append(out, c)
		}
	})
	return out
}

// errEdge finds the `if err != nil` (or == nil) branch on the result of call c
// and returns the successor blocks for the non-nil and nil outcomes.
func errEdge(c ssa.Value) (nonNil, isNil *ssa.BasicBlock, iff *ssa.If) {
	if nn, nl, i := errEdge1(c); i != nil {
		return nn, nl, i
	}
	// the value is assigned to a variable living in memory (a captured or
	// address-taken local, a spilled result) and the variable is tested: a
	// test of a load that the store of c reaches
	ci, ok := c.(ssa.Instruction)
	if !ok || ci.Parent() == nil || storedCellOf(c) == nil {
		return
	}
	for _, b := range ci.Parent().Blocks {
		if len(b.Instrs) == 0 {
			continue
		}
		i, ok := b.Instrs[len(b.Instrs)-1].(*ssa.If)
		if !ok {
			continue
		}
		bo, ok := i.Cond.(*ssa.BinOp)
		if !ok || (bo.Op != token.NEQ && bo.Op != token.EQL) {
			continue
		}
		var x ssa.Value
		switch {
		case isNilConst(bo.Y):
			x = bo.X
		case isNilConst(bo.X):
			x = bo.Y
		default:
			continue
		}
		if _, isLoad := x.(*ssa.UnOp); !isLoad {
			continue
		}
		hit := false
		for _, v := range fsValues(x, i, nil) {
			if v == c {
				hit = true
			}
		}
		if !hit {
			continue
		}
		if bo.Op == token.NEQ {
			return b.Succs[0], b.Succs[1], i
		}
		return b.Succs[1], b.Succs[0], i
	}
	return
}

// forwardedLoads: loads that certainly yield v: v is stored to a local
// memory cell and the cell is loaded later in the same block with no other
// store to it in between.
func forwardedLoads(v ssa.Value) []ssa.Value {
	var out []ssa.Value
	refs := v.Referrers()
	if refs == nil {
		return nil
	}
	for _, u := range *refs {
		st, ok := u.(*ssa.Store)
		if !ok || st.Val != v {
			continue
		}
		switch st.Addr.(type) {
		case *ssa.Alloc, *ssa.FreeVar:
		default:
			continue
		}
		after := false
		for _, in := range st.Block().Instrs {
			if in == ssa.Instruction(st) {
				after = true
				continue
			}
			if !after {
				continue
			}
			if s2, ok := in.(*ssa.Store); ok && s2.Addr == st.Addr {
				break
			}
			if ld, ok := in.(*ssa.UnOp); ok && ld.Op == token.MUL && ld.X == st.Addr {
				out = append(out, ld)
			}
		}
	}
	return out
}

// storedCellOf: the local memory cell v is stored to (nil if none).
func storedCellOf(v ssa.Value) ssa.Value {
	refs := v.Referrers()
	if refs == nil {
		return nil
	}
	for _, u := range *refs {
		if st, ok := u.(*ssa.Store); ok && st.Val == v {
			switch st.Addr.(type) {
			case *ssa.Alloc, *ssa.FreeVar:
				return st.Addr
			}
		}
	}
	return nil
}

func errEdge1(c ssa.Value) (nonNil, isNil *ssa.BasicBlock, iff *ssa.If) {
	refs := c.Referrers()
	if refs == nil {
		return
	}
	for _, u := range *refs {
		b, ok := u.(*ssa.BinOp)
		if !ok || (b.Op != token.NEQ && b.Op != token.EQL) {
			continue
		}
		if !(isNilConst(b.Y) && b.X == c) && !(isNilConst(b.X) && b.Y == c) {
			continue
		}
		if br := b.Referrers(); br != nil {
			for _, x := range *br {
				if i, ok := x.(*ssa.If); ok {
					if b.Op == token.NEQ {
						return i.Block().Succs[0], i.Block().Succs[1], i
					}
					return i.Block().Succs[1], i.Block().Succs[0], i
				}
			}
		}
	}
	return
}

func blockReachesInstr(b *ssa.BasicBlock, pred func(ssa.Instruction) bool, barrier func(ssa.Instruction) bool) ssa.Instruction {
	if len(b.Instrs) == 0 {
		return nil
	}
	first := b.Instrs[0]
	if pred(first) {
		return first
	}
	if barrier != nil && barrier(first) {
		return nil
	}
	return searchAvoiding(b.Parent(), first, pred, barrier)
}

func checkC05(c *Check) {
	p := c.P
	c.Explanation = "Ordering, same-value and path-count rules on the accepted-login forms of the sshd processor: (1) logins are handed over only by functions the dispatch reaches through an 'Accepted ...' predicate; (2) each hand-over is dominated by the EventWriter.Write of an event on the nil-error edge of that write, and the error edge returns a non-nil error without any hand-over; (3) the forwarded login's Source is the very value written, its PID is strconv.Atoi(line PID) on its nil-error edge, its CredUserID is 'unknown' or the certificate UserID group, which is also the event's subjects.userID; (4) the written event's outcome is 'succeeded', and 'succeeded' occurs in no non-accepted form; (5) the hand-over is one state of a blocking select that also waits for Done() of the processor's context, at most one hand-over per path, and every nil-returning path after the write passes through it; (6) the channel given to the sshd processor and the correlator's Logins are the same make(chan)."
	c.Rule("who-may-send (floor: >=1 hand-over for 'Accepted publickey' and for 'Accepted password')")
	c.Rule("write-before-forward; error-edge returns non-nil without hand-over")
	c.Rule("same-event / pid-from-line / cred-user-id")
	c.Rule("succeeded-iff-accepted")
	c.Rule("cancellable / at-most-once / always-forwarded-after-write")
	c.Rule("channel-wiring")
	c.Trust("an unbuffered channel send in a select either completes or the Done case is taken", "go/ssa dominator tree")
	d := FindDispatch(p)
	if !c.Anchor("sshd dispatcher (function calling a phi of >=5 entry functions)", d != nil) {
		return
	}
	for _, pr := range d.Problems {
		c.Unk("dispatch-table", pr, "-", "dispatch row not understood")
	}
	c.Fn(funcDisplayName(d.Fn))
	rx := RegexByName(p.RegexVars(pkgSshd))
	rowOf := map[*ssa.Function][]Row{}
	for _, r := range d.Rows {
		rowOf[r.Fn] = append(rowOf[r.Fn], r)
	}
	hos := findHandOffs(p)
	j := &CtxJudge{P: p}
	jNoDeadline := &CtxJudge{P: p, NoDeadline: true}
	perPrefix := map[string]int{}
	isHO := func(in ssa.Instruction) bool {
		for _, x := range hos {
			if x.In == in {
				return true
			}
		}
		return false
	}
	acceptedEntry := func(fn *ssa.Function) bool {
		rows := rowOf[fn]
		if len(rows) == 0 {
			return false
		}
		for _, rw := range rows {
			if !rw.Accepted(rx) {
				return false
			}
		}
		return true
	}
	for _, h := range hos {
		c.Fn(funcDisplayName(h.Fn))
		pos := p.InstrPos(h.In)
		base := fmt.Sprintf("hand-over in %s (select state %d)", h.Fn.Name(), h.State)
		ctxs, why := rowContexts(p, h.Fn, rowOf, 0)
		for _, hc := range ctxs {
			if !acceptedEntry(hc.Entry) {
				why = "reached from " + hc.Entry.Name() + ", the entry function of a dispatch row that is not an 'Accepted ...' form"
				ctxs = nil
				break
			}
		}
		if len(ctxs) == 0 {
			c.Bad("who-may-send", base, pos, "a login is forwarded by a function that the dispatch does not reach only through 'Accepted ...' predicates ("+why+"): a failure or unrecognised line could forward a login")
			continue
		}
		for _, hc := range ctxs {
			r := hc.R
			name := base
			if hc.Chain != h.Fn.Name() {
				name = base + " via " + hc.Chain
			}
			for _, rw := range rowOf[hc.Entry] {
				for _, pd := range rw.Pos {
					perPrefix[pd.Prefix+pd.Regex]++
				}
			}
			c.OK("who-may-send", name, pos, "reached only through dispatch row: "+rowOf[hc.Entry][0].Name())
			// 2. write before forward: in the function itself or, for a helper, in its caller before the call
			var theWrite *ssa.Call
			var anchor ssa.Instruction = h.In
			for lvl := 0; lvl < 4 && theWrite == nil && anchor != nil; lvl++ {
				for _, w := range writeCallsDominating(p, anchor) {
					nn, _, _ := errEdge(w)
					if nn == nil {
						continue
					}
					for _, g := range GuardsOf(anchor) {
						a := atomsOf(g)
						if b, ok := a.V.(*ssa.BinOp); ok && (b.X == w || b.Y == w) {
							if (b.Op == token.NEQ && !a.Pos) || (b.Op == token.EQL && a.Pos) {
								theWrite = w
							}
						}
					}
				}
				if theWrite == nil {
					anchor = r.Site[anchor.Parent()]
				}
			}
			if theWrite == nil {
				c.Bad("write-before-forward", name, pos, "the hand-over is not dominated by an EventWriter.Write on that write's nil-error edge: the login can reach the correlator although its UserLogin event was not written (or before it is)")
				continue
			}
			c.OK("write-before-forward", name, pos, "dominated by Write at "+p.InstrPos(theWrite)+" on its nil-error edge")
			wfn := theWrite.Parent()
			nn, nl, _ := errEdge(theWrite)
			reachHO := func(in ssa.Instruction) bool {
				if isHO(in) {
					return true
				}
				// a call of a function that contains a hand-over
				if ci, ok := in.(ssa.CallInstruction); ok {
					if sc := staticCallee(ci.Common()); sc != nil {
						for _, x := range hos {
							if x.Fn == sc {
								return true
							}
						}
					}
				}
				return false
			}
			if bad := blockReachesInstr(nn, reachHO, nil); bad != nil {
				c.Bad("write-error-no-forward", name, p.InstrPos(theWrite), "a hand-over at "+p.InstrPos(bad)+" is reachable on the error edge of the write")
			} else {
				okRet := true
				whyR := ""
				seenRet := 0
				rr := r
				for _, b := range wfn.Blocks {
					if len(b.Instrs) == 0 {
						continue
					}
					ret, ok := b.Instrs[len(b.Instrs)-1].(*ssa.Return)
					if !ok {
						continue
					}
					if !(b == nn || reachesFromBlock(nn, ret)) || !nn.Dominates(b) {
						continue
					}
					seenRet++
					if len(ret.Results) == 0 || nilKind(rr, ret.Results[len(ret.Results)-1], ret) != NonNil {
						okRet = false
						whyR = "return at " + p.InstrPos(ret) + " may yield a nil error"
					}
				}
				if seenRet == 0 {
					okRet = false
					whyR = "no return found on the error edge"
				}
				c.Cond(okRet, "write-error-no-forward", name, p.InstrPos(theWrite), "error edge of the write returns a non-nil error on all paths and reaches no hand-over", "when the event cannot be written the error is not returned: "+whyR)
			}
			// 3. same event
			fields := structLitFields(h.Val)
			if fields == nil {
				// the login is a parameter of a hand-over helper: its fields are
				// set where the caller builds it
				if prm, isPrm := strip(h.Val).(*ssa.Parameter); isPrm {
					if o := r.Env[prm]; o != nil && o.V != nil {
						fields = structLitFields(o.V)
					}
				}
			}
			evArg := theWrite.Call.Args[len(theWrite.Call.Args)-1]
			if fields == nil {
				c.Unk("same-event", name, pos, "forwarded value is not a struct literal; cannot identify its fields")
				continue
			}
			src := fields["Source"]
			same := src != nil && (strip(src) == strip(evArg) || sameValue(r.Of(src), r.Of(evArg)) || sameEventRoots(p, r, src, h.In, evArg, theWrite))
			c.Cond(same, "same-event", name, pos, "login.Source is the value passed to Write", "the forwarded login's Source is not the event that was written")
			// PID
			pidOK, pidWhy := pidFromLine(r, fields["PID"], h.In)
			c.Cond(pidOK, "pid-from-line", name, pos, "login.PID = strconv.Atoi(config.pid) on its nil-error edge", "forwarded PID does not come from the line's PID token: "+pidWhy)
			// CredUserID
			cu := fields["CredUserID"]
			ev := ExtractEvent(p, r, evArg, theWrite)
			for _, u := range ev.Unknown {
				c.Unk("event-slots", name+": "+u, p.InstrPos(theWrite), "event construction not understood")
			}
			cuOK := false
			cuWhy := "CredUserID not set"
			if cu != nil {
				srcs := Classify(p, r.Of(cu))
				cuWhy = fmt.Sprint(srcs)
				uid := ev.EffectiveSrcs(p, "subjects.userID")
				if len(srcs) == 1 && ((srcs[0].Kind == "const" && srcs[0].A == "unknown") || (srcs[0].Kind == "group" && srcs[0].B == "UserID")) {
					cuOK = len(uid) == 1 && uid[0] == srcs[0]
					if !cuOK {
						cuWhy = fmt.Sprintf("CredUserID is %v but the event's subjects.userID is %v", srcs[0], uid)
					}
				}
			}
			c.Cond(cuOK, "cred-user-id", name, pos, "CredUserID is "+cuWhy+" and equals the event's subjects.userID", "credential user ID mismatch: "+cuWhy)
			// 4. outcome
			oc := ev.EffectiveSrcs(p, "outcome")
			c.Cond(len(oc) == 1 && oc[0].Kind == "const" && oc[0].A == "succeeded", "succeeded-with-forward", name, pos, "written event has outcome 'succeeded'", fmt.Sprintf("a login is forwarded together with an event whose outcome is %v", oc))
			// 5. cancellable, at most once, always forwarded
			if sel, ok := h.In.(*ssa.Select); ok {
				ok2, why := idiomSelect(j, r, sel)
				c.Cond(ok2, "handoff-cancellable", name, pos, why, "the hand-over cannot be cancelled through the processor's context: "+why)
				// the only alternative to handing the login over is cancellation
				nother := 0
				for _, st := range sel.States {
					if st.Dir == types.SendOnly {
						continue
					}
					if doneRecvOf(st.Chan) == nil {
						nother++
					}
				}
				c.Cond(nother == 0 && sel.Blocking, "handoff-only-cancellation-gives-up", name, pos, "the select waits for the hand-over or Done() and nothing else", "the hand-over can be abandoned for a reason other than cancellation (a timer, another channel, a default case): the login event is written but no login reaches the correlator")
				// ... and that Done() is the worker's shutdown, not a deadline
				// set somewhere between the worker and the hand-over
				for _, st := range sel.States {
					if x := doneRecvOf(st.Chan); x != nil {
						okD, whyD := jNoDeadline.OK(r, x)
						if !okD && !strings.Contains(whyD, "deadline") {
							okD = true // other defects of the context are judged by handoff-cancellable
						}
						c.Cond(okD, "handoff-only-cancellation-gives-up", name+": the awaited context ends only with the worker", pos, "no deadline or timeout on the way from the worker's context", "the hand-over gives up when a deadline passes ("+whyD+"): the login event is written but, with a slow correlator, no login reaches it")
					}
				}
			} else {
				c.Bad("handoff-cancellable", name, pos, "bare send of the login: blocks for ever when the correlator has stopped")
			}
			again := searchAvoiding(h.Fn, h.In, isHO, nil)
			c.Cond(again == nil && !inLoop(h.In), "handoff-at-most-once", name, pos, "no further hand-over is reachable after this one", "a second hand-over is reachable on the same path")
			if nl != nil {
				miss := blockReachesInstr(nl, isReturn, reachHO)
				c.Cond(miss == nil, "handoff-always-after-write", name, p.InstrPos(theWrite), "every path from the successful write to a return passes through a hand-over", "after a successful write the function can return without forwarding the login")
			}
			if h.Fn != theWrite.Parent() {
				// the hand-over sits in a helper: the helper cannot return without it
				skip := searchAvoiding(h.Fn, nil, isReturn, isHO)
				c.Cond(skip == nil, "handoff-always-after-write", name+": inside helper "+h.Fn.Name(), pos, "every path through the helper passes the hand-over", "the hand-over helper can return without forwarding the login (a condition inside it skips the hand-over)")
			}
		}
	}
	// floors per accepted form
	c.Floor("hand-overs reached through prefix 'Accepted publickey'", 1, perPrefix["Accepted publickey"])
	c.Floor("hand-overs reached through prefix 'Accepted password'", 1, perPrefix["Accepted password"])

	// 4b. succeeded only in accepted rows
	for _, es := range EmitSites(p) {
		if FuncPkgPath(es.Fn) != ModPath+"/"+pkgSshd {
			continue
		}
		ctxs, _ := rowContexts(p, es.Fn, rowOf, 0)
		if len(ctxs) == 0 {
			c.Unk("succeeded-iff-accepted", "emit in "+es.Fn.Name(), p.InstrPos(es.Call), "emit site is not reachable from a dispatch row through static calls")
			continue
		}
		for _, hc := range ctxs {
			ev := ExtractEvent(p, hc.R, es.Event, es.Call)
			oc := ev.EffectiveSrcs(p, "outcome")
			name := "emit in " + es.Fn.Name()
			if hc.Chain != es.Fn.Name() {
				name += " via " + hc.Chain
			}
			succ := len(oc) == 1 && oc[0].Kind == "const" && oc[0].A == "succeeded"
			fail := len(oc) == 1 && oc[0].Kind == "const" && oc[0].A == "failed"
			if acceptedEntry(hc.Entry) {
				c.Cond(succ, "succeeded-iff-accepted", name, p.InstrPos(es.Call), "accepted form, outcome succeeded", fmt.Sprintf("accepted form emits outcome %v", oc))
			} else {
				c.Cond(fail, "succeeded-iff-accepted", name, p.InstrPos(es.Call), "failure form, outcome failed", fmt.Sprintf("non-accepted form emits outcome %v", oc))
			}
		}
	}
	// the fields of the forwarded login come out of the patterns: a group that rejects
	// genuine values (a key ID with a space) silently turns a certificate login into 'unknown'
	importRules(c, "C06", checkC06, "login-fields: ", "group-alphabet-adequacy", "dispatch-extraction-agreement", "line-reaches-dispatcher", "line-dispatched-once", "spacing-preserved", "line-integrity", "record-as-written")
	// the write whose success the hand-over depends on is synchronous
	eventWriterUnbuffered(c, "write-before-forward")
	// 1b. entry functions are referenced only from the dispatch
	checkEntryRefs(c, d)
	// 6. wiring
	checkLoginWiring(c)
}

// sameEventRoots: both values denote the same event object (same
// constructor calls, possibly through With* aliases or helper parameters).
func sameEventRoots(p *Prog, r *Resolver, a ssa.Value, asink ssa.Instruction, b ssa.Value, bsink ssa.Instruction) bool {
	ea := ExtractEvent(p, r, a, asink)
	eb := ExtractEvent(p, r, b, bsink)
	if len(ea.Ctors) == 0 || len(ea.Ctors) != len(eb.Ctors) {
		return false
	}
	for i := range ea.Ctors {
		if ea.Ctors[i] != eb.Ctors[i] {
			return false
		}
	}
	// a single constructor call executed once per activation
	return len(ea.Ctors) == 1 && !inLoop(ea.Ctors[0])
}

// pidFromLine: v is result 0 of strconv.Atoi(<config>.pid) and `at` lies
// on the nil-error edge of that conversion (possibly in a caller).
func pidFromLine(r *Resolver, v ssa.Value, at ssa.Instruction) (bool, string) {
	if v == nil {
		return false, "PID field not set"
	}
	po := r.Of(v)
	if !(po.K == "call" && po.Name == "strconv.Atoi" && po.Idx == 0) {
		return false, "PID is " + po.String()
	}
	ac := po.V.(*ssa.Call)
	ao := r.Of(ac.Call.Args[0])
	root, names := ao.FieldPath()
	if !(root.K == "param" && len(names) == 1 && names[0] == "pid") {
		return false, "Atoi is applied to " + ao.String() + ", not to the line's PID field"
	}
	var errV ssa.Value
	if refs := ac.Referrers(); refs != nil {
		for _, u := range *refs {
			if ex, ok := u.(*ssa.Extract); ok && ex.Index == 1 {
				errV = ex
			}
		}
	}
	if errV == nil {
		return false, "Atoi's error is discarded"
	}
	anchor := at
	for lvl := 0; lvl < 4 && anchor != nil; lvl++ {
		if anchor.Parent() == ac.Parent() {
			for _, g := range GuardsOf(anchor) {
				a := atomsOf(g)
				if b, ok := a.V.(*ssa.BinOp); ok && (b.X == errV || b.Y == errV) {
					if (b.Op == token.NEQ && !a.Pos) || (b.Op == token.EQL && a.Pos) {
						return true, ""
					}
				}
			}
			return false, "Atoi's error is not checked before the hand-over"
		}
		anchor = r.Site[anchor.Parent()]
	}
	return false, "Atoi is not on the path to the hand-over"
}

// checkEntryRefs: entry functions of the dispatch are not called or
// referenced from anywhere else in non-test code.
func checkEntryRefs(c *Check, d *Dispatch) {
	p := c.P
	entry := map[*ssa.Function]bool{}
	for _, r := range d.Rows {
		entry[r.Fn] = true
	}
	n := 0
	// thunks of method expressions stand for the method: the reference that
	// counts is the one to the thunk
	for f := range allFuncs(p) {
		if f.Synthetic != "" && f.Blocks != nil && InRepo(f) {
			if u := unwrapBound(f); u != f && entry[u] {
				entry[f] = true
			}
		}
	}
	// table-driven dispatch: the table is built in the package initialiser;
	// a reference there is the element the evaluation of the table found
	// (one reference per row that names the function)
	tabRows := map[*ssa.Function]int{}
	for _, r := range d.Rows {
		if r.TabG != nil {
			tabRows[r.Fn]++
		}
	}
	initRefs := map[*ssa.Function]int{}
	for _, fn := range p.AllRepoFuncs() {
		if fn.Synthetic != "" && entry[fn] {
			continue // the thunk's own call of the method
		}
		allInstrs(fn, func(in ssa.Instruction) {
			var ops []*ssa.Value
			for _, op := range in.Operands(ops) {
				f, ok := (*op).(*ssa.Function)
				if !ok || !entry[f] {
					continue
				}
				n++
				if fn.Name() == "init" && fn.Synthetic != "" && FuncPkgPath(fn) == FuncPkgPath(d.Fn) {
					tf := f
					if u := unwrapBound(f); u != f {
						tf = u
					}
					initRefs[tf]++
					if initRefs[tf] <= tabRows[tf] {
						continue
					}
				}
				inDispatch := fn == d.Fn
				// a conversion to a named function type that is only returned
				// stands for the return (the selector's result type is named)
				if ct, isCT := in.(*ssa.ChangeType); isCT && ct.Referrers() != nil {
					var ret ssa.Instruction
					only := true
					for _, u := range *ct.Referrers() {
						switch u.(type) {
						case *ssa.Return:
							ret = u
						case *ssa.DebugRef:
						default:
							only = false
						}
					}
					if only && ret != nil {
						in = ret
					}
				}
				if !inDispatch {
					// the nested dispatcher returns it
					if _, isRet := in.(*ssa.Return); isRet {
						for _, ci := range callsIn(d.Fn) {
							if staticCallee(ci.Common()) == fn {
								inDispatch = true
							}
						}
						// ... or is the selector a row of the dispatch table names
						for _, r := range d.Rows {
							if r.Sel == fn || (r.Inner && r.Site == in) {
								inDispatch = true
							}
						}
					}
				}
				if !inDispatch {
					c.Bad("entry-functions-only-from-dispatch", fmt.Sprintf("%s referenced in %s", f.Name(), funcDisplayName(fn)), p.InstrPos(in), "an entry function is reachable without its dispatch predicate having matched")
				}
			}
		})
	}
	c.OK("entry-functions-only-from-dispatch", "all references to entry functions", "-", fmt.Sprintf("%d reference(s), all in the dispatcher or its nested selector", n))
}

// checkLoginWiring: sshd processor and correlator share one channel.
func checkLoginWiring(c *Check) {
	p := c.P
	run := p.Func("cmd", "RunNamedPipe")
	if !c.Anchor("cmd.RunNamedPipe", run != nil) {
		return
	}
	// the wiring function, its closures and the functions of the package
	// they were split into
	var fns []*ssa.Function
	for _, fn := range p.AllRepoFuncs() {
		if FuncPkgPath(fn) == FuncPkgPath(run) && fn.Blocks != nil {
			fns = append(fns, fn)
		}
	}
	chanMakeUp := func(fn *ssa.Function, v ssa.Value) ssa.Value {
		var mk ssa.Value
		for _, a := range resolveUp(p, fn, v, 0) {
			m, ok := a.V.(*ssa.MakeChan)
			if a.K != "alloc" || !ok || (mk != nil && mk != ssa.Value(m)) {
				return nil
			}
			mk = m
		}
		return mk
	}
	var prodMk, consMk ssa.Value
	var prodPos, consPos string
	for _, fn := range fns {
		allInstrs(fn, func(in ssa.Instruction) {
			switch x := in.(type) {
			case *ssa.Call:
				if sc := staticCallee(x.Common()); sc != nil && sc.Name() == "NewSshdProcessor" && InRepo(sc) {
					for _, a := range x.Call.Args {
						if isChanOf(a.Type(), "/internal/common", "RemoteUserLogin") {
							prodMk = chanMakeUp(fn, a)
							prodPos = p.InstrPos(in)
						}
					}
				}
			case *ssa.Store:
				if fa, ok := x.Addr.(*ssa.FieldAddr); ok && fieldName(fa.X.Type(), fa.Field) == "Logins" {
					if n := namedOf(fa.X.Type()); n != nil && n.Obj().Name() == "Auditd" {
						consMk = chanMakeUp(fn, x.Val)
						consPos = p.InstrPos(in)
					}
				}
			}
		})
	}
	ok := prodMk != nil && prodMk == consMk
	c.Cond(ok, "channel-wiring", "logins channel: NewSshdProcessor argument vs Auditd.Logins", prodPos+" / "+consPos, "both are the same make(chan common.RemoteUserLogin)", "the sshd processor and the correlator do not share one logins channel")
	// field plumbing inside the processor: every store to SshdProcessorer.logins
	// comes from the constructor parameter or from the same field
	n := 0
	for _, fn := range p.AllRepoFuncs() {
		r := NewResolver(p)
		allInstrs(fn, func(in ssa.Instruction) {
			st, ok := in.(*ssa.Store)
			if !ok {
				return
			}
			fa, ok := st.Addr.(*ssa.FieldAddr)
			if !ok || fieldName(fa.X.Type(), fa.Field) != "logins" {
				return
			}
			if nt := namedOf(fa.X.Type()); nt == nil || nt.Obj().Name() != "SshdProcessorer" {
				return
			}
			n++
			o := r.Of(st.Val)
			good := o.K == "param" || (o.K == "field" && o.Name == "logins")
			c.Cond(good, "channel-wiring", "store to SshdProcessorer.logins in "+fn.Name(), p.InstrPos(in), "channel comes from "+o.String(), "the processor's logins channel is replaced by "+o.String())
		})
	}
	c.Floor("stores to SshdProcessorer.logins", 1, n)
}

func chanMake(r *Resolver, v ssa.Value) ssa.Value {
	o := r.Of(v)
	for _, a := range o.Alts() {
		if a.K == "alloc" {
			if mk, ok := a.V.(*ssa.MakeChan); ok {
				return mk
			}
		}
	}
	return nil
}

var _ = strings.Join

// hctx is a calling context: a resolver binding the parameters of a
// helper to the values of the dispatch entry function that reaches it.
type hctx struct {
	R     *Resolver
	Entry *ssa.Function
	Chain string
}

// rowContexts returns one context per static call chain from a dispatch
// entry function to fn (fn itself when it is an entry function).
func rowContexts(p *Prog, fn *ssa.Function, rowOf map[*ssa.Function][]Row, depth int) ([]hctx, string) {
	if len(rowOf[fn]) > 0 {
		return []hctx{{NewResolver(p), fn, fn.Name()}}, ""
	}
	if depth > 3 {
		return nil, "call chain too deep"
	}
	var out []hctx
	ncall := 0
	for _, g := range p.AllRepoFuncs() {
		if !p.InDaemon(g) {
			continue
		}
		if g.Synthetic != "" && len(staticCallers(p, g)) == 0 {
			continue // an unused compiler-made wrapper of fn (pointer-receiver form, thunk)
		}
		for _, ci := range callsIn(g) {
			if staticCallee(ci.Common()) != fn {
				continue
			}
			ncall++
			up, why := rowContexts(p, g, rowOf, depth+1)
			if len(up) == 0 {
				return nil, "called from " + g.Name() + ": " + why
			}
			for _, u := range up {
				out = append(out, hctx{u.R.Bind(fn, ci), u.Entry, u.Chain + " > " + fn.Name()})
			}
		}
	}
	if ncall == 0 {
		return nil, fn.Name() + " is neither a dispatch row nor statically called from one"
	}
	return out, ""
}
