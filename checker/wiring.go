package main

import (
	"fmt"
	"go/token"
	"go/types"
	"golang.org/x/tools/go/ssa"
	"os"
)

// staticCallers: the static call sites of fn in the daemon's packages.
func staticCallers(p *Prog, fn *ssa.Function) []ssa.CallInstruction {
	var out []ssa.CallInstruction
	for _, g := range p.AllRepoFuncs() {
		if !p.InDaemon(g) {
			continue
		}
		for _, ci := range callsIn(g) {
			if staticCallee(ci.Common()) == fn {
				out = append(out, ci)
			}
		}
	}
	return out
}

// resolveUp: the origins of value v of function fn; where v is (or derives
// only from) a parameter of fn, the origins of the argument at every
// static call site of fn, recursively. Lets wiring rules see through
// functions extracted from the wiring function.
func resolveUp(p *Prog, fn *ssa.Function, v ssa.Value, depth int) []*Org {
	return resolveUpR(p, NewResolver(p), fn, v, depth)
}

func resolveUpR(p *Prog, r *Resolver, fn *ssa.Function, v ssa.Value, depth int) []*Org {
	var out []*Org
	for _, a := range r.Of(v).Alts() {
		if a.K == "field" && depth <= 3 {
			// a field of a struct parameter / receiver that carries wiring
			// values (workers as methods of a struct built by the wiring
			// function): the value the field was initialised with
			if vals := carrierFieldUp(p, a, depth); len(vals) > 0 {
				out = append(out, vals...)
				continue
			}
			// a field of a struct passed by value (a bundle of wiring values
			// returned by a set-up helper and handed on as a parameter)
			if vals := structParamFieldUp(p, a, depth); len(vals) > 0 {
				out = append(out, vals...)
				continue
			}
		}
		prm, isPrm := a.V.(*ssa.Parameter)
		if a.K != "param" || !isPrm || depth > 3 {
			out = append(out, a)
			continue
		}
		owner := prm.Parent()
		sites := staticCallers(p, owner)
		if len(sites) == 0 {
			out = append(out, a)
			continue
		}
		idx := -1
		for i, q := range owner.Params {
			if q == prm {
				idx = i
			}
		}
		for _, ci := range sites {
			args := ci.Common().Args
			if idx < 0 || idx >= len(args) {
				out = append(out, a)
				continue
			}
			out = append(out, resolveUpR(p, NewResolver(p), ci.Parent(), args[idx], depth+1)...)
		}
	}
	return out
}

// cmdBody: fn plus the functions of its own package it (transitively)
// calls statically: the code of one worker when parts of the closure were
// extracted into named functions.
func cmdBody(p *Prog, fn *ssa.Function) []*ssa.Function {
	pk := FuncPkgPath(fn)
	seen := map[*ssa.Function]bool{fn: true}
	out := []*ssa.Function{fn}
	for i := 0; i < len(out); i++ {
		for _, ci := range callsIn(out[i]) {
			if _, isGo := ci.(*ssa.Go); isGo {
				continue
			}
			sc := staticCallee(ci.Common())
			if sc == nil || seen[sc] || sc.Blocks == nil || FuncPkgPath(sc) != pk {
				continue
			}
			seen[sc] = true
			out = append(out, sc)
		}
	}
	return out
}

// carrierFieldUp: a is a field path on a parameter (or method receiver) of a
// function: the origins of the values that field was initialised with in the
// struct literals handed to the function at its static call sites, or bound
// as the receiver of a method value. nil when that cannot be established.
func carrierFieldUp(p *Prog, a *Org, depth int) []*Org {
	var addr ssa.Value
	switch x := a.V.(type) {
	case *ssa.UnOp:
		addr = x.X
	case *ssa.FieldAddr:
		addr = x
	default:
		return nil
	}
	var path []int
	cur := addr
	for {
		fa, ok := cur.(*ssa.FieldAddr)
		if !ok {
			break
		}
		path = append([]int{fa.Field}, path...)
		cur = fa.X
	}
	prm, ok := cur.(*ssa.Parameter)
	if !ok || len(path) == 0 {
		return nil
	}
	owner := prm.Parent()
	idx := -1
	for i, q := range owner.Params {
		if q == prm {
			idx = i
		}
	}
	var structVals []ssa.Value // struct pointers handed to owner as that parameter
	var holders []*ssa.Function
	for _, ci := range staticCallers(p, owner) {
		if ci.Parent().Synthetic != "" && unwrapBound(ci.Parent()) == owner {
			continue // the bound-method wrapper itself: handled through its bindings below
		}
		if idx >= 0 && idx < len(ci.Common().Args) {
			structVals = append(structVals, ci.Common().Args[idx])
			holders = append(holders, ci.Parent())
		}
	}
	if idx == 0 && owner.Signature.Recv() != nil {
		for _, g := range p.AllRepoFuncs() {
			if !p.InDaemon(g) {
				continue
			}
			allInstrs(g, func(in ssa.Instruction) {
				mc, ok := in.(*ssa.MakeClosure)
				if !ok || len(mc.Bindings) == 0 {
					return
				}
				if f, ok := mc.Fn.(*ssa.Function); ok && f != owner && unwrapBound(f) == owner {
					structVals = append(structVals, mc.Bindings[0])
					holders = append(holders, g)
				}
			})
		}
	}
	if os.Getenv("AMDEBUG") != "" {
		fmt.Fprintf(os.Stderr, "carrierFieldUp %s owner=%s idx=%d path=%v structVals=%d\n", a.String(), owner.String(), idx, path, len(structVals))
	}
	if len(structVals) == 0 {
		return nil
	}
	var out []*Org
	for i, sv := range structVals {
		sr := NewResolver(p)
		bo := sr.Of(sv)
		al, ok := bo.V.(*ssa.Alloc)
		if os.Getenv("AMDEBUG") != "" {
			fmt.Fprintf(os.Stderr, "  struct value %s -> %s (%T)\n", sv.Name(), bo.String(), bo.V)
		}
		if bo.K != "alloc" || !ok {
			return nil
		}
		val, vr := sr.allocPathValue(al, path, 0)
		if os.Getenv("AMDEBUG") != "" {
			fmt.Fprintf(os.Stderr, "  path value %v\n", val)
		}
		if val == nil {
			return nil
		}
		out = append(out, resolveUpR(p, vr, holders[i], val, depth+1)...)
	}
	return out
}

// structParamFieldUp: a is a field path on a by-value struct parameter: the
// origins of that field in the struct values handed to the function at its
// static call sites, where such a value is a struct literal built locally or
// returned (as a literal) by a repository helper, or itself a parameter.
func structParamFieldUp(p *Prog, a *Org, depth int) []*Org {
	root, names := a.FieldPath()
	prm, ok := root.V.(*ssa.Parameter)
	if root.K != "param" || !ok || len(names) == 0 || depth > 3 {
		return nil
	}
	// field indices along the path
	var path []int
	tp := prm.Type()
	for _, nm := range names {
		st, isSt := deref(tp).Underlying().(*types.Struct)
		if !isSt {
			return nil
		}
		found := -1
		for i := 0; i < st.NumFields(); i++ {
			if st.Field(i).Name() == nm {
				found = i
			}
		}
		if found < 0 {
			return nil
		}
		path = append(path, found)
		tp = st.Field(found).Type()
	}
	owner := prm.Parent()
	idx := -1
	for i, q := range owner.Params {
		if q == prm {
			idx = i
		}
	}
	sites := staticCallers(p, owner)
	if idx < 0 || len(sites) == 0 {
		return nil
	}
	var out []*Org
	for _, ci := range sites {
		if idx >= len(ci.Common().Args) {
			return nil
		}
		vals := structValueField(p, NewResolver(p), ci.Parent(), ci.Common().Args[idx], path, depth+1)
		if vals == nil {
			return nil
		}
		out = append(out, vals...)
	}
	return out
}

// structValueField: the origins of field path `path` of the struct value v
// (of function fn, read with resolver r).
func structValueField(p *Prog, r *Resolver, fn *ssa.Function, v ssa.Value, path []int, depth int) []*Org {
	if depth > 4 {
		return nil
	}
	v = strip(v)
	// *literal
	if ld, ok := v.(*ssa.UnOp); ok && ld.Op == token.MUL {
		if al, ok := ld.X.(*ssa.Alloc); ok {
			if val, vr := r.allocPathValue(al, path, 0); val != nil {
				return resolveUpR(p, vr, fn, val, depth+1)
			}
			return nil
		}
	}
	var call *ssa.Call
	ridx := 0
	switch x := v.(type) {
	case *ssa.Call:
		call = x
	case *ssa.Extract:
		if cl, ok := x.Tuple.(*ssa.Call); ok {
			call, ridx = cl, x.Index
		}
	case *ssa.Parameter:
		owner := x.Parent()
		idx := -1
		for i, q := range owner.Params {
			if q == x {
				idx = i
			}
		}
		var out []*Org
		for _, ci := range staticCallers(p, owner) {
			if idx < 0 || idx >= len(ci.Common().Args) {
				return nil
			}
			vals := structValueField(p, NewResolver(p), ci.Parent(), ci.Common().Args[idx], path, depth+1)
			if vals == nil {
				return nil
			}
			out = append(out, vals...)
		}
		return out
	}
	if call == nil {
		// a captured struct variable: the cell's single store
		if o := r.Of(v); o.K == "unop" && o.Name == "*" {
			return nil
		}
		return nil
	}
	sc := staticCallee(call.Common())
	if sc == nil || !InRepo(sc) || sc.Blocks == nil {
		return nil
	}
	nr := r.Bind(sc, call)
	var out []*Org
	okAll := true
	allInstrs(sc, func(in ssa.Instruction) {
		ret, ok := in.(*ssa.Return)
		if !ok || ridx >= len(ret.Results) || in.Block() == sc.Recover {
			return
		}
		res := strip(ret.Results[ridx])
		// the zero struct returned together with an error
		if ld, ok := res.(*ssa.UnOp); ok && ld.Op == token.MUL {
			if al, ok := ld.X.(*ssa.Alloc); ok {
				if val, vr := nr.allocPathValue(al, path, 0); val != nil {
					out = append(out, resolveUpR(p, vr, sc, val, depth+1)...)
					return
				}
				// a literal with no store to that field: its zero value
				if len(nr.cellStores(al)) == 0 {
					out = append(out, &Org{K: "zero"})
					return
				}
			}
		}
		if k, ok := res.(*ssa.Const); ok && k.Value == nil {
			out = append(out, &Org{K: "zero"})
			return
		}
		okAll = false
	})
	if !okAll {
		return nil
	}
	return out
}
