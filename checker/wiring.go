package main

import (
	"golang.org/x/tools/go/ssa"
)

// staticCallers: the static call sites of fn in the daemon's packages.
func staticCallers(p *Prog, fn *ssa.Function) []ssa.CallInstruction {
	var out []ssa.CallInstruction
	for _, g := range p.AllRepoFuncs() {
		if !p.InDaemon(g) {
			continue
		}
		for _, ci := range callsIn(g) {
			if staticCallee(ci.Common()) == fn {
				out = append(out, ci)
			}
		}
	}
	return out
}

// resolveUp: the origins of value v of function fn; where v is (or derives
// only from) a parameter of fn, the origins of the argument at every
// static call site of fn, recursively. Lets wiring rules see through
// functions extracted from the wiring function.
func resolveUp(p *Prog, fn *ssa.Function, v ssa.Value, depth int) []*Org {
	return resolveUpR(p, NewResolver(p), fn, v, depth)
}

func resolveUpR(p *Prog, r *Resolver, fn *ssa.Function, v ssa.Value, depth int) []*Org {
	var out []*Org
	for _, a := range r.Of(v).Alts() {
		prm, isPrm := a.V.(*ssa.Parameter)
		if a.K != "param" || !isPrm || depth > 3 {
			out = append(out, a)
			continue
		}
		owner := prm.Parent()
		sites := staticCallers(p, owner)
		if len(sites) == 0 {
			out = append(out, a)
			continue
		}
		idx := -1
		for i, q := range owner.Params {
			if q == prm {
				idx = i
			}
		}
		for _, ci := range sites {
			args := ci.Common().Args
			if idx < 0 || idx >= len(args) {
				out = append(out, a)
				continue
			}
			out = append(out, resolveUpR(p, NewResolver(p), ci.Parent(), args[idx], depth+1)...)
		}
	}
	return out
}

// cmdBody: fn plus the functions of its own package it (transitively)
// calls statically: the code of one worker when parts of the closure were
// extracted into named functions.
func cmdBody(p *Prog, fn *ssa.Function) []*ssa.Function {
	pk := FuncPkgPath(fn)
	seen := map[*ssa.Function]bool{fn: true}
	out := []*ssa.Function{fn}
	for i := 0; i < len(out); i++ {
		for _, ci := range callsIn(out[i]) {
			if _, isGo := ci.(*ssa.Go); isGo {
				continue
			}
			sc := staticCallee(ci.Common())
			if sc == nil || seen[sc] || sc.Blocks == nil || FuncPkgPath(sc) != pk {
				continue
			}
			seen[sc] = true
			out = append(out, sc)
		}
	}
	return out
}
