package main

import (
	"fmt"
	"os"
	"golang.org/x/tools/go/ssa"
)

// staticCallers: the static call sites of fn in the daemon's packages.
func staticCallers(p *Prog, fn *ssa.Function) []ssa.CallInstruction {
	var out []ssa.CallInstruction
	for _, g := range p.AllRepoFuncs() {
		if !p.InDaemon(g) {
			continue
		}
		for _, ci := range callsIn(g) {
			if staticCallee(ci.Common()) == fn {
				out = append(out, ci)
			}
		}
	}
	return out
}

// resolveUp: the origins of value v of function fn; where v is (or derives
// only from) a parameter of fn, the origins of the argument at every
// static call site of fn, recursively. Lets wiring rules see through
// functions extracted from the wiring function.
func resolveUp(p *Prog, fn *ssa.Function, v ssa.Value, depth int) []*Org {
	return resolveUpR(p, NewResolver(p), fn, v, depth)
}

func resolveUpR(p *Prog, r *Resolver, fn *ssa.Function, v ssa.Value, depth int) []*Org {
	var out []*Org
	for _, a := range r.Of(v).Alts() {
		if a.K == "field" && depth <= 3 {
			// a field of a struct parameter / receiver that carries wiring
			// values (workers as methods of a struct built by the wiring
			// function): the value the field was initialised with
			if vals := carrierFieldUp(p, a, depth); len(vals) > 0 {
				out = append(out, vals...)
				continue
			}
		}
		prm, isPrm := a.V.(*ssa.Parameter)
		if a.K != "param" || !isPrm || depth > 3 {
			out = append(out, a)
			continue
		}
		owner := prm.Parent()
		sites := staticCallers(p, owner)
		if len(sites) == 0 {
			out = append(out, a)
			continue
		}
		idx := -1
		for i, q := range owner.Params {
			if q == prm {
				idx = i
			}
		}
		for _, ci := range sites {
			args := ci.Common().Args
			if idx < 0 || idx >= len(args) {
				out = append(out, a)
				continue
			}
			out = append(out, resolveUpR(p, NewResolver(p), ci.Parent(), args[idx], depth+1)...)
		}
	}
	return out
}

// cmdBody: fn plus the functions of its own package it (transitively)
// calls statically: the code of one worker when parts of the closure were
// extracted into named functions.
func cmdBody(p *Prog, fn *ssa.Function) []*ssa.Function {
	pk := FuncPkgPath(fn)
	seen := map[*ssa.Function]bool{fn: true}
	out := []*ssa.Function{fn}
	for i := 0; i < len(out); i++ {
		for _, ci := range callsIn(out[i]) {
			if _, isGo := ci.(*ssa.Go); isGo {
				continue
			}
			sc := staticCallee(ci.Common())
			if sc == nil || seen[sc] || sc.Blocks == nil || FuncPkgPath(sc) != pk {
				continue
			}
			seen[sc] = true
			out = append(out, sc)
		}
	}
	return out
}


// carrierFieldUp: a is a field path on a parameter (or method receiver) of a
// function: the origins of the values that field was initialised with in the
// struct literals handed to the function at its static call sites, or bound
// as the receiver of a method value. nil when that cannot be established.
func carrierFieldUp(p *Prog, a *Org, depth int) []*Org {
	var addr ssa.Value
	switch x := a.V.(type) {
	case *ssa.UnOp:
		addr = x.X
	case *ssa.FieldAddr:
		addr = x
	default:
		return nil
	}
	var path []int
	cur := addr
	for {
		fa, ok := cur.(*ssa.FieldAddr)
		if !ok {
			break
		}
		path = append([]int{fa.Field}, path...)
		cur = fa.X
	}
	prm, ok := cur.(*ssa.Parameter)
	if !ok || len(path) == 0 {
		return nil
	}
	owner := prm.Parent()
	idx := -1
	for i, q := range owner.Params {
		if q == prm {
			idx = i
		}
	}
	var structVals []ssa.Value // struct pointers handed to owner as that parameter
	var holders []*ssa.Function
	for _, ci := range staticCallers(p, owner) {
		if ci.Parent().Synthetic != "" && unwrapBound(ci.Parent()) == owner {
			continue // the bound-method wrapper itself: handled through its bindings below
		}
		if idx >= 0 && idx < len(ci.Common().Args) {
			structVals = append(structVals, ci.Common().Args[idx])
			holders = append(holders, ci.Parent())
		}
	}
	if idx == 0 && owner.Signature.Recv() != nil {
		for _, g := range p.AllRepoFuncs() {
			if !p.InDaemon(g) {
				continue
			}
			allInstrs(g, func(in ssa.Instruction) {
				mc, ok := in.(*ssa.MakeClosure)
				if !ok || len(mc.Bindings) == 0 {
					return
				}
				if f, ok := mc.Fn.(*ssa.Function); ok && f != owner && unwrapBound(f) == owner {
					structVals = append(structVals, mc.Bindings[0])
					holders = append(holders, g)
				}
			})
		}
	}
	if os.Getenv("AMDEBUG") != "" {
		fmt.Fprintf(os.Stderr, "carrierFieldUp %s owner=%s idx=%d path=%v structVals=%d\n", a.String(), owner.String(), idx, path, len(structVals))
	}
	if len(structVals) == 0 {
		return nil
	}
	var out []*Org
	for i, sv := range structVals {
		sr := NewResolver(p)
		bo := sr.Of(sv)
		al, ok := bo.V.(*ssa.Alloc)
		if os.Getenv("AMDEBUG") != "" {
			fmt.Fprintf(os.Stderr, "  struct value %s -> %s (%T)\n", sv.Name(), bo.String(), bo.V)
		}
		if bo.K != "alloc" || !ok {
			return nil
		}
		val, vr := sr.allocPathValue(al, path, 0)
		if os.Getenv("AMDEBUG") != "" {
			fmt.Fprintf(os.Stderr, "  path value %v\n", val)
		}
		if val == nil {
			return nil
		}
		out = append(out, resolveUpR(p, vr, holders[i], val, depth+1)...)
	}
	return out
}
