package main

import (
	"fmt"
	"go/constant"
	"go/types"
	"os"
	"sort"
	"strings"

	"golang.org/x/tools/go/ssa"
)

const pkgSshd = "processors/sshd"

// Pred is a dispatch predicate on the log line.
type Pred struct {
	Kind    string // prefix | regex
	Prefix  string
	Regex   string // pkg.var
	Subject *Org
	Call    *ssa.Call
}

func (p Pred) String() string {
	if p.Kind == "prefix" {
		return "HasPrefix(" + p.Subject.String() + ", \"" + p.Prefix + "\")"
	}
	return p.Regex + ".MatchString(" + p.Subject.String() + ")"
}

// Row is one line of the dispatch table: predicates -> entry function.
type Row struct {
	Pos    []Pred // predicates that hold (outer first)
	Neg    []Pred // earlier predicates that failed
	Fn     *ssa.Function
	Bodies []*ssa.BasicBlock // blocks of the case body in the dispatcher (outer row)
	Inner  bool              // selected by the nested dispatcher
	Site   ssa.Instruction   // where the function value is produced
	// table-driven dispatch: the row is element TabK of the package-level
	// table TabG; TabEnv binds the dispatcher's reads of "the current
	// element" to this element's constants; Sel is the selector function a
	// nested row was returned by
	TabG    *ssa.Global
	TabK    int
	TabEnv  map[ssa.Value]*Org
	TabElem *SV
	Sel     *ssa.Function
	// Other: number of conditions on the way to the row that are not
	// dispatch predicates (0 in a dispatcher made of keyword tests only)
	Other int
}

func (r Row) Name() string {
	var parts []string
	for _, p := range r.Pos {
		if p.Kind == "prefix" {
			parts = append(parts, "prefix \""+p.Prefix+"\"")
		} else {
			parts = append(parts, "match "+p.Regex)
		}
	}
	return strings.Join(parts, " & ") + " -> " + r.Fn.Name()
}

// Accepted: the row is selected by a predicate whose text begins with
// "Accepted " (accepted authentication).
func (r Row) Accepted(rx map[string]*RegexVar) bool {
	for _, p := range r.Pos {
		if p.Kind == "prefix" && strings.HasPrefix(p.Prefix, "Accepted ") {
			return true
		}
		if p.Kind == "regex" {
			// only a pattern anchored at the start of the line identifies the message kind
			if rv := rx[p.Regex]; rv != nil && rv.Tree != nil && rv.BeginAnchored() && strings.HasPrefix(rv.LeadingLiteral(), "Accepted ") {
				return true
			}
		}
	}
	return false
}

type Dispatch struct {
	Fn       *ssa.Function // the dispatcher
	Phi      *ssa.Phi
	CallSite *ssa.Call // dynamic call of the selected function
	Rows     []Row
	Default  bool // a nil (no-match) alternative exists
	Problems []string
}

func predOf(r *Resolver, v ssa.Value) (Pred, bool) {
	c, ok := v.(*ssa.Call)
	if !ok {
		return Pred{}, false
	}
	sc := staticCallee(c.Common())
	if sc == nil {
		return Pred{}, false
	}
	switch sc.String() {
	case "strings.HasPrefix":
		k, ok := c.Call.Args[1].(*ssa.Const)
		if !ok || k.Value == nil || k.Value.Kind() != constant.String {
			return Pred{}, false
		}
		return Pred{Kind: "prefix", Prefix: constant.StringVal(k.Value), Subject: r.Of(c.Call.Args[0]), Call: c}, true
	case "(*regexp.Regexp).MatchString":
		g := regexGlobalOf(c.Call.Args[0])
		if g == "" {
			return Pred{}, false
		}
		return Pred{Kind: "regex", Regex: g, Subject: r.Of(c.Call.Args[1]), Call: c}, true
	}
	return Pred{}, false
}

// predsAt collects the dispatch predicates guarding an instruction.
func predsAt(r *Resolver, in ssa.Instruction) (pos, neg []Pred, other int) {
	for _, g := range GuardsOf(in) {
		a := atomsOf(g)
		p, ok := predOf(r, a.V)
		if !ok {
			// a nil test of a parameter (a defensive guard) is not a condition on the line
			if b, isB := a.V.(*ssa.BinOp); isB && (isNilConst(b.X) || isNilConst(b.Y)) {
				o := b.X
				if isNilConst(b.X) {
					o = b.Y
				}
				if _, isPrm := o.(*ssa.Parameter); isPrm {
					continue
				}
			}
			other++
			continue
		}
		if a.Pos {
			pos = append(pos, p)
		} else {
			neg = append(neg, p)
		}
	}
	return
}

// FindDispatch discovers the dispatcher of the sshd processor by role: the
// function that calls a function value selected (phi) among at least five
// package functions.
func FindDispatch(p *Prog) *Dispatch {
	var best *Dispatch
	bestN := 0
	for _, fn := range p.AllRepoFuncs() {
		if FuncPkgPath(fn) != ModPath+"/"+pkgSshd {
			continue
		}
		for _, ci := range callsIn(fn) {
			c, ok := ci.(*ssa.Call)
			if !ok {
				continue
			}
			phi, ok := c.Call.Value.(*ssa.Phi)
			if !ok {
				continue
			}
			nf := 0
			for _, e := range phi.Edges {
				if _, ok := strip(e).(*ssa.Function); ok {
					nf++
				}
			}
			// table-driven: an edge is read from (or returned by a function
			// value read from) an element of a package-level table
			if nf < 5 {
				for _, e := range phi.Edges {
					var tv ssa.Value = e
					if cl, ok := e.(*ssa.Call); ok && staticCallee(cl.Common()) == nil && !cl.Common().IsInvoke() {
						tv = cl.Common().Value
					}
					if g, _, _, ok := tablePath(tv); ok {
						if el := p.tableOf(g); len(el) > nf {
							nf = len(el)
						}
					}
				}
			}
			if nf < 5 {
				continue
			}
			d := &Dispatch{Fn: fn, Phi: phi, CallSite: c}
			if best == nil || nf > bestN {
				best = d
				bestN = nf
			}
		}
	}
	if best == nil {
		return nil
	}
	d := best
	r := NewResolver(p)
	blk := d.Phi.Block()
	seenEdge := map[ssa.Value]bool{}
	for i, e := range d.Phi.Edges {
		pred := blk.Preds[i]
		first := pred.Instrs[0]
		if _, isC := e.(*ssa.Const); !isC {
			if seenEdge[e] {
				continue
			}
			seenEdge[e] = true
		}
		bodies := caseBodyBlocks(d.Fn, pred, blk)
		p.selectionRows(d, d.Fn, r, e, first, nil, nil, bodies, false, 0)
	}
	tabular := false
	for _, row := range d.Rows {
		if row.TabG != nil {
			tabular = true
		}
	}
	if !tabular { // rows of a table keep the table's order
		sort.SliceStable(d.Rows, func(i, j int) bool { return d.Rows[i].Site.Pos() < d.Rows[j].Site.Pos() })
	}
	return d
}

// caseBodyBlocks: the blocks that belong to the case whose last block is
// pred (all blocks from which join is reached only through pred, walking
// backwards while the block has a single successor chain).
func caseBodyBlocks(fn *ssa.Function, pred, join *ssa.BasicBlock) []*ssa.BasicBlock {
	// blocks dominated by the case entry: walk back from pred while the
	// predecessor is unique and is not a condition block of the switch
	body := []*ssa.BasicBlock{pred}
	cur := pred
	for len(cur.Preds) == 1 {
		pp := cur.Preds[0]
		if len(pp.Succs) != 1 {
			break
		}
		body = append(body, pp)
		cur = pp
	}
	// plus every block dominated by the case entry block
	entry := cur
	for _, b := range fn.Blocks {
		if b != entry && entry.Dominates(b) && b != join && !join.Dominates(b) {
			dup := false
			for _, x := range body {
				if x == b {
					dup = true
				}
			}
			if !dup {
				body = append(body, b)
			}
		}
	}
	return body
}

// RegexByName indexes the regex variables of a package by pkg.var name.
func RegexByName(m map[*ssa.Global]*RegexVar) map[string]*RegexVar {
	out := map[string]*RegexVar{}
	for _, v := range m {
		out[v.Name] = v
	}
	return out
}

// isChanOf reports whether t is a channel whose element is the named type.
func isChanOf(t types.Type, pkgSuffix, name string) bool {
	ch, ok := t.Underlying().(*types.Chan)
	if !ok {
		return false
	}
	n, ok := ch.Elem().(*types.Named)
	return ok && n.Obj().Name() == name && n.Obj().Pkg() != nil && strings.HasSuffix(n.Obj().Pkg().Path(), pkgSuffix)
}

func init() {
	debugHooks = append(debugHooks, func(p *Prog) {
		if os.Getenv("AMDEBUG") != "dispatch" {
			return
		}
		d := FindDispatch(p)
		if d == nil {
			fmt.Println("DISPATCH none")
			return
		}
		fmt.Println("DISPATCH in", d.Fn.Name(), "rows", len(d.Rows), "default", d.Default)
		for _, r := range d.Rows {
			fmt.Println("  ROW", r.Name(), "inner", r.Inner, "tab", r.TabK)
		}
		for _, pr := range d.Problems {
			fmt.Println("  PROBLEM", pr)
		}
	})
}
