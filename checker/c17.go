package main

import (
	"fmt"
	"regexp/syntax"
	"strings"

	"golang.org/x/tools/go/ssa"
)

func init() { register("C17", "other", checkC17) }

// The three messages in which sshd prints a client-chosen name followed by
// the peer address and port it observed (auth.c / auth2.c / packet.c).
var c17Messages = []struct{ Key, Prefix string }{
	{"invalid user", "Invalid user "},
	{"failed password", "Failed password for "},
	{"maximum attempts", "maximum authentication attempts exceeded for "},
}

func checkC17(c *Check) {
	p := c.P
	c.Explanation = "Syntax-tree conditions on the pattern each of the three entry functions extracts with (the regexes are parsed with regexp/syntax, never run): (1) skeleton  [^] prefix <Username> ' from ' <Source> ' port ' <Port> tail $ ; (2) the Username group is a star/plus over every non-newline character, so no name is rejected; (3) the end is anchored with end-of-text; start anchored by ^ or by the dispatch prefix; (4) the boundary is unambiguous: (A) Source and Port exclude the space character and the tail cannot contain ' from ', or (B) Username is greedy (the leftmost-first matcher then takes the longest name, i.e. the last ' from ', because the genuine remainder 'A port P tail' contains no further ' from ' — A has no space, P is digits); (5) the extracted Source/Port groups of that same regex are routed to source.value / source.extra.port and the emit is unconditional after a match. For these three messages the conditions are sufficient (hand proof in DESIGN.md C17), so the clause is settled for all names."
	c.Rule("skeleton / name-admits-all / end-anchored / start-anchored / boundary-unambiguous / routing / unconditional-emit, per message (floor 3)")
	c.Trust("regexp implements leftmost-first (Perl-like) semantics for greedy and lazy repetition and end-of-text for $ without the m flag", "sshd prints the peer address without spaces and the port in decimal")
	rxm := p.RegexVars(pkgSshd)
	rx := RegexByName(rxm)
	d := FindDispatch(p)
	if !c.Anchor("sshd dispatcher", d != nil) {
		return
	}
	for _, pr := range d.Problems {
		c.Unk("dispatch-table", pr, "-", "dispatch row not understood")
	}
	found := 0
	for _, m := range c17Messages {
		var rv *RegexVar
		for _, v := range sortedRegexVars(rxm) {
			if v.Tree != nil && strings.HasPrefix(v.LeadingLiteral(), m.Prefix) {
				if rv != nil {
					c.Unk("pattern-discovery", "message '"+m.Key+"'", "-", "two patterns start with the message text: "+rv.Name+" and "+v.Name)
				}
				rv = v
			}
		}
		if rv == nil {
			c.Unk("pattern-discovery", "message '"+m.Key+"'", "-", "no compiled pattern begins with \""+m.Prefix+"\": the message is not recognised (or its pattern no longer starts with the message text)")
			continue
		}
		found++
		pos := p.InstrPos(rv.Store)
		name := "message '" + m.Key + "': " + rv.Name
		if rv.Stores != 1 || rv.Err != "" {
			c.Unk("pattern-constant", name, pos, fmt.Sprintf("pattern variable has %d stores / %s", rv.Stores, rv.Err))
			continue
		}
		seq := topSeq(rv.Tree)
		// strip anchors
		begin := len(seq) > 0 && seq[0].Op == syntax.OpBeginText
		end := len(seq) > 0 && seq[len(seq)-1].Op == syntax.OpEndText
		body := seq
		if begin {
			body = body[1:]
		}
		if end {
			body = body[:len(body)-1]
		}
		// locate the three captures at top level
		idx := map[string]int{}
		for i, n := range body {
			if n.Op == syntax.OpCapture && n.Name != "" {
				idx[n.Name] = i
			}
		}
		iu, okU := idx["Username"]
		is, okS := idx["Source"]
		ip, okP := idx["Port"]
		skeleton := okU && okS && okP && iu < is && is < ip
		if skeleton {
			pre, lit := literalText(body[:iu])
			skeleton = lit && pre == m.Prefix
			mid1, l1 := literalText(body[iu+1 : is])
			mid2, l2 := literalText(body[is+1 : ip])
			skeleton = skeleton && l1 && mid1 == " from " && l2 && mid2 == " port "
		}
		c.Cond(skeleton, "skeleton", name, pos, "pattern is prefix <Username> ' from ' <Source> ' port ' <Port> tail", "pattern does not have the shape prefix <Username> ' from ' <Source> ' port ' <Port>: `"+rv.Pattern+"`")
		if !skeleton {
			continue
		}
		un := groupRep(body[iu])
		so := groupRep(body[is])
		po := groupRep(body[ip])
		tail := body[ip+1:]
		c.Cond(un.OK && un.Max < 0 && un.ContainsAllNonNL(), "name-admits-all", name, pos, "Username group is a repetition over every non-newline character", "the Username group rejects some client-chosen names (e.g. names with a space): such an attempt produces no record. Pattern `"+rv.Pattern+"`")
		c.Cond(end, "end-anchored", name, pos, "pattern ends with end-of-text", "pattern is not anchored at the end: text after a forged ' from A port P' fragment inside the name is ignored and the forged address is recorded. Pattern `"+rv.Pattern+"`")
		// start anchoring: ^ or dispatch prefix equal to the literal start
		startOK := begin
		if !startOK {
			for _, row := range d.Rows {
				for _, pd := range row.Pos {
					if pd.Kind == "prefix" && strings.HasPrefix(m.Prefix, pd.Prefix) && usesRegex(p, row.Fn, rv) {
						startOK = true
					}
				}
			}
		}
		c.Cond(startOK, "start-anchored", name, pos, "anchored by ^ or by the dispatch prefix", "pattern may match in the middle of the line")
		// boundary
		tailNoFrom := true
		tailText := ""
		for _, t := range tail {
			if t.Op == syntax.OpLiteral {
				tailText += string(t.Rune)
			} else if canConsume(t, ' ') {
				tailNoFrom = false
			} else {
				tailText += "\x00"
			}
		}
		if strings.Contains(tailText, " from ") {
			tailNoFrom = false
		}
		// the Source group must admit every address sshd can print (any
		// non-space printable character) and Port every digit: otherwise the
		// genuine split can fail and the matcher backtracks to a forged one
		srcAdmits := so.OK
		for r := rune('!'); r <= '~' && srcAdmits; r++ {
			if !so.Contains(r) {
				srcAdmits = false
			}
		}
		portAdmits := po.OK
		for r := rune('0'); r <= '9' && portAdmits; r++ {
			if !po.Contains(r) {
				portAdmits = false
			}
		}
		c.Cond(srcAdmits && portAdmits, "address-groups-admit-genuine-values", name, pos, "Source admits every non-space printable character, Port every digit", "the Source/Port groups reject some genuine peer addresses or ports: the genuine split then fails and an earlier, client-chosen ' from ' can be taken (or the record is dropped). Pattern `"+rv.Pattern+"`")
		condA := so.OK && po.OK && !so.Contains(' ') && !po.Contains(' ') && tailNoFrom && end
		condB := un.OK && un.Greedy && end && tailNoFrom && srcAdmits && portAdmits
		why := ""
		switch {
		case condA:
			why = "(A) Source and Port exclude the space character, tail has no ' from ', end anchored: any match ends at the last ' from '"
		case condB:
			why = "(B) Username is greedy and the pattern is end-anchored: the matcher takes the last ' from ' whose remainder matches, which is the genuine one"
		}
		c.Cond(condA || condB, "boundary-unambiguous", name, pos, why, "a name containing ' from <addr> port <n>' can move the Username/Source boundary: the recorded source address is client-chosen. Pattern `"+rv.Pattern+"`")

		// 5. routing and unconditional emit in the entry function using this regex
		var fn *ssa.Function
		for _, row := range d.Rows {
			if usesRegex(p, row.Fn, rv) {
				fn = row.Fn
			}
		}
		if fn == nil {
			c.Bad("routing", name, pos, "no dispatch entry function extracts with this pattern: the message is not recorded")
			continue
		}
		c.Fn(funcDisplayName(fn))
		sites := 0
		rowOf17 := map[*ssa.Function][]Row{}
		for _, row := range d.Rows {
			rowOf17[row.Fn] = append(rowOf17[row.Fn], row)
		}
		type site17 struct {
			es EmitSite
			hc hctx
		}
		var sites17 []site17
		for _, es := range EmitSites(p) {
			if FuncPkgPath(es.Fn) != ModPath+"/"+pkgSshd {
				continue
			}
			// the emit may sit in a helper called from the entry function
			ctxs, _ := rowContexts(p, es.Fn, rowOf17, 0)
			for _, hc := range ctxs {
				if hc.Entry == fn {
					sites17 = append(sites17, site17{es, hc})
				}
			}
		}
		for _, s17 := range sites17 {
			es, hc := s17.es, s17.hc
			sites++
			ev := ExtractEvent(p, hc.R, es.Event, es.Call)
			sv := ev.EffectiveSrcs(p, "source.value")
			pv := ev.EffectiveSrcs(p, "source.extra.port")
			okv := hasOnlyGroup(sv, rv.Name, "Source")
			okp := hasOnlyGroup(pv, rv.Name, "Port")
			c.Cond(okv && okp, "routing", name+" in "+fn.Name(), p.InstrPos(es.Call), "source.value <- group Source, source.extra.port <- group Port of the same pattern", fmt.Sprintf("recorded source is not the Source/Port group of %s: source.value=%v port=%v", rv.Name, sv, pv))
			// emit unconditional after the match: guards of the emit are only the nil-check of the match
			extra := 0
			// guards of the emit and of every call on the chain from the entry function
			var ats []ssa.Instruction
			ats = append(ats, es.Call)
			for cur := es.Fn; cur != nil && cur != fn; {
				s := hc.R.Site[cur]
				if s == nil {
					break
				}
				ats = append(ats, s)
				cur = s.Parent()
			}
			for _, at := range ats {
				for _, g := range GuardsOf(at) {
					a := atomsOf(g)
					if b, ok := a.V.(*ssa.BinOp); ok {
						if isNilConst(b.Y) || isNilConst(b.X) {
							continue
						}
					}
					extra++
				}
			}
			c.Cond(extra == 0, "unconditional-emit", name+" in "+fn.Name(), p.InstrPos(es.Call), "the emit depends only on the pattern having matched", "the emit is additionally conditional: an attempt can be dropped depending on field contents")
		}
		c.Cond(sites >= 1, "routing", name+": emit site in "+fn.Name(), p.Pos(fn.Pos()), fmt.Sprintf("%d emit site(s)", sites), "entry function has no emit site")
	}
	c.Floor("attacker-facing messages with a pattern", 3, found)
	// the text the patterns see is the whole message as delivered: the line
	// field is set once, from the ingester's message, with nothing cut out
	nst := 0
	for _, fn := range p.AllRepoFuncs() {
		allInstrs(fn, func(in ssa.Instruction) {
			st, ok := in.(*ssa.Store)
			if !ok {
				return
			}
			fa, ok := st.Addr.(*ssa.FieldAddr)
			if !ok || fieldName(fa.X.Type(), fa.Field) != "logEntry" {
				return
			}
			if nt := namedOf(fa.X.Type()); nt == nil || nt.Obj().Name() != "SshdProcessorer" {
				return
			}
			nst++
			a, isAlloc := fa.X.(*ssa.Alloc)
			fresh := isAlloc && len(NewResolver(p).cellStores(a)) == 0
			o := NewResolver(p).Of(st.Val)
			root, names := o.FieldPath()
			whole := root.K == "param" && len(names) == 1 && names[0] == "Message"
			c.Cond(fresh && whole, "line-integrity", "store to SshdProcessorer.logEntry in "+fn.Name(), p.InstrPos(in), "the line field is initialised once with the delivered message", "the text the patterns are matched against is rewritten or cut ("+trimOrg(o.String())+"): client-chosen text inside the message can remove or replace the part sshd appended")
		})
	}
	c.Floor("stores to the line field", 1, nst)
	_ = rx
	// the message the patterns see is the delivered one (not cut or
	// re-spaced on the way from the pipe), and no line is skipped before
	// the dispatcher
	spacingRule(c)
	c.Floor("functions between the ingester callback and the dispatcher", 2, lineReachesDispatcher(c))
	rawJSONFromMarshal(c)
	// a record is complete when it reaches the patterns: an unterminated
	// tail delivered at end of stream ends in client-chosen text (the part
	// sshd appends is missing), rules of C12
	nfr := importRules(c, "C12", checkC12, "whole-records-only: ", "framing-primitive", "read-error-ends-delivery", "once-verbatim-in-order")
	c.Floor("imported whole-records-only obligations", 6, nfr)
}

// rawJSONFromMarshal: raw JSON attached to an event of the sshd processor is
// the output of a JSON marshaller. Text pasted into a JSON document by
// formatting or concatenation is not escaped: a client-chosen name with a
// quote or a backslash makes the document invalid, the event writer refuses
// the event, and the record of the failed attempt is dropped.
func rawJSONFromMarshal(c *Check) {
	p := c.P
	n := 0
	for _, fn := range p.AllRepoFuncs() {
		if !p.InDaemon(fn) || fn.Blocks == nil {
			continue
		}
		r := NewResolver(p)
		allInstrs(fn, func(in ssa.Instruction) {
			var src ssa.Value
			switch x := in.(type) {
			case *ssa.ChangeType:
				if typeName(x.Type()) == "json.RawMessage" {
					src = x.X
				}
			case *ssa.Convert:
				if typeName(x.Type()) == "json.RawMessage" {
					src = x.X
				}
			}
			if src == nil {
				return
			}
			n++
			okAll := true
			what := ""
			for _, a := range r.Of(src).Alts() {
				if a.K == "call" && (a.Name == "encoding/json.Marshal" || a.Name == "encoding/json.MarshalIndent") && a.Idx == 0 {
					continue
				}
				if a.K == "const" || a.K == "zero" {
					continue
				}
				okAll = false
				what = trimOrg(a.String())
			}
			c.Cond(okAll, "unconditional-emit", "raw JSON built in "+fn.Name(), p.InstrPos(in), "output of json.Marshal", "raw JSON attached to an event is built from "+what+", not by a JSON marshaller: client-chosen text in it is not escaped, a name containing a quote or a backslash makes the event unencodable and the failed attempt goes unrecorded")
		})
	}
	c.Floor("raw JSON conversions in the daemon", 1, n)
}

// usesRegex: fn calls FindStringSubmatch on the regex variable.
func usesRegex(p *Prog, fn *ssa.Function, rv *RegexVar) bool {
	used := false
	allInstrs(fn, func(in ssa.Instruction) {
		c, ok := in.(*ssa.Call)
		if !ok {
			return
		}
		sc := staticCallee(c.Common())
		if sc == nil || sc.String() != "(*regexp.Regexp).FindStringSubmatch" {
			return
		}
		if regexGlobalOf(c.Call.Args[0]) == rv.Name {
			used = true
		}
	})
	return used
}

// hasOnlyGroup: the slot holds group g of regex re (an empty-string
// default from the `if idx > -1` idiom is tolerated).
func hasOnlyGroup(srcs []Src, re, g string) bool {
	n := 0
	for _, s := range srcs {
		switch {
		case s.Kind == "group" && s.A == re && s.B == g:
			n++
		case s.Kind == "const" && s.A == "":
		default:
			return false
		}
	}
	return n == 1
}
