package main

import (
	"fmt"
	"go/constant"
	"go/token"
	"go/types"
	"strings"

	"golang.org/x/tools/go/ssa"
)

func init() { register("C18", "other", checkC18) }

const pkgHealth = "internal/health"

func healthConst(p *Prog, name string) (string, bool) {
	pk := p.PackagesPkg(pkgHealth)
	if pk == nil {
		return "", false
	}
	c, ok := pk.Types.Scope().Lookup(name).(*types.Const)
	if !ok || c.Val().Kind() != constant.String {
		return "", false
	}
	return constant.StringVal(c.Val()), true
}

func checkC18(c *Check) {
	p := c.P
	c.Explanation = "Single-critical-section and derived-value rules on package health: (1) registration stores false and the ready-mark stores true under the component key into the one ready map; (2) the status-map builder reads the ready map in exactly one Iterate activation (Len may only size the result); inside that callback the per-component status and the clearing of the overall flag sit on the same edge of the same test of the component's value, the flag starts true, the sweep is full, and the overall entry is derived from the flag; (3) the HTTP handler calls the builder once, selects 200/503 by comparing the overall entry of that very map with the ready constant, encodes that same map, and reads the ready map in no other way; (4) waiting closes its channel only on the true edge of IsReady, sends the context's error on cancellation, and IsReady is one sweep that yields false exactly when some value is false; (5) every raw access to the map holds its mutex, no lock cycle, nothing blocks under the lock."
	c.Rule("register-mark / one-snapshot / flag-and-status-agree / full-sweep / overall-from-flag / status-code-from-same-map / wait-closes-only-when-ready / isready-single-sweep / map-discipline")
	c.Trust("net/http: WriteHeader sets the status code of the response whose body is then encoded", "GenericSyncMap.Iterate holds the map's mutex for the whole sweep (checked: map-discipline)")
	pk := p.RepoPkg(pkgHealth)
	if !c.Anchor("package internal/health", pk != nil) {
		return
	}
	ht := pk.Type("Health")
	if !c.Anchor("type health.Health", ht != nil) {
		return
	}
	overall, ok1 := healthConst(p, "OverallReady")
	ready, ok2 := healthConst(p, "ComponentReady")
	notReady, ok3 := healthConst(p, "ComponentNotReady")
	if !c.Anchor("constants OverallReady/ComponentReady/ComponentNotReady", ok1 && ok2 && ok3) {
		return
	}
	// methods by role
	var builder, handler, waiter, isReady *ssa.Function
	var stores []*ssa.Function
	ms := p.SSA.MethodSets.MethodSet(types.NewPointer(ht.Type()))
	var methods []*ssa.Function
	for i := 0; i < ms.Len(); i++ {
		f := p.SSA.MethodValue(ms.At(i))
		if f == nil || f.Blocks == nil {
			continue
		}
		methods = append(methods, f)
		sig := f.Signature
		switch {
		case sig.Results().Len() == 1 && typeName(sig.Results().At(0).Type()) == "map[string]string":
			builder = f
		case sig.Params().Len() == 2 && strings.Contains(typeName(sig.Params().At(0).Type()), "ResponseWriter"):
			handler = f
		case sig.Results().Len() == 1 && strings.Contains(typeName(sig.Results().At(0).Type()), "chan error"):
			waiter = f
		case sig.Results().Len() == 1 && typeName(sig.Results().At(0).Type()) == "bool" && sig.Params().Len() == 0:
			isReady = f
		}
	}
	if !c.Anchor("status-map builder / HTTP handler / waiter / IsReady methods of Health", builder != nil && handler != nil && waiter != nil && isReady != nil) {
		return
	}
	// walk all methods with the lock walker, collecting map operations
	w := NewLockWalker(p)
	type mop struct {
		EP, Method, Map string
		Ins             ssa.Instruction
		Fn              *ssa.Function
		R               *Resolver
		Args            []ssa.Value
		Cb              *ssa.Function
	}
	var mops []mop
	w.Visit = func(v *VisitCtx) {
		ci, ok := v.Ins.(ssa.CallInstruction)
		if !ok {
			return
		}
		sc := staticCallee(ci.Common())
		if sc == nil {
			return
		}
		if name, ok := w.mapMethod(sc); ok {
			m := mop{EP: v.EP, Method: name, Map: pathRecv(v.R.Of(ci.Common().Args[0])), Ins: v.Ins, Fn: v.Fn, R: v.R, Args: ci.Common().Args}
			for _, a := range ci.Common().Args {
				if mc, ok := a.(*ssa.MakeClosure); ok {
					m.Cb = unwrapBound(mc.Fn.(*ssa.Function))
				}
			}
			mops = append(mops, m)
			if name == "Store" {
				stores = append(stores, v.Fn)
			}
		}
	}
	for _, f := range methods {
		w.RunEntry(f, f.Name())
		c.Fn(funcDisplayName(f))
	}
	mapContract(c)
	// 5. map discipline
	nraw := 0
	for _, e := range w.Events {
		switch e.Kind {
		case "rawmap":
			nraw++
			need := e.What + ".mtx"
			c.Cond(contains(e.Held, need), "map-discipline", fmt.Sprintf("%s: raw %s.%s in %s", e.EP, e.What, e.Detail, e.Fn), e.Pos, "held "+need, "inner map accessed without "+need)
		case "reacquire":
			c.Bad("map-discipline", fmt.Sprintf("%s: %s acquired while held in %s", e.EP, e.What, e.Fn), e.Pos, "self-deadlock: a locking method of the ready map is called from inside its own callback")
		case "block":
			if len(e.Held) > 0 {
				c.Bad("map-discipline", fmt.Sprintf("%s: %s under lock in %s", e.EP, e.What, e.Fn), e.Pos, "blocking operation while holding "+strings.Join(e.Held, ","))
			}
		case "undecided":
			c.Unk("map-discipline", fmt.Sprintf("%s: %s in %s", e.EP, e.What, e.Fn), e.Pos, "unrecognised locking idiom")
		}
	}
	c.Floor("raw accesses to the ready map", 5, nraw)

	// 1. register / mark
	nreg, nmark := 0, 0
	for _, m := range mops {
		if m.Method != "Store" || m.EP != m.Fn.Name() {
			continue
		}
		key := m.R.Of(m.Args[1])
		val := m.R.Of(m.Args[2])
		name := "Store in " + m.Fn.Name()
		keyOK := key.K == "param"
		switch {
		case val.K == "const" && val.Name == "false":
			nreg++
			c.Cond(keyOK, "register-mark", name+" (registration)", p.InstrPos(m.Ins), "stores false under the component name", "registration does not store under the component name parameter")
		case val.K == "const" && val.Name == "true":
			nmark++
			c.Cond(keyOK, "register-mark", name+" (ready-mark)", p.InstrPos(m.Ins), "stores true under the component name", "ready-mark does not store under the component name parameter")
		default:
			c.Bad("register-mark", name, p.InstrPos(m.Ins), "stores a computed value "+trimOrg(val.String())+" into the ready map: registration must store false and the ready-mark true")
		}
	}
	// the registration and the ready-mark are unconditional: a memo, a
	// fast path or a guard in front of the store makes a later mark (after a
	// component was registered again) a no-op
	for _, m := range mops {
		if m.Method != "Store" || m.EP != m.Fn.Name() {
			continue
		}
		site := m.Ins
		fn := site.Parent()
		skip := searchAvoiding(fn, nil, isReturn, func(in ssa.Instruction) bool { return in == site })
		pos := p.InstrPos(m.Ins)
		if skip != nil {
			pos = p.InstrPos(skip)
		}
		c.Cond(skip == nil, "register-mark", "Store in "+m.Fn.Name()+" is unconditional", pos, "every path through "+fn.Name()+" performs the store", fn.Name()+" can return without storing into the ready map (a memo or guard in front of the store): a component registered again and marked again stays not-ready, or a registration is lost")
	}
	c.Cond(nreg >= 1 && nmark >= 1, "register-mark", "registration and ready-mark methods", "-", fmt.Sprintf("%d registration store(s), %d ready-mark store(s)", nreg, nmark), fmt.Sprintf("%d registration store(s) of false and %d ready-mark store(s) of true found", nreg, nmark))
	maps := map[string]bool{}
	for _, m := range mops {
		maps[m.Map] = true
	}
	c.Cond(len(maps) == 1, "register-mark", "one ready map", "-", "all operations address one map", fmt.Sprintf("operations address %d different maps", len(maps)))
	// ... which is a field of the Health object set once, when the object is
	// built: a map that can be allocated or swapped later (lazily, through an
	// accessor) can lose the registrations made on the one it replaced
	for _, m := range mops {
		var alts []*Org
		alts = append(alts, Deref(m.R.Of(m.Args[0]), 0)...)
		for _, a := range alts {
			root, names := a.FieldPath()
			if !(a.K == "field" && root.K == "param" && len(names) >= 1) {
				c.Bad("register-mark", "the ready map used by "+m.Method+" in "+m.Fn.Name(), p.InstrPos(m.Ins), "the map operated on is "+trimOrg(a.String())+", not a field of the Health object: it can be a map allocated or installed after construction, so registrations made on an earlier one are lost and readiness is reported without them")
			}
		}
	}
	nset := 0
	for _, fn := range p.AllRepoFuncs() {
		if FuncPkgPath(fn) != ModPath+"/internal/health" || fn.Blocks == nil {
			continue
		}
		allInstrs(fn, func(in ssa.Instruction) {
			var fa *ssa.FieldAddr
			switch x := in.(type) {
			case *ssa.Store:
				fa, _ = x.Addr.(*ssa.FieldAddr)
			case *ssa.Call:
				// atomic.Pointer / atomic.Value held in the object: Store, Swap, CompareAndSwap
				if sc := staticCallee(x.Common()); sc != nil && strings.HasPrefix(FuncPkgPath(sc), "sync/atomic") && (sc.Name() == "Store" || sc.Name() == "Swap" || sc.Name() == "CompareAndSwap") && len(x.Call.Args) > 0 {
					fa, _ = x.Call.Args[0].(*ssa.FieldAddr)
				}
			}
			if fa == nil {
				return
			}
			nt := namedOf(fa.X.Type())
			if nt == nil || nt.Obj() != ht.Object() {
				return
			}
			ft := typeName(deref(fa.Type()))
			if !strings.Contains(ft, "GenericSyncMap") && !strings.Contains(ft, "map[") && !strings.Contains(ft, "atomic.") {
				return
			}
			nset++
			_, fresh := fa.X.(*ssa.Alloc)
			c.Cond(fresh, "register-mark", "assignment of Health."+fieldName(fa.X.Type(), fa.Field)+" in "+fn.Name(), p.InstrPos(in), "set while the object is being built", "the ready map of an existing Health object is (re)assigned after construction: registrations made before the assignment are lost")
		})
	}
	c.Floor("assignments of the ready map field", 1, nset)

	// 2. one snapshot in the builder
	snapshotRule(c, builder, nil, overall, ready, notReady)

	// 3. handler
	handlerRule(c, handler, builder, nil, overall, ready)

	// 4. waiting
	waitRule(c, waiter, isReady)
	sweepRule(c, isReady, nil)
}

type mopLite struct {
	Method string
	Ins    ssa.Instruction
	Fn     *ssa.Function
	Cb     *ssa.Function
}

func snapshotRule(c *Check, b *ssa.Function, _ []mopLite, overall, ready, notReady string) {
	p := c.P
	r := NewResolver(p)
	name := "builder " + b.Name()
	// map operations made directly or transitively by the builder
	var iters []*ssa.Call
	var others []string
	var scan func(fn *ssa.Function, depth int)
	seen := map[*ssa.Function]bool{}
	lw := NewLockWalker(p)
	scan = func(fn *ssa.Function, depth int) {
		if seen[fn] || depth > 4 {
			return
		}
		seen[fn] = true
		for _, ci := range callsIn(fn) {
			sc := staticCallee(ci.Common())
			if sc == nil {
				continue
			}
			if mname, ok := lw.mapMethod(sc); ok {
				switch mname {
				case "Iterate":
					if cl, ok := ci.(*ssa.Call); ok {
						iters = append(iters, cl)
					}
				case "Len":
					// only as the size hint of the result
					okHint := false
					if v, ok := ci.(ssa.Value); ok && fn == b {
						okHint = flowsOnlyToMakeMapSize(v)
					}
					if !okHint {
						others = append(others, "Len (its result is used for more than sizing the result map)")
					}
				default:
					others = append(others, mname+" in "+fn.Name())
				}
				continue
			}
			if InRepo(sc) && sc.Blocks != nil && sc != b {
				scan(sc, depth+1)
			}
		}
		for _, af := range fn.AnonFuncs {
			scan(af, depth+1)
		}
	}
	scan(b, 0)
	okOne := len(iters) == 1 && len(others) == 0 && iters[0].Parent() == b
	why := fmt.Sprintf("%d Iterate activation(s); other reads of the ready map: %v", len(iters), others)
	c.Cond(okOne, "one-snapshot", name, p.Pos(b.Pos()), "the ready map is read in exactly one Iterate activation (one critical section)", "the status map is assembled from more than one critical section of the ready map ("+why+"): a registration or ready-mark in between makes 'overall' disagree with the listed components")
	if len(iters) == 0 {
		return
	}
	it := iters[0]
	mc, ok := it.Call.Args[1].(*ssa.MakeClosure)
	if !ok {
		c.Unk("one-snapshot", name+": callback", p.InstrPos(it), "Iterate callback is not a closure literal")
		return
	}
	cb := mc.Fn.(*ssa.Function)
	cr := NewResolver(p)
	valueParam := cb.Params[len(cb.Params)-1]
	// flag cell: captured bool stored false in the callback
	var flag *ssa.Alloc
	var falseStore *ssa.Store
	allInstrs(cb, func(in ssa.Instruction) {
		st, ok := in.(*ssa.Store)
		if !ok {
			return
		}
		if k, ok := st.Val.(*ssa.Const); ok && k.Value != nil && k.Value.Kind() == constant.Bool && !constant.BoolVal(k.Value) {
			if o := cr.Of(st.Addr); o.K == "cell" {
				flag = o.V.(*ssa.Alloc)
				falseStore = st
			}
		}
	})
	if flag == nil {
		c.Bad("flag-and-status-agree", name+": overall flag", p.Pos(cb.Pos()), "the callback never clears an overall flag: 'overall' cannot reflect a not-ready component of the same sweep")
		return
	}
	// flag starts true before the sweep; no other stores
	initOK := false
	for _, st := range r.cellStores(flag) {
		if st == falseStore {
			continue
		}
		k, isC := st.Val.(*ssa.Const)
		if isC && k.Value != nil && constant.BoolVal(k.Value) && st.Parent() == b && dominatesInstr(st, it) {
			initOK = true
		} else {
			initOK = false
			break
		}
	}
	c.Cond(initOK, "flag-and-status-agree", name+": overall flag starts true", p.InstrPos(it), "initialised true before the sweep, cleared only in the callback", "the overall flag is not initialised to true before the sweep (or is written elsewhere)")
	// the clearing is guarded by value == false
	guardFalse := func(at ssa.Instruction) (bool, bool) { // (guarded by value false, guarded by value true)
		f, t := false, false
		for _, g := range GuardsOf(at) {
			a := atomsOf(g)
			if a.V == ssa.Value(valueParam) {
				if a.Pos {
					t = true
				} else {
					f = true
				}
			}
		}
		return f, t
	}
	gf, _ := guardFalse(falseStore)
	c.Cond(gf, "flag-and-status-agree", name+": flag cleared exactly for a not-ready component", p.InstrPos(falseStore), "cleared on the edge where the component's value is false", "the overall flag is cleared on a path that does not test the component's value being false")
	// per-component status
	var upd *ssa.MapUpdate
	allInstrs(cb, func(in ssa.Instruction) {
		if mu, ok := in.(*ssa.MapUpdate); ok {
			upd = mu
		}
	})
	if upd == nil {
		c.Bad("flag-and-status-agree", name+": per-component status", p.Pos(cb.Pos()), "the callback does not record per-component statuses")
		return
	}
	ko := cr.Of(upd.Key)
	c.Cond(ko.K == "param", "flag-and-status-agree", name+": status stored under the component's key", p.InstrPos(upd), "key is the callback's key", "status stored under "+trimOrg(ko.String()))
	agree := true
	whyA := ""
	sawReady, sawNot := false, false
	var upds []*ssa.MapUpdate
	allInstrs(cb, func(in ssa.Instruction) {
		if mu, ok := in.(*ssa.MapUpdate); ok {
			upds = append(upds, mu)
		}
	})
	for _, mu := range upds {
		var own []Atom
		for _, g := range GuardsOf(mu) {
			own = append(own, atomsOf(g))
		}
		for _, alt := range condAlts(mu.Value, 0) {
			sv := ""
			if alt.K != nil && alt.K.Value != nil && alt.K.Value.Kind() == constant.String {
				sv = constant.StringVal(alt.K.Value)
			} else {
				agree = false
				whyA = "per-component status is not chosen by the test of the component's value"
				continue
			}
			// polarity of the component's value on this alternative
			t, f := false, false
			for _, a := range append(append([]Atom{}, own...), alt.Conds...) {
				if strip(a.V) == ssa.Value(valueParam) {
					if a.Pos {
						t = true
					} else {
						f = true
					}
				}
			}
			switch sv {
			case notReady:
				sawNot = true
				if !f || t {
					agree = false
					whyA = "'" + notReady + "' is assigned on a path where the component's value is not known to be false"
				}
			case ready:
				sawReady = true
				if !t || f {
					agree = false
					whyA = "'" + ready + "' is assigned on a path where the component's value is not known to be true (or where the flag is cleared)"
				}
			default:
				agree = false
				whyA = "unexpected status constant " + sv
			}
		}
	}
	if agree && !(sawReady && sawNot) {
		agree = false
		whyA = "the callback does not record both statuses"
	}
	c.Cond(agree, "flag-and-status-agree", name+": status and flag on the same edge", p.InstrPos(upd), "not-ready status and flag clearing share the value==false edge; ok status on the value==true edge", whyA)
	// full sweep
	full := true
	allInstrs(cb, func(in ssa.Instruction) {
		if ret, ok := in.(*ssa.Return); ok {
			k, isC := ret.Results[0].(*ssa.Const)
			if !isC || k.Value == nil || !constant.BoolVal(k.Value) {
				full = false
			}
		}
	})
	c.Cond(full, "full-sweep", name+": callback returns true on all paths", p.Pos(cb.Pos()), "every registered component is listed", "the sweep can stop early: components after the first not-ready one are missing from the body")
	// overall entry derived from the flag
	nover := 0
	okOver := true
	whyO := ""
	allInstrs(b, func(in ssa.Instruction) {
		mu, ok := in.(*ssa.MapUpdate)
		if !ok {
			return
		}
		ks, isK := constStr(mu.Key)
		if !isK || ks != overall {
			okOver = false
			whyO = "the builder stores a computed key outside the sweep"
			return
		}
		var own []Atom
		for _, g := range GuardsOf(mu) {
			own = append(own, atomsOf(g))
		}
		if !dominatesInstr(it, mu) {
			okOver = false
			whyO = "the overall entry is stored before the sweep"
		}
		for _, alt := range condAlts(mu.Value, 0) {
			nover++
			vs := ""
			if alt.K != nil && alt.K.Value != nil && alt.K.Value.Kind() == constant.String {
				vs = constant.StringVal(alt.K.Value)
			}
			var flagTrue, flagFalse bool
			for _, a := range append(append([]Atom{}, own...), alt.Conds...) {
				if u, ok := strip(a.V).(*ssa.UnOp); ok && cellOf(r, u) == flag {
					if a.Pos {
						flagTrue = true
					} else {
						flagFalse = true
					}
				}
			}
			if !((vs == ready && flagTrue && !flagFalse) || (vs == notReady && flagFalse && !flagTrue)) {
				okOver = false
				whyO = fmt.Sprintf("overall entry %q is not selected by the flag computed in the sweep", vs)
			}
		}
	})
	c.Cond(okOver && nover == 2, "overall-from-flag", name+": overall entry", p.Pos(b.Pos()), "'ok' when the flag stayed true, 'not-ready' when it was cleared, after the sweep", "the overall entry is not derived from the flag of the same sweep: "+whyO)
}

// flowsOnlyToMakeMapSize: v (possibly through + constant) is used only as the size of a make(map).
func flowsOnlyToMakeMapSize(v ssa.Value) bool {
	rr := v.Referrers()
	if rr == nil {
		return true
	}
	for _, u := range *rr {
		switch x := u.(type) {
		case *ssa.BinOp:
			if !flowsOnlyToMakeMapSize(x) {
				return false
			}
		case *ssa.MakeMap:
			if x.Reserve != v {
				return false
			}
		case *ssa.DebugRef:
		default:
			return false
		}
	}
	return true
}

func handlerRule(c *Check, h, builder *ssa.Function, _ []mopLite, overall, ready string) {
	p := c.P
	name := "handler " + h.Name()
	var calls []*ssa.Call
	otherReads := ""
	lw := NewLockWalker(p)
	for _, ci := range callsIn(h) {
		sc := staticCallee(ci.Common())
		if sc == nil {
			continue
		}
		if sc == builder {
			if cl, ok := ci.(*ssa.Call); ok {
				calls = append(calls, cl)
			}
			continue
		}
		if _, ok := lw.mapMethod(sc); ok {
			otherReads = "calls " + sc.Name() + " on the ready map"
		}
		if InRepo(sc) && sc.Signature.Recv() != nil && namedOf(sc.Signature.Recv().Type()) != nil && namedOf(sc.Signature.Recv().Type()).Obj().Name() == "Health" {
			otherReads = "calls " + sc.Name() + " (a second read of the ready map)"
		}
	}
	c.Cond(len(calls) == 1 && otherReads == "", "status-code-from-same-map", name+": one snapshot per request", p.Pos(h.Pos()), "the builder is called once and the ready map is not read otherwise", fmt.Sprintf("the handler takes %d snapshot(s) and %s: status code and body can come from different states", len(calls), otherReads))
	if len(calls) != 1 {
		return
	}
	m := calls[0]
	// WriteHeader calls
	n200, n503 := 0, 0
	okCode := true
	why := ""
	allInstrs(h, func(in ssa.Instruction) {
		cl, ok := in.(*ssa.Call)
		if !ok || !cl.Common().IsInvoke() || cl.Common().Method.Name() != "WriteHeader" {
			return
		}
		var own []Atom
		for _, g := range GuardsOf(cl) {
			own = append(own, atomsOf(g))
		}
		for _, alt := range condAlts(cl.Call.Args[0], 0) {
			if alt.K == nil || alt.K.Value == nil || alt.K.Value.Kind() != constant.Int {
				okCode = false
				why = "status code is computed"
				continue
			}
			code := alt.K.Int64()
			// condition: lookup(m, overall) == ready
			var pos, found bool
			for _, a := range append(append([]Atom{}, own...), alt.Conds...) {
				b, ok := a.V.(*ssa.BinOp)
				if !ok || (b.Op != token.EQL && b.Op != token.NEQ) {
					continue
				}
				var lk *ssa.Lookup
				var cst ssa.Value
				if l, ok := b.X.(*ssa.Lookup); ok {
					lk, cst = l, b.Y
				} else if l, ok := b.Y.(*ssa.Lookup); ok {
					lk, cst = l, b.X
				}
				if lk == nil || lk.X != ssa.Value(m) {
					continue
				}
				ks, _ := constStr(lk.Index)
				cs, _ := constStr(cst)
				if ks != overall || cs != ready {
					continue
				}
				found = true
				pos = (b.Op == token.EQL) == a.Pos
			}
			switch {
			case !found:
				okCode = false
				why = fmt.Sprintf("status %d is not selected by comparing the overall entry of the snapshot with the ready constant", code)
			case code == 200 && pos:
				n200++
			case code == 503 && !pos:
				n503++
			default:
				okCode = false
				why = fmt.Sprintf("status %d on the wrong edge of the overall test", code)
			}
		}
	})
	c.Cond(okCode && n200 == 1 && n503 == 1, "status-code-from-same-map", name+": 200/503 from the snapshot's overall entry", p.Pos(h.Pos()), "200 iff snapshot[overall] == ok, else 503", "the status code is not derived from the same snapshot as the body: "+why)
	// body is the same map
	bodyOK := false
	allInstrs(h, func(in ssa.Instruction) {
		cl, ok := in.(*ssa.Call)
		if !ok {
			return
		}
		if sc := staticCallee(cl.Common()); sc != nil && sc.String() == "(*encoding/json.Encoder).Encode" {
			if strip(cl.Call.Args[1]) == ssa.Value(m) {
				bodyOK = true
			}
		}
		// json.Marshal(snapshot) whose bytes are written to the response
		if sc := staticCallee(cl.Common()); sc != nil && sc.String() == "encoding/json.Marshal" && len(cl.Call.Args) == 1 && strip(cl.Call.Args[0]) == ssa.Value(m) {
			allInstrs(h, func(in2 ssa.Instruction) {
				wc, ok := in2.(*ssa.Call)
				if !ok || !wc.Common().IsInvoke() || wc.Common().Method.Name() != "Write" || len(wc.Common().Args) != 1 {
					return
				}
				found := false
				var walk func(o *Org, d int)
				walk = func(o *Org, d int) {
					if o == nil || d > 6 || found {
						return
					}
					if o.K == "call" && o.V == ssa.Value(cl) {
						found = true
						return
					}
					if o.K == "call" {
						if c2, ok := o.V.(*ssa.Call); ok {
							for _, a := range c2.Call.Args {
								walk(NewResolver(p).Of(a), d+1)
							}
						}
					}
					for _, s := range o.Sub {
						walk(s, d+1)
					}
				}
				walk(NewResolver(p).Of(wc.Common().Args[0]), 0)
				if found {
					bodyOK = true
				}
			})
		}
	})
	// ... and is rendered into storage of this request only: the response
	// writer itself or a buffer allocated in this activation. A scratch
	// buffer kept in the Health object is shared by overlapping requests
	rr := NewResolver(p)
	allInstrs(h, func(in ssa.Instruction) {
		cl, ok := in.(*ssa.Call)
		if !ok {
			return
		}
		cc := cl.Common()
		var dst ssa.Value
		what := ""
		if sc := staticCallee(cc); sc != nil && sc.String() == "encoding/json.NewEncoder" && len(cc.Args) == 1 {
			dst, what = cc.Args[0], "destination of the JSON encoder"
		} else if cc.IsInvoke() && cc.Method.Name() == "Write" && len(cc.Args) == 1 && typeName(cc.Value.Type()) == "http.ResponseWriter" {
			dst, what = cc.Args[0], "bytes written to the response"
		}
		if dst == nil {
			return
		}
		shared := ""
		var walk func(o *Org, depth int)
		walk = func(o *Org, depth int) {
			if o == nil || depth > 6 || shared != "" {
				return
			}
			if o.K == "field" {
				root, names := o.FieldPath()
				if root.K == "param" && len(h.Params) > 0 && root.V == ssa.Value(h.Params[0]) {
					shared = "field " + strings.Join(names, ".") + " of the Health object"
					return
				}
			}
			if o.K == "global" {
				shared = "package-level variable " + o.Name
				return
			}
			if o.K == "call" {
				if c2, ok := o.V.(*ssa.Call); ok {
					for _, a := range c2.Call.Args {
						walk(rr.Of(a), depth+1)
					}
				}
			}
			for _, sub := range o.Sub {
				walk(sub, depth+1)
			}
		}
		walk(rr.Of(dst), 0)
		c.Cond(shared == "", "status-code-from-same-map", name+": "+what+" belongs to this request", p.InstrPos(in), "the response writer or storage allocated in this activation", "the response is rendered through "+shared+", which overlapping requests share: one request can send its status code with another request's (or a torn) body")
	})
	c.Cond(bodyOK, "status-code-from-same-map", name+": body is the snapshot", p.Pos(h.Pos()), "the encoded body is the map the status code was derived from", "the encoded body is not the snapshot the status code was derived from")
}

func waitRule(c *Check, w, isReady *ssa.Function) {
	p := c.P
	name := "waiter " + w.Name()
	// goroutine closure
	var g *ssa.Function
	allInstrs(w, func(in ssa.Instruction) {
		if gi, ok := in.(*ssa.Go); ok {
			if mc, ok := gi.Call.Value.(*ssa.MakeClosure); ok {
				g = mc.Fn.(*ssa.Function)
			} else if sc := staticCallee(&gi.Call); sc != nil && InRepo(sc) && sc.Blocks != nil {
				g = sc // go o.pollUntilReady(ctx, out): a named function or method
			}
		}
	})
	if g == nil {
		c.Unk("wait-closes-only-when-ready", name, p.Pos(w.Pos()), "no goroutine found")
		return
	}
	c.Fn(funcDisplayName(g))
	ncl := 0
	okClose := true
	allInstrs(g, func(in ssa.Instruction) {
		cl, ok := in.(*ssa.Call)
		if !ok {
			return
		}
		bi, ok := cl.Call.Value.(*ssa.Builtin)
		if !ok || bi.Name() != "close" {
			return
		}
		ncl++
		guarded := false
		for _, gd := range GuardsOf(cl) {
			a := atomsOf(gd)
			if rc, ok := a.V.(*ssa.Call); ok && staticCallee(rc.Common()) == isReady && a.Pos {
				guarded = true
			}
		}
		if !guarded {
			okClose = false
		}
	})
	c.Cond(okClose && ncl >= 1, "wait-closes-only-when-ready", name+": close of the result channel", p.Pos(g.Pos()), "closed only on the true edge of IsReady()", "the readiness channel can be closed although not every component is ready")
	// ctx case sends ctx.Err() and returns
	okCtx := false
	r := NewResolver(p)
	allInstrs(g, func(in ssa.Instruction) {
		sel, ok := in.(*ssa.Select)
		if !ok {
			return
		}
		for k, st := range sel.States {
			if st.Dir == types.RecvOnly && doneRecvOf(st.Chan) != nil {
				cb := selectCaseBlock(sel, k)
				if cb == nil {
					continue
				}
				sent := false
				for _, i2 := range cb.Instrs {
					if s, ok := i2.(*ssa.Send); ok {
						o := r.Of(s.X)
						if o.K == "call" && strings.HasSuffix(o.Name, "Context.Err") {
							sent = true
						}
					}
				}
				if sent && !reachesFromBlock(cb, sel) {
					okCtx = true
				}
			}
		}
	})
	c.Cond(okCtx, "wait-closes-only-when-ready", name+": cancellation", p.Pos(g.Pos()), "the Done() case sends ctx.Err() and returns", "on cancellation the waiter does not yield the context's error and stop")
}

func sweepRule(c *Check, f *ssa.Function, _ []mopLite) {
	p := c.P
	name := "IsReady " + f.Name()
	r := NewResolver(p)
	var iters []*ssa.Call
	other := ""
	lw := NewLockWalker(p)
	for _, ci := range callsIn(f) {
		sc := staticCallee(ci.Common())
		if sc == nil {
			continue
		}
		if mname, ok := lw.mapMethod(sc); ok {
			if mname == "Iterate" {
				if cl, ok := ci.(*ssa.Call); ok {
					iters = append(iters, cl)
				}
			} else {
				other = mname
			}
		}
	}
	if len(iters) != 1 || other != "" {
		c.Bad("isready-single-sweep", name, p.Pos(f.Pos()), fmt.Sprintf("readiness is not computed by one sweep of the ready map (%d Iterate, other reads: %q): it can disagree with the components' registered state", len(iters), other))
		return
	}
	mc, ok := iters[0].Call.Args[1].(*ssa.MakeClosure)
	if !ok {
		c.Unk("isready-single-sweep", name, p.InstrPos(iters[0]), "callback is not a closure literal")
		return
	}
	cb := mc.Fn.(*ssa.Function)
	c.Fn(funcDisplayName(cb))
	cr := NewResolver(p)
	valueParam := cb.Params[len(cb.Params)-1]
	var flag *ssa.Alloc
	var fs *ssa.Store
	allInstrs(cb, func(in ssa.Instruction) {
		if st, ok := in.(*ssa.Store); ok {
			if k, ok := st.Val.(*ssa.Const); ok && k.Value != nil && k.Value.Kind() == constant.Bool && !constant.BoolVal(k.Value) {
				if o := cr.Of(st.Addr); o.K == "cell" {
					flag, fs = o.V.(*ssa.Alloc), st
				}
			}
		}
	})
	if flag == nil {
		c.Bad("isready-single-sweep", name, p.Pos(cb.Pos()), "the sweep never records a not-ready component")
		return
	}
	// cleared exactly when value is false: store guarded by value false, and every path with value false passes the store
	gf := false
	for _, g := range GuardsOf(fs) {
		a := atomsOf(g)
		if a.V == ssa.Value(valueParam) && !a.Pos {
			gf = true
		}
	}
	// find the If on value: its false successor must lead to the store before any return
	allFalse := true
	allInstrs(cb, func(in ssa.Instruction) {
		iff, ok := in.(*ssa.If)
		if !ok {
			return
		}
		a := atomsOf(Guard{If: iff, Cond: iff.Cond, True: true})
		if a.V != ssa.Value(valueParam) {
			return
		}
		falseSucc := iff.Block().Succs[1]
		if !a.Pos {
			falseSucc = iff.Block().Succs[0]
		}
		if miss := blockReachesInstr(falseSucc, isReturn, func(x ssa.Instruction) bool { return x == ssa.Instruction(fs) }); miss != nil {
			allFalse = false
		}
	})
	initOK := false
	for _, st := range r.cellStores(flag) {
		if st == fs {
			continue
		}
		if k, ok := st.Val.(*ssa.Const); ok && k.Value != nil && constant.BoolVal(k.Value) && st.Parent() == f && dominatesInstr(st, iters[0]) {
			initOK = true
		}
	}
	// result is the flag
	retOK := false
	allInstrs(f, func(in ssa.Instruction) {
		if ret, ok := in.(*ssa.Return); ok && len(ret.Results) == 1 {
			if u, ok := ret.Results[0].(*ssa.UnOp); ok && cellOf(r, u) == flag && dominatesInstr(iters[0], ret) {
				retOK = true
			}
		}
	})
	c.Cond(gf && allFalse && initOK && retOK, "isready-single-sweep", name, p.Pos(f.Pos()), "one sweep; result starts true and is cleared exactly when a component's value is false", "IsReady does not yield 'false iff some registered component is not ready' from a single sweep of the ready map")
}
