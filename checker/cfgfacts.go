package main

import (
	"go/token"

	"golang.org/x/tools/go/ssa"
	"golang.org/x/tools/go/ssa/ssautil"
)

// Guard is a branch edge every path to some instruction must take.
type Guard struct {
	If   *ssa.If
	Cond ssa.Value
	True bool // edge taken
}

// reachableBlocks computes the blocks reachable from fn's entry when the
// edge (from -> from.Succs[succ]) is removed (from == nil: nothing removed).
func reachableBlocks(fn *ssa.Function, from *ssa.BasicBlock, succ int) map[*ssa.BasicBlock]bool {
	seen := map[*ssa.BasicBlock]bool{}
	if len(fn.Blocks) == 0 {
		return seen
	}
	var stack []*ssa.BasicBlock
	stack = append(stack, fn.Blocks[0])
	seen[fn.Blocks[0]] = true
	for len(stack) > 0 {
		b := stack[len(stack)-1]
		stack = stack[:len(stack)-1]
		for i, s := range b.Succs {
			if b == from && i == succ {
				// If both successors are the same block the edge cannot be
				// told apart; treat as not removable.
				if len(b.Succs) == 2 && b.Succs[0] == b.Succs[1] {
				} else {
					continue
				}
			}
			if !seen[s] {
				seen[s] = true
				stack = append(stack, s)
			}
		}
	}
	return seen
}

// GuardsOf returns every branch edge that all entry-to-instr paths take
// (on their last visit of the branch).
func GuardsOf(in ssa.Instruction) []Guard {
	fn := in.Parent()
	target := in.Block()
	var out []Guard
	for _, b := range fn.Blocks {
		if len(b.Instrs) == 0 {
			continue
		}
		iff, ok := b.Instrs[len(b.Instrs)-1].(*ssa.If)
		if !ok {
			continue
		}
		if b == target {
			continue
		}
		for e := 0; e < 2; e++ {
			r := reachableBlocks(fn, b, e)
			if !r[target] {
				out = append(out, Guard{If: iff, Cond: iff.Cond, True: e == 0})
			}
		}
	}
	return out
}

// condAtoms decomposes a guard into atomic comparisons, looking through
// boolean negation. Each atom is (binop or value, polarity).
type Atom struct {
	V   ssa.Value
	Pos bool
}

func atomsOf(g Guard) Atom {
	v := g.Cond
	pos := g.True
	for {
		if u, ok := v.(*ssa.UnOp); ok && u.Op == token.NOT {
			v = u.X
			pos = !pos
			continue
		}
		break
	}
	return Atom{v, pos}
}

// predicateAtoms: conditions that hold whenever the boolean function fn
// returns want (necessary conditions of that result), as atoms over fn's own
// values: for every way fn can return want (a constant under its guards, a
// computed value, a phi edge) the guards of that way plus the value's own
// polarity; the result is the intersection over all ways. nil when nothing
// is common or fn is not a simple predicate.
func predicateAtoms(fn *ssa.Function, want bool) []Atom {
	if fn == nil || fn.Blocks == nil {
		return nil
	}
	type key struct {
		v   ssa.Value
		pos bool
	}
	var alts []map[key]bool
	add := func(gs []Guard, extra ...Atom) {
		m := map[key]bool{}
		for _, g := range gs {
			a := atomsOf(g)
			m[key{a.V, a.Pos}] = true
		}
		for _, a := range extra {
			m[key{a.V, a.Pos}] = true
		}
		alts = append(alts, m)
	}
	norm := func(v ssa.Value, pos bool) Atom {
		for {
			if u, ok := v.(*ssa.UnOp); ok && u.Op == token.NOT {
				v, pos = u.X, !pos
				continue
			}
			return Atom{v, pos}
		}
	}
	isConst := func(v ssa.Value) (bool, bool) {
		k, ok := v.(*ssa.Const)
		if !ok || k.Value == nil {
			return false, false
		}
		return k.Value.String() == "true", true
	}
	bad := false
	for _, b := range fn.Blocks {
		if len(b.Instrs) == 0 || b == fn.Recover {
			continue
		}
		ret, ok := b.Instrs[len(b.Instrs)-1].(*ssa.Return)
		if !ok {
			continue
		}
		if len(ret.Results) != 1 {
			return nil
		}
		v := ret.Results[0]
		if cv, isK := isConst(v); isK {
			if cv == want {
				add(GuardsOf(ret))
			}
			continue
		}
		if phi, isPhi := v.(*ssa.Phi); isPhi && phi.Block() == b {
			for i, e := range phi.Edges {
				pred := b.Preds[i]
				last := pred.Instrs[len(pred.Instrs)-1]
				gs := GuardsOf(last)
				var extra []Atom
				if iff, isIf := last.(*ssa.If); isIf && pred.Succs[0] != pred.Succs[1] {
					extra = append(extra, norm(iff.Cond, pred.Succs[0] == b))
				}
				if cv, isK := isConst(e); isK {
					if cv == want {
						add(gs, extra...)
					}
					continue
				}
				add(gs, append(extra, norm(e, want))...)
			}
			continue
		}
		if _, isPhi := v.(*ssa.Phi); isPhi {
			bad = true
			continue
		}
		add(GuardsOf(ret), norm(v, want))
	}
	if bad || len(alts) == 0 {
		return nil
	}
	var out []Atom
	for k := range alts[0] {
		all := true
		for _, m := range alts[1:] {
			if !m[k] {
				all = false
			}
		}
		if all {
			out = append(out, Atom{k.v, k.pos})
		}
	}
	return out
}

// searchAvoiding walks forward from just after `from` (or from the
// function entry when from == nil) and returns the first instruction
// satisfying target that is reachable without executing an instruction
// satisfying barrier. nil when every path is blocked.
func searchAvoiding(fn *ssa.Function, from ssa.Instruction, target, barrier func(ssa.Instruction) bool) ssa.Instruction {
	return searchAvoidingDead(fn, from, target, barrier, nil)
}

// searchAvoidingDead is searchAvoiding that does not follow the edges
// (block, successor index) that dead reports as infeasible.
func searchAvoidingDead(fn *ssa.Function, from ssa.Instruction, target, barrier func(ssa.Instruction) bool, dead func(*ssa.BasicBlock, int) bool) ssa.Instruction {
	type start struct {
		b *ssa.BasicBlock
		i int
	}
	var work []start
	seen := map[*ssa.BasicBlock]bool{}
	if target == nil {
		return nil
	}
	if from == nil {
		if len(fn.Blocks) == 0 {
			return nil
		}
		work = append(work, start{fn.Blocks[0], 0})
		seen[fn.Blocks[0]] = true
	} else {
		b := from.Block()
		for i, in := range b.Instrs {
			if in == from {
				work = append(work, start{b, i + 1})
			}
		}
	}
	for len(work) > 0 {
		s := work[len(work)-1]
		work = work[:len(work)-1]
		blocked := false
		for i := s.i; i < len(s.b.Instrs); i++ {
			in := s.b.Instrs[i]
			if target(in) {
				return in
			}
			if barrier != nil && barrier(in) {
				blocked = true
				break
			}
		}
		if blocked {
			continue
		}
		for si, nx := range s.b.Succs {
			if dead != nil && dead(s.b, si) {
				continue
			}
			if !seen[nx] {
				seen[nx] = true
				work = append(work, start{nx, 0})
			}
		}
	}
	return nil
}

// reachesInstr reports whether b is reachable after a (same function).
func reachesInstr(a, b ssa.Instruction) bool {
	return searchAvoiding(a.Parent(), a, func(in ssa.Instruction) bool { return in == b }, nil) != nil
}

func isReturn(in ssa.Instruction) bool {
	_, ok := in.(*ssa.Return)
	return ok
}

// allInstrs iterates over the instructions of a function.
func allInstrs(fn *ssa.Function, f func(ssa.Instruction)) {
	for _, b := range fn.Blocks {
		for _, in := range b.Instrs {
			f(in)
		}
	}
}

// inLoop reports whether the block of in lies on a CFG cycle.
func inLoop(in ssa.Instruction) bool {
	b := in.Block()
	seen := map[*ssa.BasicBlock]bool{}
	var stack []*ssa.BasicBlock
	for _, s := range b.Succs {
		stack = append(stack, s)
	}
	for len(stack) > 0 {
		x := stack[len(stack)-1]
		stack = stack[:len(stack)-1]
		if x == b {
			return true
		}
		if seen[x] {
			continue
		}
		seen[x] = true
		stack = append(stack, x.Succs...)
	}
	return false
}

// callsIn lists the call instructions (call, go, defer) of a function.
func callsIn(fn *ssa.Function) []ssa.CallInstruction {
	var out []ssa.CallInstruction
	allInstrs(fn, func(in ssa.Instruction) {
		if c, ok := in.(ssa.CallInstruction); ok {
			out = append(out, c)
		}
	})
	return out
}

// NilKind classifies an error-typed origin.
const (
	IsNil    = "nil"
	NonNil   = "nonnil"
	MaybeNil = "maybe"
)

// nilKind classifies the value v as seen at instruction at.
func nilKind(r *Resolver, v ssa.Value, at ssa.Instruction) string {
	o := r.Of(v)
	kinds := map[string]bool{}
	for _, a := range o.Alts() {
		kinds[nilKindOrg(r, a, at)] = true
	}
	if len(kinds) == 1 {
		for k := range kinds {
			return k
		}
	}
	return MaybeNil
}

var nilDepth int

func nilKindOrg(r *Resolver, a *Org, at ssa.Instruction) string {
	switch a.K {
	case "const":
		if c, ok := a.V.(*ssa.Const); ok && c.Value == nil {
			return IsNil
		}
		return NonNil
	case "zero":
		return IsNil
	case "alloc":
		return NonNil
	case "call":
		switch a.Name {
		case "fmt.Errorf", "errors.New":
			return NonNil
		}
		// a repository constructor / helper: the kind common to all its
		// returns for that result (a literal, fmt.Errorf, nil, ...)
		if call, ok := a.V.(*ssa.Call); ok && a.R != nil {
			if sc := staticCallee(call.Common()); sc != nil && InRepo(sc) && sc.Blocks != nil {
				idx := a.Idx
				if idx < 0 {
					idx = 0
				}
				nr := a.R.Bind(sc, call)
				kind := ""
				allInstrs(sc, func(in ssa.Instruction) {
					ret, isRet := in.(*ssa.Return)
					if !isRet || idx >= len(ret.Results) || ret.Block() == sc.Recover {
						return
					}
					k := MaybeNil
					if nilDepth < 4 {
						nilDepth++
						k = nilKind(nr, ret.Results[idx], ret)
						// the result of calling a function-typed parameter:
						// what the closure given at this call site returns
						rv := ret.Results[idx]
						if _, isLoad := rv.(*ssa.UnOp); isLoad {
							if u := fsUnique(rv, ret, nil); u != nil {
								rv = u // a result spilled because of defer
							}
						}
						if rc, isCall := rv.(*ssa.Call); isCall && k == MaybeNil {
							if prm, isPrm := rc.Call.Value.(*ssa.Parameter); isPrm {
								if co := nr.Of(prm); co.K == "closure" {
									if mc, isMC := co.V.(*ssa.MakeClosure); isMC {
										cf := mc.Fn.(*ssa.Function)
										ck := ""
										cr := NewResolver(r.P)
										allInstrs(cf, func(ci ssa.Instruction) {
											if cret, isR := ci.(*ssa.Return); isR && len(cret.Results) == 1 {
												x := nilKind(cr, cret.Results[0], cret)
												if ck == "" {
													ck = x
												} else if ck != x {
													ck = MaybeNil
												}
											}
										})
										if ck != "" {
											k = ck
										}
									}
								}
							}
						}
						nilDepth--
					}
					if kind == "" {
						kind = k
					} else if kind != k {
						kind = MaybeNil
					}
				})
				if kind == NonNil || kind == IsNil {
					return kind
				}
			}
		}
	}
	// guarded by a dominating comparison with nil?
	if at != nil {
		for _, g := range GuardsOf(at) {
			at := atomsOf(g)
			b, ok := at.V.(*ssa.BinOp)
			if !ok || (b.Op != token.NEQ && b.Op != token.EQL) {
				continue
			}
			var other ssa.Value
			if isNilConst(b.Y) {
				other = b.X
			} else if isNilConst(b.X) {
				other = b.Y
			} else {
				continue
			}
			oo := r.Of(other)
			if sameValue(oo, a) {
				nonnil := (b.Op == token.NEQ) == at.Pos
				if nonnil {
					return NonNil
				}
				return IsNil
			}
		}
	}
	return MaybeNil
}

func isNilConst(v ssa.Value) bool {
	c, ok := v.(*ssa.Const)
	return ok && c.Value == nil
}

// sameValue: two origins denote the same run-time value (same SSA value
// after stripping representation changes, or same call result).
func sameValue(a, b *Org) bool {
	if a == nil || b == nil {
		return false
	}
	if a.K != b.K {
		return false
	}
	switch a.K {
	case "call":
		return a.V == b.V && a.Idx == b.Idx
	case "param", "alloc", "global", "closure", "func":
		return a.V == b.V
	case "const":
		return a.Name == b.Name
	case "field":
		return a.Name == b.Name && sameValue(a.Sub[0], b.Sub[0])
	case "index", "lookup":
		return sameValue(a.Sub[0], b.Sub[0]) && sameValue(a.Sub[1], b.Sub[1])
	case "range":
		return a.Name == b.Name && sameValue(a.Sub[0], b.Sub[0])
	}
	return a.V != nil && a.V == b.V
}

// fsValues: flow-sensitive resolution of a value that may be a load of a
// local memory cell (an address-taken or captured local, a result spilled
// because of defer): the values stored to the cell that can reach the load,
// followed through chains of such copies. A nil element stands for "the
// cell's initial content (or a write outside this function)". When via is
// non-nil only paths through block via are considered up to via (used to
// ask "what does this load yield when control came through that edge").
// Writes by called functions and goroutines are not modelled.
func fsValues(x ssa.Value, at ssa.Instruction, via *ssa.BasicBlock) []ssa.Value {
	return fsValuesVia(x, at, via, nil, nil)
}

func forwardReach(b *ssa.BasicBlock) map[*ssa.BasicBlock]bool {
	allowed := map[*ssa.BasicBlock]bool{b: true}
	work := []*ssa.BasicBlock{b}
	for len(work) > 0 {
		c := work[len(work)-1]
		work = work[:len(work)-1]
		for _, s := range c.Succs {
			if !allowed[s] {
				allowed[s] = true
				work = append(work, s)
			}
		}
	}
	return allowed
}

// fsValuesVia: as fsValues, considering only paths that (walking forwards)
// pass through block origin (if given), then enter block via through the
// edge edgeFrom->via (if edgeFrom is given), then reach the load.
func fsValuesVia(x ssa.Value, at ssa.Instruction, via, edgeFrom, origin *ssa.BasicBlock) []ssa.Value {
	seen := map[ssa.Value]bool{}
	var out []ssa.Value
	add := func(v ssa.Value) {
		if !seen[v] {
			seen[v] = true
			out = append(out, v)
		}
	}
	var allowedVia, allowedOrg map[*ssa.BasicBlock]bool
	if via != nil {
		allowedVia = forwardReach(via)
	}
	if origin != nil {
		allowedOrg = forwardReach(origin)
	}
	// phase 0: before reaching via (walking backwards); 1: between via and origin; 2: free
	var resolve func(v ssa.Value, phase int, depth int)
	resolve = func(v ssa.Value, phase int, depth int) {
		ld, ok := v.(*ssa.UnOp)
		if !ok || ld.Op != token.MUL || depth > 6 {
			add(v)
			return
		}
		switch ld.X.(type) {
		case *ssa.Alloc, *ssa.FreeVar:
		default:
			add(v)
			return
		}
		cell := ld.X
		fn := ld.Parent()
		type pos struct {
			b     *ssa.BasicBlock
			i     int
			phase int
		}
		visited := map[[2]interface{}]bool{}
		var work []pos
		idx := len(ld.Block().Instrs)
		for i, in := range ld.Block().Instrs {
			if in == ssa.Instruction(ld) {
				idx = i
			}
		}
		ph := phase
		if via == nil && ph == 0 {
			ph = 1
		}
		if origin == nil && ph == 1 {
			ph = 2
		}
		work = append(work, pos{ld.Block(), idx, ph})
		for len(work) > 0 {
			p := work[len(work)-1]
			work = work[:len(work)-1]
			found := false
			for i := p.i - 1; i >= 0; i-- {
				if st, ok := p.b.Instrs[i].(*ssa.Store); ok && st.Addr == cell {
					resolve(st.Val, p.phase, depth+1)
					found = true
					break
				}
			}
			if found {
				continue
			}
			phase := p.phase
			onlyPred := (*ssa.BasicBlock)(nil)
			if phase == 0 && p.b == via {
				phase = 1
				onlyPred = edgeFrom
				if origin == nil {
					phase = 2
				}
			}
			if phase == 1 && p.b == origin {
				phase = 2
			}
			if len(p.b.Preds) == 0 && p.b == fn.Blocks[0] {
				if phase == 2 || (phase == 1 && origin == nil) {
					add(nil)
				}
				continue
			}
			for _, pr := range p.b.Preds {
				if onlyPred != nil && pr != onlyPred {
					continue
				}
				if phase == 0 && !allowedVia[pr] {
					continue
				}
				if phase == 1 && allowedOrg != nil && !allowedOrg[pr] {
					continue
				}
				k := [2]interface{}{pr, phase}
				if visited[k] {
					continue
				}
				visited[k] = true
				work = append(work, pos{pr, len(pr.Instrs), phase})
			}
		}
	}
	resolve(x, 0, 0)
	return out
}

// fsUnique: the single value a (possibly cell-loaded) value certainly is.
func fsUnique(x ssa.Value, at ssa.Instruction, via *ssa.BasicBlock) ssa.Value {
	vs := fsValues(x, at, via)
	if len(vs) == 1 && vs[0] != nil {
		return vs[0]
	}
	return nil
}

// CAlt is one way a value can be a constant: the constant and the branch
// conditions (atoms) under which the value is that constant.
type CAlt struct {
	V     ssa.Value  // the leaf value of this alternative
	K     *ssa.Const // nil: not a constant on this alternative
	Conds []Atom
	// table alternatives (value read from a read-only package-level map):
	// the key expression, and the constant it equals on this alternative
	// (Miss: the key is none of the table's keys)
	Key      ssa.Value
	KeyConst *ssa.Const
	Miss     bool
	Lookup   *ssa.Lookup
	// Env: parameters of helpers the alternative passed through -> the
	// caller's argument values (to interpret operands of Conds and Key)
	Env map[ssa.Value]ssa.Value
}

// Arg: v, or the caller's argument it stands for when v is a parameter of a
// helper the alternative passed through.
func (a CAlt) Arg(v ssa.Value) ssa.Value {
	for i := 0; i < 4; i++ {
		w, ok := a.Env[v]
		if !ok {
			return v
		}
		v = w
	}
	return v
}

// readOnlyTable: the constant entries of a package-level map variable that is
// assigned once, in the package initialiser, from a literal with constant
// keys and values, and never written afterwards. ok=false otherwise.
func readOnlyTable(g *ssa.Global) (keys, vals []*ssa.Const, ok bool) {
	if g.Pkg == nil {
		return nil, nil, false
	}
	var mk *ssa.MakeMap
	nstore := 0
	for _, m := range g.Pkg.Members {
		fn, isFn := m.(*ssa.Function)
		if !isFn {
			continue
		}
		var fns []*ssa.Function
		fns = append(fns, fn)
		fns = append(fns, fn.AnonFuncs...)
		for _, f := range fns {
			for _, b := range f.Blocks {
				for _, in := range b.Instrs {
					switch x := in.(type) {
					case *ssa.Store:
						if x.Addr == ssa.Value(g) {
							nstore++
							if f.Name() != "init" {
								return nil, nil, false
							}
							mk, _ = x.Val.(*ssa.MakeMap)
						}
					case *ssa.MapUpdate:
						if ld, isLd := x.Map.(*ssa.UnOp); isLd && ld.X == ssa.Value(g) {
							return nil, nil, false
						}
					case *ssa.Call:
						if bi, isB := x.Call.Value.(*ssa.Builtin); isB && bi.Name() == "delete" && len(x.Call.Args) > 0 {
							if ld, isLd := x.Call.Args[0].(*ssa.UnOp); isLd && ld.X == ssa.Value(g) {
								return nil, nil, false
							}
						}
					}
				}
			}
		}
	}
	// methods of the package are not Members: scan them through the program
	for fn := range ssaAllFuncsOf(g.Pkg) {
		for _, b := range fn.Blocks {
			for _, in := range b.Instrs {
				switch x := in.(type) {
				case *ssa.Store:
					if x.Addr == ssa.Value(g) && fn.Name() != "init" {
						return nil, nil, false
					}
				case *ssa.MapUpdate:
					if ld, isLd := x.Map.(*ssa.UnOp); isLd && ld.X == ssa.Value(g) {
						return nil, nil, false
					}
				}
			}
		}
	}
	if nstore != 1 || mk == nil {
		return nil, nil, false
	}
	refs := mk.Referrers()
	if refs == nil {
		return nil, nil, false
	}
	for _, u := range *refs {
		switch x := u.(type) {
		case *ssa.MapUpdate:
			k, isK := x.Key.(*ssa.Const)
			v, isV := x.Value.(*ssa.Const)
			if !isK || !isV {
				return nil, nil, false
			}
			keys = append(keys, k)
			vals = append(vals, v)
		case *ssa.Store, *ssa.DebugRef:
		default:
			return nil, nil, false
		}
	}
	return keys, vals, len(keys) > 0
}

var ssaFuncsByPkg map[*ssa.Package]map[*ssa.Function]bool

func ssaAllFuncsOf(pkg *ssa.Package) map[*ssa.Function]bool {
	if ssaFuncsByPkg == nil {
		ssaFuncsByPkg = map[*ssa.Package]map[*ssa.Function]bool{}
	}
	if m, ok := ssaFuncsByPkg[pkg]; ok {
		return m
	}
	m := map[*ssa.Function]bool{}
	for fn := range ssautil.AllFunctions(pkg.Prog) {
		if fn.Pkg == pkg && fn.Blocks != nil {
			m[fn] = true
		}
	}
	ssaFuncsByPkg[pkg] = m
	return m
}

// condAlts enumerates the constants a value can be together with the
// conditions selecting each: constants; phi edges (guards of the edge);
// results of a repository function (per return, the function's guards, with
// atoms on its parameters translated to the caller's arguments). extra are
// the guards of the instruction using the value.
func condAlts(v ssa.Value, depth int) []CAlt {
	norm := func(v ssa.Value, pos bool) Atom {
		for {
			if u, ok := v.(*ssa.UnOp); ok && u.Op == token.NOT {
				v, pos = u.X, !pos
				continue
			}
			return Atom{v, pos}
		}
	}
	v = strip(v)
	tableAlts := func(lk *ssa.Lookup) []CAlt {
		ld, ok := lk.X.(*ssa.UnOp)
		if !ok || ld.Op != token.MUL {
			return nil
		}
		g, ok := ld.X.(*ssa.Global)
		if !ok {
			return nil
		}
		keys, vals, ok := readOnlyTable(g)
		if !ok {
			return nil
		}
		var out []CAlt
		for i := range keys {
			out = append(out, CAlt{K: vals[i], Key: lk.Index, KeyConst: keys[i], Lookup: lk})
		}
		// none of the keys: the zero value
		out = append(out, CAlt{K: ssa.NewConst(nil, vals[0].Type()), Key: lk.Index, Miss: true, Lookup: lk})
		return out
	}
	switch x := v.(type) {
	case *ssa.Const:
		return []CAlt{{K: x, V: x}}
	case *ssa.Lookup:
		if alts := tableAlts(x); alts != nil {
			return alts
		}
		return []CAlt{{V: v}}
	case *ssa.Extract:
		if lk, ok := x.Tuple.(*ssa.Lookup); ok && x.Index == 0 {
			if alts := tableAlts(lk); alts != nil {
				return alts
			}
		}
		return []CAlt{{V: v}}
	case *ssa.Phi:
		if depth > 4 {
			return []CAlt{{V: v}}
		}
		var out []CAlt
		for i, e := range x.Edges {
			pred := x.Block().Preds[i]
			last := pred.Instrs[len(pred.Instrs)-1]
			var conds []Atom
			for _, g := range GuardsOf(last) {
				conds = append(conds, atomsOf(g))
			}
			if iff, ok := last.(*ssa.If); ok && pred.Succs[0] != pred.Succs[1] {
				conds = append(conds, norm(iff.Cond, pred.Succs[0] == x.Block()))
			}
			for _, sub := range condAlts(e, depth+1) {
				// a table alternative under the lookup's own presence flag
				if sub.Lookup != nil {
					skip := false
					for _, a := range conds {
						if ex, ok := a.V.(*ssa.Extract); ok && ex.Tuple == ssa.Value(sub.Lookup) && ex.Index == 1 {
							if a.Pos == sub.Miss {
								skip = true
							}
						}
					}
					if skip {
						continue
					}
				}
				na := sub
				na.Conds = append(append([]Atom{}, conds...), sub.Conds...)
				out = append(out, na)
			}
		}
		return out
	case *ssa.Call:
		sc := staticCallee(x.Common())
		if sc == nil || !InRepo(sc) || sc.Blocks == nil || sc.Signature.Results().Len() != 1 || depth > 3 {
			return []CAlt{{V: v}}
		}
		var out []CAlt
		translate := func(a Atom) Atom {
			if prm, ok := a.V.(*ssa.Parameter); ok && prm.Parent() == sc {
				for i, q := range sc.Params {
					if q == prm && i < len(x.Call.Args) {
						return norm(x.Call.Args[i], a.Pos)
					}
				}
			}
			return a
		}
		allInstrs(sc, func(in ssa.Instruction) {
			ret, ok := in.(*ssa.Return)
			if !ok || len(ret.Results) != 1 {
				return
			}
			var conds []Atom
			for _, g := range GuardsOf(ret) {
				conds = append(conds, translate(atomsOf(g)))
			}
			for _, sub := range condAlts(ret.Results[0], depth+1) {
				alt := sub
				alt.Conds = append([]Atom{}, conds...)
				for _, a := range sub.Conds {
					alt.Conds = append(alt.Conds, translate(a))
				}
				alt.Env = map[ssa.Value]ssa.Value{}
				for k, v := range sub.Env {
					alt.Env[k] = v
				}
				for i, q := range sc.Params {
					if i < len(x.Call.Args) {
						alt.Env[q] = x.Call.Args[i]
					}
				}
				out = append(out, alt)
			}
		})
		if len(out) == 0 {
			return []CAlt{{V: v}}
		}
		return out
	}
	return []CAlt{{V: v}}
}
