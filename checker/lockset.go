package main

import (
	"fmt"
	"go/token"
	"go/types"
	"sort"
	"strings"

	"golang.org/x/tools/go/ssa"
)

// Analysis E: must-lockset / atomicity / lock-order walker.
//
// The walker abstractly executes an entry point, inlining every
// repository callee (static calls, closures passed as arguments, and
// dynamically dispatched calls resolved through the call graph) with the
// caller's abstract lock state. Abstract locks are access paths rooted at
// the entry point's receiver ("recv.mu", "recv.sessIDsToUsers.mtx").

type LState struct {
	Held map[string]bool // must-held locks
	Acq  map[string]int  // may-count of acquisitions so far on some path (saturates at 2)
	May  map[string]bool // locks held on at least one path reaching this point (may-held)
}

func newLState() LState {
	return LState{Held: map[string]bool{}, Acq: map[string]int{}, May: map[string]bool{}}
}

func (s LState) clone() LState {
	n := newLState()
	for k := range s.Held {
		n.Held[k] = true
	}
	for k, v := range s.Acq {
		n.Acq[k] = v
	}
	for k := range s.May {
		n.May[k] = true
	}
	return n
}

func (s LState) key() string {
	h := s.heldList()
	var a []string
	for k, v := range s.Acq {
		a = append(a, fmt.Sprintf("%s=%d", k, v))
	}
	sort.Strings(a)
	var m []string
	for k := range s.May {
		m = append(m, k)
	}
	sort.Strings(m)
	return strings.Join(h, ",") + "|" + strings.Join(a, ",") + "|" + strings.Join(m, ",")
}

func (s LState) heldList() []string {
	var h []string
	for k := range s.Held {
		h = append(h, k)
	}
	sort.Strings(h)
	return h
}

// join: intersection of held, max of acquisition counts.
func joinL(a, b LState) LState {
	n := newLState()
	for k := range a.Held {
		if b.Held[k] {
			n.Held[k] = true
		}
	}
	for k, v := range a.Acq {
		n.Acq[k] = v
	}
	for k, v := range b.Acq {
		if v > n.Acq[k] {
			n.Acq[k] = v
		}
	}
	for k := range a.May {
		n.May[k] = true
	}
	for k := range b.May {
		n.May[k] = true
	}
	return n
}

// LEvent is something the walker observed.
type LEvent struct {
	Kind   string // acquire release mapop rawmap field block reacquire secondcs call-ext undecided go
	What   string // lock / map path / field path / callee
	Detail string
	Held   []string
	Pos    string
	Fn     string
	Stack  []string
	EP     string
	Write  bool
}

// GAtom is a branch condition known to hold at an instruction, with its
// operands resolved in the inlining context where it was met.
type GAtom struct {
	Pos bool      // polarity: the condition value is true
	V   ssa.Value // condition (negations stripped)
	Op  string    // binop operator, "call" or "value"
	X   *Org
	Y   *Org
	R   *Resolver
	// Expanded: the atom is a predicate-helper call or a table test whose
	// implied conditions follow it in the list (rules that require an exact
	// set of conditions judge those, not the call itself)
	Expanded bool
}

func (g GAtom) String() string {
	sign := ""
	if !g.Pos {
		sign = "!"
	}
	switch g.Op {
	case "call", "value":
		return sign + "(" + trimOrg(g.X.String()) + ")"
	}
	return sign + "(" + trimOrg(g.X.String()) + " " + g.Op + " " + trimOrg(g.Y.String()) + ")"
}

// VisitCtx is what a visitor sees for every instruction of the inlined cone.
type VisitCtx struct {
	Fn     *ssa.Function
	R      *Resolver
	Ins    ssa.Instruction
	Held   []string
	Stack  []string
	Guards []GAtom           // guards of the enclosing call chain + of the instruction
	Frames []ssa.Instruction // call instructions of the enclosing call chain (outermost first)
	EP     string
	W      *LockWalker
}

type LockWalker struct {
	Visit    func(*VisitCtx)
	gstack   [][]GAtom
	fstack   []ssa.Instruction
	P        *Prog
	Events   []LEvent
	Visited  map[*ssa.Function]bool
	EP       string
	mutexLk  types.Object
	mutexUl  types.Object
	rwLk     []types.Object
	rwUl     []types.Object
	SharedT  map[string]bool // named struct types (pkg.Name) whose field accesses are shared accesses
	MapType  string          // origin type name of the locked map ("GenericSyncMap")
	depth    int
	closures map[*ssa.MakeClosure]*Resolver
	inprog   map[string]bool
	memo     map[string]LState
	ExtCalls map[string][]string // external callee -> held locks (for the thorough re-entry check)
	extFns   map[*ssa.Function]bool
}

func NewLockWalker(p *Prog) *LockWalker {
	w := &LockWalker{P: p, Visited: map[*ssa.Function]bool{}, SharedT: map[string]bool{}, MapType: "GenericSyncMap",
		closures: map[*ssa.MakeClosure]*Resolver{}, inprog: map[string]bool{}, memo: map[string]LState{}, ExtCalls: map[string][]string{}, extFns: map[*ssa.Function]bool{}}
	w.mutexLk = p.ExtObj("sync", "Mutex", "Lock")
	w.mutexUl = p.ExtObj("sync", "Mutex", "Unlock")
	for _, n := range []string{"Lock", "RLock"} {
		w.rwLk = append(w.rwLk, p.ExtObj("sync", "RWMutex", n))
	}
	for _, n := range []string{"Unlock", "RUnlock"} {
		w.rwUl = append(w.rwUl, p.ExtObj("sync", "RWMutex", n))
	}
	return w
}

func (w *LockWalker) isLock(cc *ssa.CallCommon) bool {
	if isCalleeObj(cc, w.mutexLk) {
		return true
	}
	for _, o := range w.rwLk {
		if isCalleeObj(cc, o) {
			return true
		}
	}
	return false
}

func (w *LockWalker) isUnlock(cc *ssa.CallCommon) bool {
	if isCalleeObj(cc, w.mutexUl) {
		return true
	}
	for _, o := range w.rwUl {
		if isCalleeObj(cc, o) {
			return true
		}
	}
	return false
}

func (w *LockWalker) ev(rec bool, e LEvent) {
	if !rec {
		return
	}
	e.EP = w.EP
	w.Events = append(w.Events, e)
}

// RunEntry analyses one entry point. recv is bound to the name "recv".
func (w *LockWalker) RunEntry(fn *ssa.Function, name string) {
	w.EP = name
	r := NewResolver(w.P)
	if len(fn.Params) > 0 && fn.Signature.Recv() != nil {
		r.Env[fn.Params[0]] = &Org{K: "param", V: fn.Params[0], Name: "recv"}
	}
	w.analyze(fn, r, newLState(), true, []string{name})
}

// lockName renders the lock operand of a Lock/Unlock call.
func lockName(r *Resolver, cc *ssa.CallCommon) string {
	if len(cc.Args) == 0 {
		return "?"
	}
	return strings.ReplaceAll(r.Of(cc.Args[0]).String(), "P(recv)", "recv")
}

func pathName(o *Org) string { return strings.ReplaceAll(o.String(), "P(recv)", "recv") }

// mapMethod reports whether fn is a method of the locked-map type declared in the repo.
func (w *LockWalker) mapMethod(fn *ssa.Function) (string, bool) {
	g := fn
	if g.Origin() != nil {
		g = g.Origin()
	}
	if g.Signature.Recv() == nil || !InRepo(g) {
		return "", false
	}
	t := deref(g.Signature.Recv().Type())
	if n, ok := t.(*types.Named); ok && n.Obj().Name() == w.MapType {
		return g.Name(), true
	}
	return "", false
}

func namedOf(t types.Type) *types.Named {
	t = deref(t)
	n, _ := t.(*types.Named)
	return n
}

// analyze abstractly executes fn from entry state `in` and returns the
// state at its exits (join over returns). When rec is set, events are
// recorded during the final pass.
func (w *LockWalker) analyze(fn *ssa.Function, r *Resolver, in LState, rec bool, stack []string) LState {
	if fn.Blocks == nil {
		return in
	}
	if len(stack) > 24 {
		w.ev(rec, LEvent{Kind: "undecided", What: "inlining depth exceeded", Fn: fn.String(), Stack: stack})
		return in
	}
	envk := envKey(r, fn)
	mk := fmt.Sprintf("%p|%s|%s", fn, in.key(), envk)
	if !rec {
		if out, ok := w.memo[mk]; ok {
			return out
		}
	}
	ipk := mk + fmt.Sprint(rec)
	if w.inprog[ipk] {
		w.ev(rec, LEvent{Kind: "undecided", What: "recursive call in lock cone", Fn: fn.String(), Stack: stack})
		return in
	}
	w.inprog[ipk] = true
	defer delete(w.inprog, ipk)
	w.Visited[fn] = true

	// defers of this function in source order
	var defers []*ssa.Defer
	allInstrs(fn, func(i ssa.Instruction) {
		if d, ok := i.(*ssa.Defer); ok {
			defers = append(defers, d)
		}
	})

	blockIn := map[*ssa.BasicBlock]LState{}
	blockOut := map[*ssa.BasicBlock]LState{}
	have := map[*ssa.BasicBlock]bool{}
	blockIn[fn.Blocks[0]] = in.clone()
	have[fn.Blocks[0]] = true
	var exit LState
	haveExit := false

	transfer := func(b *ssa.BasicBlock, st LState, record bool) LState {
		st = st.clone()
		for _, ins := range b.Instrs {
			st = w.step(fn, r, ins, st, record, stack, defers)
		}
		return st
	}
	// fixpoint
	for iter := 0; iter < 50; iter++ {
		changed := false
		for _, b := range fn.Blocks {
			if b == fn.Recover {
				continue
			}
			if !have[b] {
				continue
			}
			out := transfer(b, blockIn[b], false)
			if old, ok := blockOut[b]; !ok || old.key() != out.key() {
				blockOut[b] = out
				changed = true
			}
			for _, s := range b.Succs {
				if !have[s] {
					blockIn[s] = out.clone()
					have[s] = true
					changed = true
				} else {
					j := joinL(blockIn[s], out)
					if j.key() != blockIn[s].key() {
						blockIn[s] = j
						changed = true
					}
				}
			}
		}
		if !changed {
			break
		}
	}
	// final pass
	for _, b := range fn.Blocks {
		if b == fn.Recover || !have[b] {
			continue
		}
		out := transfer(b, blockIn[b], rec)
		if len(b.Instrs) > 0 {
			if _, ok := b.Instrs[len(b.Instrs)-1].(*ssa.Return); ok {
				if !haveExit {
					exit = out
					haveExit = true
				} else {
					exit = joinL(exit, out)
				}
			}
		}
	}
	if !haveExit {
		exit = in // function never returns (infinite loop): nothing continues after it
	}
	if !rec {
		w.memo[mk] = exit
	}
	return exit
}

func envKey(r *Resolver, fn *ssa.Function) string {
	var parts []string
	for _, p := range fn.Params {
		if o, ok := r.Env[p]; ok {
			parts = append(parts, p.Name()+"="+o.String())
		}
	}
	for _, fv := range fn.FreeVars {
		parts = append(parts, fv.Name()+"="+r.Of(fv).String())
	}
	return strings.Join(parts, ";")
}

func (w *LockWalker) step(fn *ssa.Function, r *Resolver, ins ssa.Instruction, st LState, rec bool, stack []string, defers []*ssa.Defer) LState {
	pos := w.P.InstrPos(ins)
	fname := funcDisplayName(fn)
	if rec && w.Visit != nil {
		if _, isRD := ins.(*ssa.RunDefers); !isRD {
			if _, isDefer := ins.(*ssa.Defer); !isDefer {
				w.Visit(&VisitCtx{Fn: fn, R: r, Ins: ins, Held: st.heldList(), Stack: stack, Guards: append(w.ctxGuards(), guardAtoms(r, ins)...), Frames: append([]ssa.Instruction{}, w.fstack...), EP: w.EP, W: w})
			}
		}
	}
	switch x := ins.(type) {
	case *ssa.MakeClosure:
		w.closures[x] = r
	case *ssa.Call:
		return w.call(fn, r, x, x.Common(), st, rec, stack)
	case *ssa.Go:
		// a new goroutine starts with no locks held
		w.ev(rec, LEvent{Kind: "go", What: calleeName(x.Common()), Pos: pos, Fn: fname, Held: st.heldList(), Stack: stack})
		w.call(fn, r, x, x.Common(), newLState(), rec, append(stack, "go"))
		return st
	case *ssa.Defer:
		// effect happens at rundefers
	case *ssa.RunDefers:
		for i := len(defers) - 1; i >= 0; i-- {
			d := defers[i]
			cc := d.Common()
			if w.isUnlock(cc) {
				if !dominatesInstr(d, ins) {
					// conditionally deferred unlock: only sound to release if registered
					if reachesInstr(d, ins) {
						w.ev(rec, LEvent{Kind: "undecided", What: "conditionally deferred unlock " + lockName(r, cc), Pos: w.P.InstrPos(d), Fn: fname, Stack: stack})
					}
					continue
				}
				ln := lockName(r, cc)
				if !st.Held[ln] {
					w.ev(rec, LEvent{Kind: "undecided", What: "deferred unlock of a lock not held: " + ln, Pos: w.P.InstrPos(d), Fn: fname, Stack: stack})
				}
				delete(st.Held, ln)
				delete(st.May, ln)
				w.ev(rec, LEvent{Kind: "release", What: ln, Pos: w.P.InstrPos(d), Fn: fname, Held: st.heldList(), Stack: stack, Detail: "deferred"})
				continue
			}
			if !reachesInstr(d, ins) {
				continue
			}
			if rec && w.Visit != nil {
				w.Visit(&VisitCtx{Fn: fn, R: r, Ins: d, Held: st.heldList(), Stack: append(stack, "defer"), Guards: append(w.ctxGuards(), guardAtoms(r, d)...), EP: w.EP, W: w})
			}
			st = w.call(fn, r, d, cc, st, rec, append(stack, "defer"))
		}
	case *ssa.Send:
		w.ev(rec, LEvent{Kind: "block", What: "channel send", Pos: pos, Fn: fname, Held: st.heldList(), Stack: stack})
	case *ssa.UnOp:
		if x.Op == token.ARROW {
			w.ev(rec, LEvent{Kind: "block", What: "channel receive", Pos: pos, Fn: fname, Held: st.heldList(), Stack: stack})
		}
		w.fieldAccess(r, x, st, rec, stack, fname)
	case *ssa.Select:
		if x.Blocking {
			w.ev(rec, LEvent{Kind: "block", What: "blocking select", Pos: pos, Fn: fname, Held: st.heldList(), Stack: stack})
		}
	case *ssa.Store:
		w.fieldAccess(r, x, st, rec, stack, fname)
	case *ssa.MapUpdate:
		w.rawMap(r, x.Map, x, st, rec, stack, fname, true)
	case *ssa.Lookup:
		w.rawMap(r, x.X, x, st, rec, stack, fname, false)
	case *ssa.Range:
		w.rawMap(r, x.X, x, st, rec, stack, fname, false)
	}
	return st
}

// rawMap records a direct access to the map stored in a locked-map struct.
func (w *LockWalker) rawMap(r *Resolver, m ssa.Value, ins ssa.Instruction, st LState, rec bool, stack []string, fname string, write bool) {
	o := r.Of(m)
	if o.K != "field" {
		return
	}
	base := o.Sub[0]
	// is the base a value of the locked-map type?
	var bt types.Type
	switch v := o.V.(type) {
	case *ssa.UnOp:
		if fa, ok := v.X.(*ssa.FieldAddr); ok {
			bt = fa.X.Type()
		}
	case *ssa.FieldAddr:
		bt = v.X.Type()
	case *ssa.Field:
		bt = v.X.Type()
	}
	if bt == nil {
		return
	}
	n := namedOf(bt)
	if n == nil || n.Obj().Name() != w.MapType {
		return
	}
	w.ev(rec, LEvent{Kind: "rawmap", What: pathName(base), Detail: o.Name, Pos: w.P.InstrPos(ins), Fn: fname, Held: st.heldList(), Stack: stack, Write: write})
}

// fieldAccess records reads/writes of fields of shared struct types.
func (w *LockWalker) fieldAccess(r *Resolver, ins ssa.Instruction, st LState, rec bool, stack []string, fname string) {
	var addr ssa.Value
	write := false
	switch x := ins.(type) {
	case *ssa.UnOp:
		if x.Op != token.MUL {
			return
		}
		addr = x.X
	case *ssa.Store:
		addr = x.Addr
		write = true
	}
	fa, ok := addr.(*ssa.FieldAddr)
	if !ok {
		return
	}
	n := namedOf(fa.X.Type())
	if n == nil || n.Obj().Pkg() == nil {
		return
	}
	if !w.SharedT[n.Obj().Pkg().Path()+"."+n.Obj().Name()] {
		return
	}
	o := r.Of(fa)
	w.ev(rec, LEvent{Kind: "field", What: pathName(o), Detail: n.Obj().Name() + "." + o.Name, Pos: w.P.InstrPos(ins), Fn: fname, Held: st.heldList(), Stack: stack, Write: write})
}

var blockingExternals = map[string]string{
	"time.Sleep":                               "sleep",
	"(*sync.WaitGroup).Wait":                   "WaitGroup.Wait",
	"(*sync.Cond).Wait":                        "Cond.Wait",
	"(*golang.org/x/sync/errgroup.Group).Wait": "errgroup.Wait",
}

// syncHigherOrder: external functions known to call their function
// arguments synchronously, on the calling goroutine, before returning.
func syncHigherOrder(f *ssa.Function) bool {
	switch FuncPkgPath(f) {
	case "github.com/cenkalti/backoff/v4":
		return strings.HasPrefix(f.Name(), "Retry")
	case "sort":
		return f.Name() == "Slice" || f.Name() == "SliceStable" || f.Name() == "Search"
	case "sync":
		return f.Name() == "Do"
	case "strings", "bytes":
		return strings.HasSuffix(f.Name(), "Func") || f.Name() == "Map"
	}
	return false
}

// retryExternal: library retry loops (sleep between attempts).
func retryExternal(f *ssa.Function) string {
	if FuncPkgPath(f) == "github.com/cenkalti/backoff/v4" && strings.HasPrefix(f.Name(), "Retry") {
		return "retry loop " + f.Name() + " (sleeps between attempts)"
	}
	return ""
}

func (w *LockWalker) call(fn *ssa.Function, r *Resolver, ins ssa.Instruction, cc *ssa.CallCommon, st LState, rec bool, stack []string) LState {
	pos := w.P.InstrPos(ins)
	fname := funcDisplayName(fn)
	if w.isLock(cc) {
		ln := lockName(r, cc)
		if st.Held[ln] {
			w.ev(rec, LEvent{Kind: "reacquire", What: ln, Pos: pos, Fn: fname, Held: st.heldList(), Stack: stack})
		} else if st.May[ln] {
			// held on some path reaching this acquisition (e.g. on the first
			// visit of a loop body whose later visits follow a release)
			w.ev(rec, LEvent{Kind: "reacquire", What: ln, Pos: pos, Fn: fname, Held: st.heldList(), Stack: stack, Detail: "may"})
		}
		if st.Acq[ln] >= 1 {
			w.ev(rec, LEvent{Kind: "secondcs", What: ln, Pos: pos, Fn: fname, Held: st.heldList(), Stack: stack})
		}
		shared := ""
		if sc := staticCallee(cc); sc != nil && sc.Name() == "RLock" {
			shared = "shared"
		}
		w.ev(rec, LEvent{Kind: "acquire", What: ln, Pos: pos, Fn: fname, Held: st.heldList(), Stack: stack, Detail: shared})
		st = st.clone()
		st.Held[ln] = true
		st.May[ln] = true
		if st.Acq[ln] < 2 {
			st.Acq[ln]++
		}
		return st
	}
	if w.isUnlock(cc) {
		if _, isDefer := ins.(*ssa.Defer); isDefer {
			return st
		}
		ln := lockName(r, cc)
		st = st.clone()
		if !st.Held[ln] {
			w.ev(rec, LEvent{Kind: "undecided", What: "unlock of a lock not (must-)held: " + ln, Pos: pos, Fn: fname, Stack: stack})
		}
		delete(st.Held, ln)
		delete(st.May, ln)
		w.ev(rec, LEvent{Kind: "release", What: ln, Pos: pos, Fn: fname, Held: st.heldList(), Stack: stack})
		return st
	}
	// builtins on raw maps: delete(m.m, k), len(m.m)
	if b, ok := cc.Value.(*ssa.Builtin); ok {
		if (b.Name() == "delete" || b.Name() == "len") && len(cc.Args) > 0 {
			w.rawMap(r, cc.Args[0], ins, st, rec, stack, fname, b.Name() == "delete")
		}
		return st
	}
	// resolve callees
	var callees []*ssa.Function
	var closureEnv *Resolver
	var closureMC *ssa.MakeClosure
	if sc := staticCallee(cc); sc != nil {
		callees = []*ssa.Function{sc}
		if mc, ok := cc.Value.(*ssa.MakeClosure); ok {
			closureMC = mc
			closureEnv = r
		}
	} else if !cc.IsInvoke() {
		o := r.Of(cc.Value)
		for _, a := range o.Alts() {
			switch a.K {
			case "closure":
				mc := a.V.(*ssa.MakeClosure)
				callees = append(callees, mc.Fn.(*ssa.Function))
				closureMC = mc
				closureEnv = w.closures[mc]
			case "func":
				if f, ok := a.V.(*ssa.Function); ok {
					callees = append(callees, f)
				}
			case "const", "zero":
				// nil function value: no call
			default:
				callees = append(callees, w.cgCallees(ins)...)
			}
		}
	} else {
		callees = w.cgCallees(ins)
	}
	if len(callees) == 0 {
		w.ev(rec, LEvent{Kind: "call-ext", What: calleeName(cc), Pos: pos, Fn: fname, Held: st.heldList(), Stack: stack, Detail: "unresolved"})
		return st
	}
	var out LState
	first := true
	for _, cal := range callees {
		var res LState
		if what, ok := blockingExternals[cal.String()]; ok {
			w.ev(rec, LEvent{Kind: "block", What: what, Pos: pos, Fn: fname, Held: st.heldList(), Stack: stack})
		}
		if !InRepo(cal) || cal.Blocks == nil {
			if rec {
				w.ExtCalls[cal.String()] = st.heldList()
				w.extFns[cal] = true
			}
			w.ev(rec, LEvent{Kind: "call-ext", What: cal.String(), Pos: pos, Fn: fname, Held: st.heldList(), Stack: stack})
			res = st
			if what := retryExternal(cal); what != "" {
				w.ev(rec, LEvent{Kind: "block", What: what, Pos: pos, Fn: fname, Held: st.heldList(), Stack: stack})
			}
			if syncHigherOrder(cal) {
				// the library calls the function arguments synchronously on
				// the caller's goroutine: they run under the caller's locks
				for _, a := range cc.Args {
					if _, isSig := a.Type().Underlying().(*types.Signature); !isSig {
						continue
					}
					for _, alt := range r.Of(a).Alts() {
						var f *ssa.Function
						src := r
						switch alt.K {
						case "closure":
							mc := alt.V.(*ssa.MakeClosure)
							f = mc.Fn.(*ssa.Function)
							if e := w.closures[mc]; e != nil {
								src = e
							}
						case "func":
							f, _ = alt.V.(*ssa.Function)
						}
						if f == nil || !InRepo(f) || f.Blocks == nil {
							continue
						}
						nr := NewResolver(w.P)
						for k, v := range src.Env {
							nr.Env[k] = v
						}
						w.gstack = append(w.gstack, guardAtoms(r, ins))
						w.fstack = append(w.fstack, ins)
						w.analyze(f, nr, st, rec, append(append([]string{}, stack...), funcDisplayName(f)))
						w.gstack = w.gstack[:len(w.gstack)-1]
						w.fstack = w.fstack[:len(w.fstack)-1]
					}
				}
			}
		} else {
			// build callee resolver
			nr := NewResolver(w.P)
			src := r
			if closureMC != nil && cal == closureMC.Fn && closureEnv != nil {
				src = closureEnv
			}
			for k, v := range src.Env {
				nr.Env[k] = v
			}
			if src != r {
				for k, v := range r.Env {
					if _, ok := nr.Env[k]; !ok {
						nr.Env[k] = v
					}
				}
			}
			args := cc.Args
			if cc.IsInvoke() {
				args = append([]ssa.Value{cc.Value}, cc.Args...)
			}
			for i, p := range cal.Params {
				if i < len(args) {
					nr.Env[p] = r.Of(args[i])
				}
			}
			// a bound-method wrapper (method value used as a callback): its
			// free variable is the receiver bound where the method value was made
			if closureMC != nil && cal == closureMC.Fn && cal.Parent() == nil {
				for i, fv := range cal.FreeVars {
					if i < len(closureMC.Bindings) {
						nr.Env[fv] = src.Of(closureMC.Bindings[i])
					}
				}
			}
			if name, ok := w.mapMethod(cal); ok && len(args) > 0 {
				w.ev(rec, LEvent{Kind: "mapop", What: pathName(r.Of(args[0])), Detail: name, Pos: pos, Fn: fname, Held: st.heldList(), Stack: stack})
			}
			w.gstack = append(w.gstack, guardAtoms(r, ins))
			w.fstack = append(w.fstack, ins)
			res = w.analyze(cal, nr, st, rec, append(append([]string{}, stack...), funcDisplayName(cal)))
			w.gstack = w.gstack[:len(w.gstack)-1]
			w.fstack = w.fstack[:len(w.fstack)-1]
		}
		if first {
			out = res
			first = false
		} else {
			out = joinL(out, res)
		}
	}
	return out
}

// cgCallees resolves a dynamic call through the call graph.
func (w *LockWalker) cgCallees(ins ssa.Instruction) []*ssa.Function {
	g := w.P.VTA()
	if useCHA {
		g = w.P.CHA()
	}
	n := g.Nodes[ins.Parent()]
	if n == nil {
		return nil
	}
	var out []*ssa.Function
	seen := map[*ssa.Function]bool{}
	for _, e := range n.Out {
		if e.Site == ins && !seen[e.Callee.Func] {
			seen[e.Callee.Func] = true
			out = append(out, e.Callee.Func)
		}
	}
	sort.Slice(out, func(i, j int) bool { return out[i].String() < out[j].String() })
	return out
}

// guardAtoms renders the guards of an instruction in resolver r. A guard
// that is the result of a repository predicate function is expanded into
// the conditions that result implies (resolved in the predicate with its
// parameters bound to the caller's arguments).
func guardAtoms(r *Resolver, ins ssa.Instruction) []GAtom {
	var out []GAtom
	for _, g := range GuardsOf(ins) {
		a := atomsOf(g)
		ga := mkGAtom(r, a)
		ex := append(expandPredicate(r, a, 0), expandTable(r, a)...)
		ga.Expanded = len(ex) > 0
		out = append(out, ga)
		out = append(out, ex...)
	}
	return out
}

func mkGAtom(r *Resolver, a Atom) GAtom {
	ga := GAtom{Pos: a.Pos, V: a.V, R: r}
	switch x := a.V.(type) {
	case *ssa.BinOp:
		ga.Op = x.Op.String()
		ga.X, ga.Y = r.Of(x.X), r.Of(x.Y)
	case *ssa.Call:
		ga.Op = "call"
		ga.X = r.Of(x)
	default:
		ga.Op = "value"
		ga.X = r.Of(a.V)
	}
	return ga
}

func expandPredicate(r *Resolver, a Atom, depth int) []GAtom {
	cl, ok := a.V.(*ssa.Call)
	if !ok || depth > 2 {
		return nil
	}
	sc := staticCallee(cl.Common())
	if sc == nil || !InRepo(sc) || sc.Blocks == nil {
		return nil
	}
	res := sc.Signature.Results()
	if res.Len() != 1 {
		return nil
	}
	if b, isB := res.At(0).Type().Underlying().(*types.Basic); !isB || b.Kind() != types.Bool {
		return nil
	}
	nr := NewResolver(r.P)
	for k, v := range r.Env {
		nr.Env[k] = v
	}
	for i, prm := range sc.Params {
		if i < len(cl.Call.Args) {
			nr.Env[prm] = r.Of(cl.Call.Args[i])
		}
	}
	var out []GAtom
	for _, pa := range predicateAtoms(sc, a.Pos) {
		out = append(out, mkGAtom(nr, pa))
		out = append(out, expandPredicate(nr, pa, depth+1)...)
	}
	return out
}

func (w *LockWalker) ctxGuards() []GAtom {
	var out []GAtom
	for _, g := range w.gstack {
		out = append(out, g...)
	}
	return out
}

// expandTable: a guard comparing an entry of a read-only package-level
// table with a constant, table[k] == C (or a presence test), implies a
// condition on the key: when exactly one key maps to C, k == that key; when
// the guard excludes C, k differs from every key mapping to C. The implied
// conditions are synthesised as atoms over the key's origin.
func expandTable(r *Resolver, a Atom) []GAtom {
	// a boolean table entry used as the condition itself: table[k] (== true)
	if l, isLk := strip(a.V).(*ssa.Lookup); isLk && !l.CommaOk {
		if bt, isB := l.Type().Underlying().(*types.Basic); isB && bt.Kind() == types.Bool {
			if ld, ok := l.X.(*ssa.UnOp); ok {
				if g, ok := ld.X.(*ssa.Global); ok {
					if keys, vals, ok := readOnlyTable(g); ok {
						ko := r.Of(l.Index)
						var out []GAtom
						var trues []*ssa.Const
						for i := range keys {
							if vals[i].Value != nil && vals[i].Value.ExactString() == "true" {
								trues = append(trues, keys[i])
							}
						}
						if a.Pos && len(trues) == 1 {
							out = append(out, GAtom{Pos: true, V: a.V, Op: "==", X: ko, Y: r.Of(trues[0]), R: r})
						}
						if !a.Pos {
							for _, k := range trues {
								out = append(out, GAtom{Pos: false, V: a.V, Op: "==", X: ko, Y: r.Of(k), R: r})
							}
						}
						return out
					}
				}
			}
		}
		return nil
	}
	b, ok := a.V.(*ssa.BinOp)
	if !ok || (b.Op != token.EQL && b.Op != token.NEQ) {
		return nil
	}
	var lk *ssa.Lookup
	var cst *ssa.Const
	pick := func(x, y ssa.Value) {
		if l, ok := strip(x).(*ssa.Lookup); ok {
			if k, ok := y.(*ssa.Const); ok {
				lk, cst = l, k
			}
		}
	}
	pick(b.X, b.Y)
	if lk == nil {
		pick(b.Y, b.X)
	}
	if lk == nil || cst == nil || cst.Value == nil {
		return nil
	}
	ld, ok := lk.X.(*ssa.UnOp)
	if !ok {
		return nil
	}
	g, ok := ld.X.(*ssa.Global)
	if !ok {
		return nil
	}
	keys, vals, ok := readOnlyTable(g)
	if !ok {
		return nil
	}
	eq := (b.Op == token.EQL) == a.Pos
	var match []*ssa.Const
	for i := range keys {
		if vals[i].Value != nil && vals[i].Value.ExactString() == cst.Value.ExactString() {
			match = append(match, keys[i])
		}
	}
	ko := r.Of(lk.Index)
	var out []GAtom
	mk := func(k *ssa.Const, pos bool) GAtom {
		return GAtom{Pos: pos, V: a.V, Op: "==", X: ko, Y: r.Of(k), R: r}
	}
	if eq {
		// the zero value may also equal C when the key is missing: only
		// decidable when C is not the zero value
		zero := cst.Value.ExactString() == "0" || cst.Value.ExactString() == "\"\"" || cst.Value.ExactString() == "false"
		if len(match) == 1 && !zero {
			out = append(out, mk(match[0], true))
		}
	} else {
		for _, k := range match {
			out = append(out, mk(k, false))
		}
	}
	return out
}
