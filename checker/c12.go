package main

import (
	"fmt"
	"go/token"
	"go/types"
	"strings"

	"golang.org/x/tools/go/ssa"
)

func init() { register("C12", "other", checkC12) }

func checkC12(c *Check) {
	p := c.P
	c.Explanation = "Loop-shape rules on the pipe ingester: (1) records are produced by the accumulating bufio.Reader.ReadString/ReadBytes (ReadSlice/ReadLine/Scanner are bounded by the buffer and flagged); (2) the reader is created once, before the loop, and is the reader the loop reads from (buffered bytes are never discarded); (3) on the non-nil edge of the read error the function returns a non-nil error without calling the callback again (the unterminated tail and end-of-stream are never delivered or ignored), and a non-nil callback result is returned as that very value; (4) exactly one callback call per iteration, only on the nil-error edge of the read, whose string argument is the very read result (at most stripped of the delimiter). The 'any chunking' clause rests on ReadString's contract (trusted)."
	c.Rule("framing-primitive / reader-outlives-loop / read-error-ends-delivery / callback-error-returned-unchanged / once-verbatim-in-order")
	c.Trust("bufio.Reader.ReadString accumulates across short reads and internal-buffer boundaries and returns data+delimiter with a nil error, or the data read so far with a non-nil error")
	entry := p.Method("ingesters/namedpipe", "NamedPipeIngester", "Ingest")
	if !c.Anchor("(*namedpipe.NamedPipeIngester).Ingest", entry != nil) {
		return
	}
	c.Fn(funcDisplayName(entry))
	isCbParam := func(prm *ssa.Parameter) bool {
		sig, ok := prm.Type().Underlying().(*types.Signature)
		return ok && sig.Params().Len() == 2 && isStringish(sig.Params().At(1).Type())
	}
	// the function holding the read loop: Ingest itself, or a helper of the
	// package that Ingest hands its callback parameter to (static call
	// chain, the callback passed on unchanged)
	ing := entry
	var cbParam *ssa.Parameter
	for _, prm := range entry.Params {
		if isCbParam(prm) {
			cbParam = prm
		}
	}
	if !c.Anchor("callback parameter of Ingest", cbParam != nil) {
		return
	}
	callsParam := func(fn *ssa.Function, prm *ssa.Parameter) bool {
		found := false
		allInstrs(fn, func(in ssa.Instruction) {
			if cl, ok := in.(*ssa.Call); ok && cl.Call.Value == ssa.Value(prm) {
				found = true
			}
		})
		return found
	}
	var handOff []ssa.CallInstruction // calls on the chain Ingest -> loop function
	for depth := 0; depth < 3 && !callsParam(ing, cbParam); depth++ {
		var nextFn *ssa.Function
		var nextPrm *ssa.Parameter
		var site ssa.CallInstruction
		n := 0
		for _, ci := range callsIn(ing) {
			sc := staticCallee(ci.Common())
			if sc == nil || !InRepo(sc) || sc.Blocks == nil {
				continue
			}
			for i, a := range ci.Common().Args {
				if a == ssa.Value(cbParam) && i < len(sc.Params) {
					n++
					nextFn, nextPrm, site = sc, sc.Params[i], ci
				}
			}
		}
		if n != 1 {
			break
		}
		if _, isDefer := site.(*ssa.Defer); isDefer {
			break
		}
		if _, isGo := site.(*ssa.Go); isGo {
			c.Bad("once-verbatim-in-order", "read loop started with go", p.InstrPos(site), "the read loop runs in another goroutine than Ingest: its result is not Ingest's result")
			return
		}
		handOff = append(handOff, site)
		ing, cbParam = nextFn, nextPrm
		c.Fn(funcDisplayName(ing))
	}
	// Ingest returns the loop function's result unchanged
	for _, site := range handOff {
		v, isVal := site.(ssa.Value)
		okRet := false
		if isVal {
			fl := &errFlow{p: p, seen: map[ssa.Value]bool{}}
			fl.follow(v, 0)
			okRet = len(fl.Returned) > 0
			if inLoop(site) {
				okRet = false
			}
		}
		c.Cond(okRet, "read-error-ends-delivery", "result of the read-loop helper "+calleeName(site.Common())+" in "+site.Parent().Name(), p.InstrPos(site), "returned to the caller, called once", "the result of the function holding the read loop is dropped (or it is called in a loop): a read or callback error does not end the ingester")
	}
	r := NewResolver(p)
	var cbCalls []*ssa.Call
	allInstrs(ing, func(in ssa.Instruction) {
		if cl, ok := in.(*ssa.Call); ok && cl.Call.Value == ssa.Value(cbParam) {
			cbCalls = append(cbCalls, cl)
		}
	})
	// also calls from closures of the loop function
	for _, af := range ing.AnonFuncs {
		allInstrs(af, func(in ssa.Instruction) {
			if cl, ok := in.(ssa.CallInstruction); ok {
				if o := r.Of(cl.Common().Value); o.K == "param" && o.V == ssa.Value(cbParam) {
					c.Bad("once-verbatim-in-order", "callback invoked from closure "+af.Name(), p.InstrPos(in), "the callback is invoked outside the read loop's goroutine: order and once-per-record are not structural any more")
				}
			}
		})
	}
	// the loop function does not hand the callback to yet another function:
	// an alternative delivery loop (behind an option, a flag) would deliver
	// records outside the framing loop that the rules below examine
	if rr := cbParam.Referrers(); rr != nil {
		for _, u := range *rr {
			ci, isCall := u.(ssa.CallInstruction)
			if !isCall || ci.Common().Value == ssa.Value(cbParam) {
				continue
			}
			for _, a := range ci.Common().Args {
				if a == ssa.Value(cbParam) {
					c.Bad("once-verbatim-in-order", "callback handed to "+calleeName(ci.Common())+" in "+ing.Name(), p.InstrPos(ci), "besides its own read loop the function passes the callback on to another function: records can be delivered by a second loop (an optional mode) whose framing, order and error handling are not those of the read loop")
				}
			}
		}
	}
	c.Floor("callback call sites in Ingest", 1, len(cbCalls))
	// 1. framing primitives in the package
	nread := 0
	for _, fn := range p.AllRepoFuncs() {
		if FuncPkgPath(fn) != ModPath+"/ingesters/namedpipe" {
			continue
		}
		allInstrs(fn, func(in ssa.Instruction) {
			cl, ok := in.(*ssa.Call)
			if !ok {
				return
			}
			sc := staticCallee(cl.Common())
			if sc == nil {
				return
			}
			switch sc.String() {
			case "(*bufio.Reader).ReadString", "(*bufio.Reader).ReadBytes":
				nread++
				c.OK("framing-primitive", sc.String()+" in "+fn.Name(), p.InstrPos(in), "accumulating read up to the delimiter, unbounded record length")
			case "(*bufio.Reader).ReadSlice", "(*bufio.Reader).ReadLine", "(*bufio.Scanner).Scan", "(*bufio.Reader).Read", "(*os.File).Read", "(*bufio.Reader).ReadRune", "(*bufio.Reader).ReadByte":
				c.Bad("framing-primitive", sc.String()+" in "+fn.Name(), p.InstrPos(in), "records are framed with a primitive that is bounded by the internal buffer (or re-implements framing by hand): a record longer than the buffer is split, truncated or aliased, and a partial record may be delivered")
			}
		})
	}
	c.Floor("accumulating framing reads", 1, nread)
	// 1b. the pipe is opened for reading only: a descriptor that is also a
	// writer of the FIFO never observes end-of-stream
	nopen := 0
	// the functions of the ingester's package, plus the repository helpers
	// they call statically (the open step may live in a shared package)
	openFns := map[*ssa.Function]bool{}
	for _, fn := range p.AllRepoFuncs() {
		if FuncPkgPath(fn) == ModPath+"/ingesters/namedpipe" {
			openFns[fn] = true
		}
	}
	for depth := 0; depth < 2; depth++ {
		for fn := range openFns {
			for _, ci := range callsIn(fn) {
				if sc := staticCallee(ci.Common()); sc != nil && InRepo(sc) && sc.Blocks != nil && p.InDaemon(sc) {
					openFns[sc] = true
					for _, af := range sc.AnonFuncs {
						openFns[af] = true
					}
				}
			}
		}
	}
	for _, fn := range p.AllRepoFuncs() {
		if !openFns[fn] {
			continue
		}
		allInstrs(fn, func(in ssa.Instruction) {
			cl, ok := in.(*ssa.Call)
			if !ok {
				return
			}
			sc := staticCallee(cl.Common())
			if sc == nil {
				return
			}
			switch sc.String() {
			case "os.Open":
				nopen++
				c.OK("end-of-stream-observable", "os.Open in "+fn.Name(), p.InstrPos(in), "read-only open")
			case "os.OpenFile":
				nopen++
				k, isK := cl.Call.Args[1].(*ssa.Const)
				if !isK || k.Value == nil {
					c.Unk("end-of-stream-observable", "os.OpenFile in "+fn.Name(), p.InstrPos(in), "open flags are not a constant")
					return
				}
				const accMode = 0x3 // O_WRONLY|O_RDWR on linux
				c.Cond(k.Int64()&accMode == 0, "end-of-stream-observable", "os.OpenFile in "+fn.Name(), p.InstrPos(in), fmt.Sprintf("flags %#x: read-only", k.Int64()), fmt.Sprintf("the pipe is opened with flags %#x (write access): the ingester itself counts as a writer of the FIFO, so the kernel never reports end-of-stream when the real writer goes away and the end of the stream is ignored instead of returned as an error", k.Int64()))
			}
		})
	}
	c.Floor("opens of the pipe", 1, nopen)
	if len(cbCalls) == 0 {
		return
	}
	cb := cbCalls[0]
	if len(cbCalls) > 1 {
		c.Bad("once-verbatim-in-order", "callback call sites", p.Pos(ing.Pos()), fmt.Sprintf("%d callback call sites: a record can be delivered more than once, out of order, or without being a complete record", len(cbCalls)))
		// continue with the site that receives the read result on the nil edge, if any
		for _, cand := range cbCalls {
			for _, a := range cand.Call.Args {
				if isStringish(a.Type()) {
					if rd, _ := recordVerbatim(r, a, 0); rd != nil {
						cb = cand
					}
				}
			}
		}
	}
	// the record argument
	var arg ssa.Value
	for _, a := range cb.Call.Args {
		if isStringish(a.Type()) {
			arg = a
		}
	}
	ao := r.Of(arg)
	var read *ssa.Call
	verbatim, vwhy := recordVerbatim(r, arg, 0)
	if verbatim != nil {
		read = verbatim
	}
	if read == nil {
		c.Bad("once-verbatim-in-order", "record handed to the callback", p.InstrPos(cb), "the callback's string is not the result of the framing read ("+trimOrg(ao.String())+"): "+vwhy)
		return
	}
	c.OK("once-verbatim-in-order", "record handed to the callback", p.InstrPos(cb), "the string is result 0 of "+calleeName(read.Common())+" "+vwhy)
	// err extract of the read
	var errEx ssa.Value
	if rr := read.Referrers(); rr != nil {
		for _, u := range *rr {
			if ex, ok := u.(*ssa.Extract); ok && ex.Index == 1 {
				errEx = ex
			}
		}
	}
	if errEx == nil {
		c.Bad("read-error-ends-delivery", "error result of the read", p.InstrPos(read), "the read error is discarded: end-of-stream is ignored and the unterminated tail is delivered as a record")
		return
	}
	nn, nl, _ := errEdge(errEx)
	if nn == nil {
		c.Bad("read-error-ends-delivery", "error result of the read", p.InstrPos(read), "the read error is never tested against nil")
		return
	}
	isCb := func(in ssa.Instruction) bool { return in == ssa.Instruction(cb) }
	isRead := func(in ssa.Instruction) bool { return in == ssa.Instruction(read) }
	// 4. callback only on the nil edge, once per iteration
	onNil := false
	for _, g := range GuardsOf(cb) {
		a := atomsOf(g)
		isErr := func(x ssa.Value) bool {
			if x == errEx {
				return true
			}
			if _, isLoad := x.(*ssa.UnOp); isLoad {
				return fsUnique(x, g.If, nil) == errEx
			}
			return false
		}
		if b, ok := a.V.(*ssa.BinOp); ok && (isErr(b.X) || isErr(b.Y)) {
			if (b.Op == token.NEQ && !a.Pos) || (b.Op == token.EQL && a.Pos) {
				onNil = true
			}
		}
	}
	c.Cond(onNil, "once-verbatim-in-order", "callback call is on the nil-error edge of the read", p.InstrPos(cb), "a record is delivered only when the read returned it complete", "the callback can be invoked although the read failed: bytes after the last delimiter (or an empty string at end-of-stream) are delivered as a record")
	inSameLoop := inLoop(cb) && inLoop(read) && reachesInstr(read, cb) && reachesInstr(cb, read)
	c.Cond(inSameLoop, "once-verbatim-in-order", "read and callback form one loop", p.InstrPos(cb), "each iteration reads one record and delivers it", "the read and the callback are not in one loop")
	_ = nl
	skip := searchAvoidingDead(ing, read, isRead, isCb, func(b *ssa.BasicBlock, si int) bool { return deadEmptyRecordEdge(read, nl, b, si) })
	c.Cond(skip == nil, "once-verbatim-in-order", "every iteration delivers its record or ends the loop", p.InstrPos(read), "no path from a read to the next read avoids the callback", "the loop can go from one read to the next without invoking the callback: a complete record is skipped, or a read error (end-of-stream) is ignored and the loop spins")
	again := searchAvoiding(ing, cb, isCb, isRead)
	c.Cond(again == nil, "once-verbatim-in-order", "a record is delivered at most once", p.InstrPos(cb), "the callback is not reachable again before the next read", "the same record can be delivered twice")
	// 3. read error ends delivery
	bad := blockReachesInstr(nn, func(in ssa.Instruction) bool { return isCb(in) || isRead(in) }, nil)
	if bad != nil {
		what := "the loop reads again"
		if isCb(bad) {
			what = "the callback is invoked"
		}
		c.Bad("read-error-ends-delivery", "non-nil edge of the read error", p.InstrPos(read), "after a read error "+what+" ("+p.InstrPos(bad)+"): end-of-stream is ignored or the unterminated tail is delivered as a record")
	} else {
		okRet, why := returnsOnEdge(r, ing, nn, errEx, false)
		c.Cond(okRet, "read-error-ends-delivery", "non-nil edge of the read error", p.InstrPos(read), "returns a non-nil error without delivering anything", why)
	}
	// a return reached from the read without the record having been delivered is a failure exit
	var nilExit ssa.Instruction
	for _, blk := range ing.Blocks {
		if len(blk.Instrs) == 0 || blk == ing.Recover {
			continue
		}
		ret, ok := blk.Instrs[len(blk.Instrs)-1].(*ssa.Return)
		if !ok || len(ret.Results) == 0 {
			continue
		}
		if searchAvoiding(ing, read, func(in ssa.Instruction) bool { return in == ssa.Instruction(ret) }, isCb) == nil {
			continue
		}
		res := ret.Results[len(ret.Results)-1]
		if nilKind(r, res, ret) != NonNil {
			// the result may sit in a local variable in memory: every path
			// from the read to this return that avoids the callback takes the
			// non-nil edge of the read error, and on those paths the return
			// yields that very (non-nil) error
			viaNN := false
			if len(nn.Instrs) > 0 {
				inNN := func(in ssa.Instruction) bool { return in == nn.Instrs[0] || isCb(in) }
				if searchAvoiding(ing, read, func(in ssa.Instruction) bool { return in == ssa.Instruction(ret) }, inNN) == nil {
					_, _, eif := errEdge(errEx)
					if eif != nil {
						vs := fsValuesVia(res, ret, nn, eif.Block(), read.Block())
						viaNN = len(vs) == 1 && vs[0] == errEx
					}
				}
			}
			if !viaNN {
				nilExit = ret
			}
		}
	}
	c.Cond(nilExit == nil, "read-error-ends-delivery", "returns reached from the read without delivering its record", p.InstrPos(read), "all of them return a non-nil error", "Ingest can return nil after a read that did not deliver a record (end-of-stream or another read error treated as a clean end): the worker ends without error, the error group is not cancelled and the daemon keeps running with this pipe dead")
	// callback error returned unchanged
	cnn, _, _ := errEdge(cb)
	if cnn == nil {
		c.Bad("callback-error-returned-unchanged", "result of the callback", p.InstrPos(cb), "the callback's error is not tested: delivery continues after a callback error")
	} else if bad := blockReachesInstr(cnn, func(in ssa.Instruction) bool { return isCb(in) || isRead(in) }, nil); bad != nil {
		c.Bad("callback-error-returned-unchanged", "non-nil edge of the callback result", p.InstrPos(cb), "delivery continues after a callback error")
	} else {
		okRet, why := returnsOnEdge(r, ing, cnn, cb, true)
		c.Cond(okRet, "callback-error-returned-unchanged", "non-nil edge of the callback result", p.InstrPos(cb), "returns the callback's error value itself", why)
	}
	// the error on its way out is not replaced by a deferred function: a
	// deferred closure that assigns the named error result without first
	// testing that it is still nil overwrites the callback's (or the read's)
	// error with its own
	for _, hf := range []*ssa.Function{cb.Parent()} {
		allInstrs(hf, func(in ssa.Instruction) {
			df, ok := in.(*ssa.Defer)
			if !ok {
				return
			}
			mc, ok := df.Call.Value.(*ssa.MakeClosure)
			if !ok {
				return
			}
			cf := mc.Fn.(*ssa.Function)
			for i, b := range mc.Bindings {
				al, isAl := b.(*ssa.Alloc)
				if !isAl || !isErrorType(deref(al.Type())) || i >= len(cf.FreeVars) {
					continue
				}
				// is it the cell a return of hf yields?
				isResult := false
				allInstrs(hf, func(in2 ssa.Instruction) {
					if ret, ok := in2.(*ssa.Return); ok {
						for _, rv := range ret.Results {
							if ld, ok := rv.(*ssa.UnOp); ok && ld.Op == token.MUL && ld.X == ssa.Value(al) {
								isResult = true
							}
						}
					}
				})
				if !isResult {
					continue
				}
				fv := cf.FreeVars[i]
				allInstrs(cf, func(in2 ssa.Instruction) {
					st, ok := in2.(*ssa.Store)
					if !ok || st.Addr != ssa.Value(fv) {
						return
					}
					guarded := false
					for _, g := range GuardsOf(st) {
						a := atomsOf(g)
						if bo, ok := a.V.(*ssa.BinOp); ok && (bo.Op == token.EQL || bo.Op == token.NEQ) {
							for _, pair := range [][2]ssa.Value{{bo.X, bo.Y}, {bo.Y, bo.X}} {
								if ld, ok := pair[0].(*ssa.UnOp); ok && ld.Op == token.MUL && ld.X == ssa.Value(fv) && isNilConst(pair[1]) {
									if (bo.Op == token.EQL) == a.Pos {
										guarded = true
									}
								}
							}
						}
					}
					c.Cond(guarded, "callback-error-returned-unchanged", "deferred assignment to the error result of "+hf.Name(), p.InstrPos(st), "only while the result is still nil", "a deferred function overwrites the error result without testing that it is still nil: the callback's error (or the read error) is replaced on its way out, e.g. by the error of closing a file that the cancellation goroutine has already closed")
				})
			}
		})
	}
	// 2. reader outlives the loop
	rr := r
	for i := len(handOff) - 1; i >= 0; i-- {
		// resolve parameters of the loop function at the (single) chain of calls from Ingest
		_ = i
	}
	if len(handOff) > 0 {
		rr = NewResolver(p)
		for _, site := range handOff {
			rr = rr.Bind(staticCallee(site.Common()), site)
		}
	}
	rd := rr.Of(read.Call.Args[0])
	okReader := false
	why := "the reader read from is " + trimOrg(rd.String())
	for _, a := range rd.Alts() {
		if a.K == "call" && (a.Name == "bufio.NewReader" || a.Name == "bufio.NewReaderSize") {
			nc := a.V.(*ssa.Call)
			switch {
			case nc.Parent() == ing && dominatesInstr(nc, read) && !inLoop(nc):
				okReader = true
			case nc.Parent() != ing && !inLoop(nc):
				// created by a caller on the chain and handed to the loop function
				onChain := false
				for _, site := range handOff {
					if site.Parent() == nc.Parent() && (dominatesInstr(nc, site) || nc == site.(ssa.Instruction)) && !inLoop(site) {
						onChain = true
					}
				}
				if onChain {
					okReader = true
				} else {
					why = "the buffered reader is not created once before the read loop is entered"
				}
			default:
				why = "the buffered reader is created inside the loop (or on some paths only): bytes it had buffered beyond the current record are discarded"
			}
		}
	}
	c.Cond(okReader && len(rd.Alts()) == 1, "reader-outlives-loop", "buffered reader of the read loop", p.InstrPos(read), "created once before the loop", why)
	_ = strings.Join
}

// recordVerbatim: v is result 0 of an accumulating framing read, possibly
// stripped of its delimiter. Returns the read call.
func recordVerbatim(r *Resolver, v ssa.Value, depth int) (*ssa.Call, string) {
	if depth > 4 {
		return nil, "derivation too deep"
	}
	v = strip(v)
	switch x := v.(type) {
	case *ssa.Extract:
		if cl, ok := x.Tuple.(*ssa.Call); ok && x.Index == 0 {
			if sc := staticCallee(cl.Common()); sc != nil && (sc.String() == "(*bufio.Reader).ReadString" || sc.String() == "(*bufio.Reader).ReadBytes") {
				return cl, "(verbatim)"
			}
		}
	case *ssa.Call:
		sc := staticCallee(x.Common())
		if sc != nil {
			switch sc.String() {
			case "strings.TrimSuffix", "strings.TrimRight", "bytes.TrimSuffix", "bytes.TrimRight":
				if _, ok := x.Call.Args[1].(*ssa.Const); ok {
					cl, _ := recordVerbatim(r, x.Call.Args[0], depth+1)
					return cl, "(delimiter stripped)"
				}
			}
			return nil, "the record passes through " + sc.String()
		}
	case *ssa.Slice:
		cl, _ := recordVerbatim(r, x.X, depth+1)
		if cl != nil && x.Low == nil {
			return cl, "(tail sliced off)"
		}
	case *ssa.UnOp:
		if x.Op == token.MUL {
			if a, ok := x.X.(*ssa.Alloc); ok {
				o := r.loadCell(a, x)
				if o.V != nil && len(o.Alts()) == 1 {
					return recordVerbatim(r, o.V, depth+1)
				}
			}
		}
	}
	return nil, "not the read result"
}

// returnsOnEdge: every path from block b reaches a return whose error
// result is non-nil (same: is that very value).
func returnsOnEdge(r *Resolver, fn *ssa.Function, b *ssa.BasicBlock, val ssa.Value, same bool) (bool, string) {
	n := 0
	for _, blk := range fn.Blocks {
		if len(blk.Instrs) == 0 || blk == fn.Recover {
			continue
		}
		ret, ok := blk.Instrs[len(blk.Instrs)-1].(*ssa.Return)
		if !ok {
			continue
		}
		if !(blk == b || reachesFromBlock(b, ret)) {
			continue
		}
		n++
		if len(ret.Results) == 0 {
			return false, "returns nothing"
		}
		res := ret.Results[len(ret.Results)-1]
		ro := r.Of(res)
		isSame := len(ro.Alts()) == 1 && sameValue(ro, r.Of(val))
		if !isSame {
			// the value sits in a local variable in memory: the return loads
			// that variable and no path from the edge to the return stores to it
			if storedCellOf(val) != nil {
				// the edge into b, and the block where val is stored
				var edgeFrom, origin *ssa.BasicBlock
				if _, _, iff := errEdge(val); iff != nil {
					edgeFrom = iff.Block()
				}
				if vi, ok := val.(ssa.Instruction); ok {
					origin = vi.Block()
				}
				vs := fsValuesVia(res, ret, b, edgeFrom, origin)
				if len(vs) == 1 && vs[0] == val {
					isSame = true
				}
			}
		}
		if same && !isSame {
			return false, "the error returned at " + r.P.InstrPos(ret) + " is " + trimOrg(ro.String()) + ", not the value itself (it is wrapped, replaced or dropped)"
		}
		if !same && !isSame && nilKind(r, res, ret) != NonNil {
			return false, "the return at " + r.P.InstrPos(ret) + " may yield nil: the error (end-of-stream included) is swallowed"
		}
	}
	if n == 0 {
		return false, "no return on this edge: the loop continues"
	}
	return true, ""
}

// deadEmptyRecordEdge: the edge (b -> b.Succs[si]) requires the string
// result of the delimiter read to be empty although b is dominated by the
// nil-error edge nl of that read. (*bufio.Reader).ReadString, ReadBytes and
// ReadSlice return err == nil only when the data ends in the delimiter, so
// the data holds at least one byte there and the edge is infeasible.
func deadEmptyRecordEdge(read *ssa.Call, nl *ssa.BasicBlock, b *ssa.BasicBlock, si int) bool {
	if nl == nil || len(b.Instrs) == 0 || len(nl.Preds) != 1 || !nl.Dominates(b) {
		return false
	}
	callee := read.Common().StaticCallee()
	if callee == nil || callee.Pkg == nil || callee.Pkg.Pkg.Path() != "bufio" {
		return false
	}
	switch callee.Name() {
	case "ReadString", "ReadBytes", "ReadSlice":
	default:
		return false
	}
	iff, ok := b.Instrs[len(b.Instrs)-1].(*ssa.If)
	if !ok {
		return false
	}
	cmp, ok := iff.Cond.(*ssa.BinOp)
	if !ok {
		return false
	}
	isData := func(v ssa.Value) bool {
		ex, ok := v.(*ssa.Extract)
		return ok && ex.Index == 0 && ex.Tuple == ssa.Value(read)
	}
	emptyWhenTrue := false // the condition's true edge means "empty"
	switch {
	case isData(cmp.X) || isData(cmp.Y):
		other := cmp.Y
		if isData(cmp.Y) {
			other = cmp.X
		}
		if s, ok := constStr(other); !ok || s != "" {
			return false
		}
		switch cmp.Op {
		case token.EQL:
			emptyWhenTrue = true
		case token.NEQ:
			emptyWhenTrue = false
		default:
			return false
		}
	default:
		var l ssa.Value
		var c *ssa.Const
		for _, pr := range [][2]ssa.Value{{cmp.X, cmp.Y}, {cmp.Y, cmp.X}} {
			call, ok := pr[0].(*ssa.Call)
			if !ok {
				continue
			}
			if bi, ok := call.Call.Value.(*ssa.Builtin); !ok || bi.Name() != "len" || len(call.Call.Args) != 1 || !isData(call.Call.Args[0]) {
				continue
			}
			if k, ok := pr[1].(*ssa.Const); ok && k.Value != nil {
				l, c = pr[0], k
			}
		}
		if l == nil || !lenEmptinessTest(cmp, l, c) {
			return false
		}
		op := cmp.Op
		if cmp.Y == l {
			switch op {
			case token.LSS:
				op = token.GTR
			case token.GTR:
				op = token.LSS
			case token.LEQ:
				op = token.GEQ
			case token.GEQ:
				op = token.LEQ
			}
		}
		switch op {
		case token.EQL, token.LEQ, token.LSS:
			emptyWhenTrue = true
		default:
			emptyWhenTrue = false
		}
	}
	if emptyWhenTrue {
		return si == 0
	}
	return si == 1
}
