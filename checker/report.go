package main

import (
	"encoding/json"
	"fmt"
	"os"
	"path/filepath"
	"sort"
	"strings"
	"time"
)

// Verdicts of an obligation.
const (
	Discharged = "discharged"
	Violated   = "violated"
	Undecided  = "undecided"
)

// Obl is one rule instance enumerated from the code.
type Obl struct {
	Rule      string `json:"rule"`
	Construct string `json:"construct"`
	Pos       string `json:"pos"`
	Verdict   string `json:"verdict"`
	Fact      string `json:"fact"`
	Entry     string `json:"entry,omitempty"` // entry point / path for path rules
	Known     bool   `json:"known_finding,omitempty"`
}

func (o Obl) Key() string { return o.Rule + " | " + o.Construct }

// Check accumulates the obligations of one property run.
type Check struct {
	ID          string
	Level       string
	Tier        string
	P           *Prog
	Obls        []Obl
	Floors      []Floor
	Rules       []string // rule descriptions
	Analysed    map[string]bool
	Assumptions []string
	Trusted     []string
	Explanation string
	Notes       []string
	Extra       map[string]any
	start       time.Time
}

// Floor is a minimum instance count for a rule, in semantic units.
type Floor struct {
	What string `json:"what"`
	Min  int    `json:"min"`
	Got  int    `json:"got"`
}

func NewCheck(id, level, tier string, p *Prog) *Check {
	return &Check{ID: id, Level: level, Tier: tier, P: p, Analysed: map[string]bool{}, Extra: map[string]any{}, start: time.Now(),
		Assumptions: []string{}, Trusted: []string{}, Rules: []string{}, Notes: []string{}, Floors: []Floor{}}
}

func (c *Check) add(rule, construct, pos, verdict, fact string) {
	c.Obls = append(c.Obls, Obl{Rule: rule, Construct: construct, Pos: pos, Verdict: verdict, Fact: fact})
}

func (c *Check) OK(rule, construct, pos, fact string)  { c.add(rule, construct, pos, Discharged, fact) }
func (c *Check) Bad(rule, construct, pos, fact string) { c.add(rule, construct, pos, Violated, fact) }
func (c *Check) Unk(rule, construct, pos, fact string) { c.add(rule, construct, pos, Undecided, fact) }
func (c *Check) Rule(desc string)                      { c.Rules = append(c.Rules, desc) }
func (c *Check) Assume(s ...string)                    { c.Assumptions = append(c.Assumptions, s...) }
func (c *Check) Trust(s ...string)                     { c.Trusted = append(c.Trusted, s...) }
func (c *Check) Note(format string, a ...any)          { c.Notes = append(c.Notes, fmt.Sprintf(format, a...)) }
func (c *Check) Fn(name string)                        { c.Analysed[name] = true }

// Cond records an obligation whose verdict is decided by ok.
func (c *Check) Cond(ok bool, rule, construct, pos, okFact, badFact string) bool {
	if ok {
		c.OK(rule, construct, pos, okFact)
	} else {
		c.Bad(rule, construct, pos, badFact)
	}
	return ok
}

// Floor registers a vacuity floor; falling below it is a failure.
func (c *Check) Floor(what string, min, got int) {
	c.Floors = append(c.Floors, Floor{what, min, got})
	if got < min {
		c.Unk("floor", what, "-", fmt.Sprintf("rule matched %d instance(s), fewer than the %d confirmed by reading: the check would pass vacuously", got, min))
	}
}

// Anchor fails the check when a named construct does not resolve.
func (c *Check) Anchor(name string, ok bool) bool {
	if !ok {
		c.Unk("anchor", name, "-", "anchor does not resolve in the current tree")
	}
	return ok
}

// KnownFindings is the committed file /verif/known_findings.json.
type KnownFindings struct {
	Findings []struct {
		Property  string `json:"property"`
		Rule      string `json:"rule"`
		Construct string `json:"construct"`
		What      string `json:"what"`
	} `json:"findings"`
	Fixed []string `json:"fixed"`
}

func loadKnown(path string) (*KnownFindings, error) {
	k := &KnownFindings{}
	b, err := os.ReadFile(path)
	if err != nil {
		if os.IsNotExist(err) {
			return k, nil
		}
		return nil, err
	}
	if err := json.Unmarshal(b, k); err != nil {
		return nil, err
	}
	return k, nil
}

// Finish writes the evidence file, prints the verdict and returns the exit code.
func (c *Check) Finish(outDir, knownPath, cmdline string) int {
	known, kerr := loadKnown(knownPath)
	if kerr != nil {
		c.Unk("known-findings", knownPath, "-", "cannot read known findings file: "+kerr.Error())
		known = &KnownFindings{}
	}
	if len(c.P.Forbidden) > 0 {
		c.Unk("trusted-base", "forbidden feature", "-", strings.Join(c.P.Forbidden, "; "))
	}
	sort.SliceStable(c.Obls, func(i, j int) bool {
		if c.Obls[i].Rule != c.Obls[j].Rule {
			return c.Obls[i].Rule < c.Obls[j].Rule
		}
		return c.Obls[i].Construct < c.Obls[j].Construct
	})
	discharged := 0
	var bad []int
	seen := map[string]bool{}
	for i := range c.Obls {
		o := &c.Obls[i]
		if o.Verdict == Discharged {
			discharged++
			continue
		}
		for _, k := range known.Findings {
			if k.Property == c.ID && k.Rule == o.Rule && k.Construct == o.Construct {
				o.Known = true
			}
		}
		if o.Known {
			if !seen[o.Key()] {
				fmt.Printf("KNOWN-FINDING: property=%s %s at %s: %s\n", c.ID, o.Key(), o.Pos, o.Fact)
			}
			seen[o.Key()] = true
			continue
		}
		if seen[o.Key()] {
			continue
		}
		seen[o.Key()] = true
		bad = append(bad, i)
	}

	vioDir := filepath.Join(outDir, "violations")
	os.MkdirAll(vioDir, 0o755)
	old, _ := filepath.Glob(filepath.Join(vioDir, c.ID+"-*.json"))
	for _, f := range old {
		os.Remove(f)
	}
	for n, i := range bad {
		o := c.Obls[i]
		path := filepath.Join(vioDir, fmt.Sprintf("%s-%d.json", c.ID, n+1))
		b, _ := json.MarshalIndent(map[string]any{
			"property":  c.ID,
			"rule":      o.Rule,
			"construct": o.Construct,
			"pos":       o.Pos,
			"verdict":   o.Verdict,
			"fact":      o.Fact,
			"entry":     o.Entry,
			"rerun":     cmdline,
			"config":    c.P.Config,
		}, "", " ")
		os.WriteFile(path, b, 0o644)
		fmt.Printf("%s: %s [%s] %s — %s\n", o.Pos, strings.ToUpper(o.Verdict), o.Rule, o.Construct, o.Fact)
		fmt.Printf("VIOLATION property=%s replay=%s\n", c.ID, path)
	}

	fns := make([]string, 0, len(c.Analysed))
	for f := range c.Analysed {
		fns = append(fns, f)
	}
	sort.Strings(fns)
	samples := []any{}
	for i, o := range c.Obls {
		if i >= 12 {
			break
		}
		samples = append(samples, o)
	}
	// rule census
	perRule := map[string]int{}
	distinct := map[string]bool{}
	for _, o := range c.Obls {
		perRule[o.Rule]++
		distinct[o.Key()] = true
	}
	cov := map[string]any{
		"obligations":         len(c.Obls),
		"discharged":          discharged,
		"evaluations":         len(c.Obls),
		"distinct_nontrivial": len(distinct),
		"rule":                "obligations are enumerated from the type-checked SSA program of /repo (one per rule instance: call site, store, guard, regex, path); distinct = distinct rule+construct keys; every one is non-trivial in that it must be discharged by a named structural fact or the check fails",
		"checker_cmd":         cmdline,
		"trusted_base":        c.Trusted,
		"explanation":         c.Explanation,
		"samples":             samples,
		"rules":               c.Rules,
		"per_rule":            perRule,
		"floors":              c.Floors,
		"functions_analysed":  fns,
		"all_obligations":     c.Obls,
		"build_config":        c.P.Config,
		"packages_loaded":     len(c.P.Pkgs),
		"notes":               c.Notes,
		"exhaustive":          true,
	}
	for k, v := range c.Extra {
		cov[k] = v
	}
	ev := map[string]any{
		"property_id": c.ID,
		"tier":        c.Tier,
		"seed":        0,
		"level":       c.Level,
		"coverage":    cov,
		"assumptions": c.Assumptions,
		"wall_s":      time.Since(c.start).Seconds(),
		"violations":  len(bad),
	}
	b, _ := json.MarshalIndent(ev, "", " ")
	os.MkdirAll(outDir, 0o755)
	if err := os.WriteFile(filepath.Join(outDir, c.ID+".json"), b, 0o644); err != nil {
		fmt.Printf("cannot write evidence: %v\n", err)
		return 1
	}
	fmt.Printf("%s %s: %d obligations, %d discharged, %d violation(s); %d functions analysed; %s\n",
		c.ID, c.Tier, len(c.Obls), discharged, len(bad), len(fns), c.P.Config)
	if len(bad) > 0 {
		return 1
	}
	return 0
}
