package main

import (
	"fmt"
	"go/token"
	"go/types"
	"strings"

	"golang.org/x/tools/go/ssa"
)

func init() { register("C19", "other", checkC19) }

func checkC19(c *Check) {
	p := c.P
	c.Explanation = "Interprocedural path-count rule over the dispatch of the sshd processor (markers: emit = EventWriter.Write, count = PrometheusMetricsProvider.IncLogins). For every dispatch row, the count pairs of the three path segments (dispatcher entry to the row's case, the row's entry function, dispatcher after the selection) are combined: whenever an event is emitted exactly one increment happens, with an outcome label agreeing with the event's outcome and a method label matching the form; increments occur only in dispatch cases or in functions reached only from dispatch rows; IncLogins itself increments the counter child labelled with exactly its two arguments."
	c.Rule("one-increment-per-emit, per dispatch row (floor 20 rows)")
	c.Rule("label-agreement: outcome label Success<->succeeded / Failure<->failed; method 'password' for accepted password, ssh-key|ssh-cert for accepted public key")
	c.Rule("no-keyword-no-count: every IncLogins call lies in a dispatch case or in a function reached only from dispatch rows")
	c.Rule("inclogins-faithful: IncLogins = remoteLogins.WithLabelValues(method, outcome).Inc(), once, no other state")
	c.Trust("prometheus CounterVec.WithLabelValues(l...).Inc() adds one to the child identified by the label values in declaration order")
	d := FindDispatch(p)
	if !c.Anchor("sshd dispatcher", d != nil) {
		return
	}
	for _, pr := range d.Problems {
		c.Unk("dispatch-table", pr, "-", "dispatch row not understood")
	}
	inc := p.Method("internal/metrics", "PrometheusMetricsProvider", "IncLogins")
	if !c.Anchor("(*metrics.PrometheusMetricsProvider).IncLogins", inc != nil) {
		return
	}
	wobj := p.ExtObj("github.com/metal-toolbox/auditevent", "EventWriter", "Write")
	rx := RegexByName(p.RegexVars(pkgSshd))
	isEmit := func(in ssa.Instruction) bool {
		cl, ok := in.(*ssa.Call)
		return ok && isCalleeObj(cl.Common(), wobj)
	}
	isCount := func(in ssa.Instruction) bool {
		cl, ok := in.(ssa.CallInstruction)
		return ok && isIncCall(cl.Common(), inc)
	}
	pc := NewPathCounter(p, isEmit, isCount)
	c.Floor("dispatch rows", 20, len(d.Rows))
	phiBlock := d.Phi.Block()
	rowOf := map[*ssa.Function][]Row{}
	for _, r := range d.Rows {
		rowOf[r.Fn] = append(rowOf[r.Fn], r)
	}
	for _, row := range d.Rows {
		name := "row " + row.Name()
		// segment 1: dispatcher entry -> end of the case's last block
		var pred *ssa.BasicBlock
		edge := -1
		for i, e := range d.Phi.Edges {
			switch v := strip(e).(type) {
			case *ssa.Function:
				if unwrapBound(v) == row.Fn && !row.Inner {
					pred = phiBlock.Preds[i]
					edge = i
				}
			case *ssa.Call:
				if row.Inner {
					if sc := staticCallee(v.Common()); sc != nil && sc == row.Site.Parent() {
						pred = phiBlock.Preds[i]
						edge = i
					}
				}
			}
		}
		if pred == nil && row.TabG != nil {
			// table-driven dispatch: the dispatcher is read as specialised to
			// this element of the table: the element's matcher holds, the
			// scan is in progress, reads of the element's fields have the
			// element's values, the selected function is this row's
			pcT := NewPathCounter(p, isEmit, isCount)
			rowc := row
			pcT.Dynamic = func(ci ssa.CallInstruction) (PCSet, bool) {
				if ci == ssa.CallInstruction(d.CallSite) {
					return pc.Summary(rowc.Fn), true
				}
				// the call of the element's handler-selecting field
				if g, _, _, ok := tablePath(ci.Common().Value); ok && g == rowc.TabG {
					if rowc.Sel != nil {
						return pc.Summary(rowc.Sel), true
					}
					return PCSet{PC{0, 0}: true}, true
				}
				return nil, false
			}
			pcT.CondEval = tableCondEval(d, rowc)
			total := pcT.Region(d.Fn, nil, nil)
			judgeRowTotal(c, p, name, rowc, total)
			labelRule(c, d, rowc, inc, rx)
			continue
		}
		if pred == nil {
			c.Unk("one-increment-per-emit", name, p.InstrPos(row.Site), "cannot locate the case of this row in the dispatcher")
			continue
		}
		// nested selector must not emit or count on the way to its return
		seg1 := pc.Region(d.Fn, nil, pred)
		// segment 2: after the selection, with the dynamic call bound to this row's function
		pc2 := NewPathCounter(p, isEmit, isCount)
		pc2.Dynamic = func(ci ssa.CallInstruction) (PCSet, bool) {
			if ci == ssa.CallInstruction(d.CallSite) {
				return pc.Summary(row.Fn), true
			}
			return nil, false
		}
		// values selected per case (phis of the join) are fixed to this row's edge
		ev := phiEdgeEval(phiBlock, edge)
		pc2.CondEval = func(v ssa.Value) (bool, bool) {
			if row.Inner {
				// the nested selector returned this row's (non-nil) function
				if b, ok := v.(*ssa.BinOp); ok && (b.X == ssa.Value(d.Phi) || b.Y == ssa.Value(d.Phi)) && (isNilConst(b.X) || isNilConst(b.Y)) {
					return b.Op.String() == "!=", true
				}
			}
			return ev(v)
		}
		seg2 := pc2.Region(d.Fn, phiBlock, nil)
		total := seg1.cross(seg2)
		if !judgeRowTotal(c, p, name, row, total) {
			continue
		}
		// label agreement
		labelRule(c, d, row, inc, rx)
	}
	// no keyword, no count
	ninc := 0
	for _, fn := range p.AllRepoFuncs() {
		if !p.InDaemon(fn) {
			continue
		}
		for _, ci := range callsIn(fn) {
			if !isIncCall(ci.Common(), inc) {
				continue
			}
			ninc++
			name := "IncLogins call in " + fn.Name() + " " + labelText(ci)
			if fn == d.Fn {
				// must lie in a case body: guarded by at least one positive dispatch predicate
				pos, _, _ := predsAt(NewResolver(p), ci)
				if len(pos) == 0 {
					// table-driven dispatch: guarded by the matcher of the table element being visited
					for _, row := range d.Rows {
						if row.TabG == nil || len(pos) > 0 {
							continue
						}
						for _, g := range GuardsOf(ci) {
							a := atomsOf(g)
							cl, isCall := a.V.(*ssa.Call)
							if !isCall || !a.Pos {
								continue
							}
							if tg, _, _, ok := tablePath(cl.Common().Value); ok && tg == row.TabG && staticCallee(cl.Common()) == nil {
								pos = append(pos, Pred{Kind: "prefix", Prefix: "<matcher of the table element>"})
							}
						}
					}
				}
				if len(pos) == 0 {
					// guarded by "a function was selected": the dispatch phi is non-nil
					for _, g := range GuardsOf(ci) {
						a := atomsOf(g)
						if b, ok := a.V.(*ssa.BinOp); ok && (b.X == ssa.Value(d.Phi) || b.Y == ssa.Value(d.Phi)) && (isNilConst(b.X) || isNilConst(b.Y)) {
							if (b.Op == token.NEQ && a.Pos) || (b.Op == token.EQL && !a.Pos) {
								pos = append(pos, Pred{Kind: "prefix", Prefix: "<some dispatch case selected an entry function>"})
							}
						}
					}
				}
				c.Cond(len(pos) > 0, "no-keyword-no-count", name, p.InstrPos(ci), "inside a dispatch case (predicate "+predText(pos)+")", "increment in the dispatcher outside any dispatch case: a line without a recognised keyword changes the counter")
				continue
			}
			ctxs, why := rowContexts(p, fn, rowOf, 0)
			c.Cond(len(ctxs) > 0, "no-keyword-no-count", name, p.InstrPos(ci), "function reached only from dispatch rows", "increment in a function not reached only through dispatch predicates: "+why)
		}
	}
	c.Floor("IncLogins call sites", 2, ninc)
	// one pass of the dispatcher per delivered line
	c.Floor("functions between the ingester callback and the dispatcher", 2, lineReachesDispatcher(c))
	// the keyword predicates see the line as written: white space is not
	// normalised on the way (a line with a tab where the keyword has a
	// blank is not a recognised line), and the line is not rewritten
	spacingRule(c)
	importRules(c, "C17", checkC17, "", "line-integrity")
	// ... and a line is a whole record: the rest of an over-long record is
	// not parsed as a record of its own (rules of C12)
	nw := importRules(c, "C12", checkC12, "lines-are-whole-records: ", "framing-primitive", "once-verbatim-in-order")
	c.Floor("imported lines-are-whole-records obligations", 5, nw)
	// IncLogins faithful
	incFaithful(c, inc)
}

func cnt(n int) string {
	switch n {
	case 0:
		return "no"
	case 3:
		return "three or more"
	}
	return fmt.Sprint(n)
}

func predText(ps []Pred) string {
	var l []string
	for _, p := range ps {
		if p.Kind == "prefix" {
			l = append(l, "\""+p.Prefix+"\"")
		} else {
			l = append(l, p.Regex)
		}
	}
	return strings.Join(l, ",")
}

func labelText(ci ssa.CallInstruction) string {
	a := ci.Common().Args
	if ci.Common().IsInvoke() {
		a = append([]ssa.Value{ci.Common().Value}, a...)
	}
	if len(a) >= 3 {
		m, _ := constStr(a[1])
		o, _ := constStr(a[2])
		return "(" + m + "," + o + ")"
	}
	return ""
}

// labelRule: the increments that apply to a row carry labels agreeing
// with the row's events.
func labelRule(c *Check, d *Dispatch, row Row, inc *ssa.Function, rx map[string]*RegexVar) {
	p := c.P
	type incSite struct {
		ci ssa.CallInstruction
		r  *Resolver
	}
	var incs []incSite
	// in the case body
	for _, b := range row.Bodies {
		for _, in := range b.Instrs {
			if ci, ok := in.(ssa.CallInstruction); ok && isIncCall(ci.Common(), inc) {
				rr := NewResolver(p)
				if row.TabG != nil {
					// read as specialised to this row's element: the
					// element's values, and only the increments whose guards
					// hold for this element
					for k, v := range row.TabEnv {
						rr.Env[k] = v
					}
					ev := tableCondEval(d, row)
					skip := false
					for _, g := range GuardsOf(ci) {
						if val, known := ev(g.Cond); known && val != g.True {
							skip = true
						}
					}
					if skip {
						continue
					}
				}
				incs = append(incs, incSite{ci, rr})
			}
		}
	}
	// in the entry function and its static callees (per call chain, the
	// callee's parameters bound to the caller's arguments)
	var walk func(fn *ssa.Function, r *Resolver, depth int)
	walk = func(fn *ssa.Function, r *Resolver, depth int) {
		if depth > 4 || fn.Blocks == nil || !InRepo(fn) {
			return
		}
		for _, ci := range callsIn(fn) {
			sc := staticCallee(ci.Common())
			if isIncCall(ci.Common(), inc) {
				incs = append(incs, incSite{ci, r})
			} else if sc != nil && sc != fn {
				walk(sc, r.Bind(sc, ci), depth+1)
			}
		}
	}
	walk(row.Fn, NewResolver(p), 0)
	accepted := row.Accepted(rx)
	wantOutcome := "failure"
	if accepted {
		wantOutcome = "success"
	}
	for _, is := range incs {
		ci := is.ci
		a := ci.Common().Args
		if ci.Common().IsInvoke() {
			a = append([]ssa.Value{ci.Common().Value}, a...)
		}
		if len(a) < 3 {
			continue
		}
		constOf := func(v ssa.Value) (string, bool) {
			if s, ok := constStr(v); ok {
				return s, true
			}
			o := is.r.Of(v)
			// a named string type converted from a constant
			for o.K == "unop" && strings.HasPrefix(o.Name, "conv:") && len(o.Sub) == 1 {
				o = o.Sub[0]
			}
			return o.ConstString()
		}
		m, okm := constOf(a[1])
		o, oko := constOf(a[2])
		where := ci.Parent().Name()
		if s := is.r.Site[ci.Parent()]; s != nil {
			where += " called at " + p.InstrPos(s)
		}
		name := fmt.Sprintf("row %s: increment (%s,%s) in %s", row.Name(), m, o, where)
		if !okm || !oko {
			c.Unk("label-agreement", name, p.InstrPos(ci), "labels are not constants")
			continue
		}
		ok := o == wantOutcome
		why := fmt.Sprintf("outcome label %q for a form whose events are %s", o, map[bool]string{true: "succeeded", false: "failed"}[accepted])
		if ok && accepted {
			isPw := false
			for _, pd := range row.Pos {
				if strings.HasPrefix(pd.Prefix, "Accepted password") {
					isPw = true
				}
			}
			if isPw && m != "password" {
				ok = false
				why = fmt.Sprintf("method label %q for a password login", m)
			}
			if !isPw && m != "ssh-key" && m != "ssh-cert" {
				ok = false
				why = fmt.Sprintf("method label %q for a public-key login", m)
			}
		}
		c.Cond(ok, "label-agreement", name, p.InstrPos(ci), "labels ("+m+","+o+") agree with the form", why)
	}
}

// incFaithful: IncLogins increments exactly the child labelled with its arguments.
func incFaithful(c *Check, inc *ssa.Function) {
	p := c.P
	c.Fn(funcDisplayName(inc))
	var wlv *ssa.Call
	form := ""
	calls := 0
	other := ""
	allInstrs(inc, func(in ssa.Instruction) {
		switch x := in.(type) {
		case *ssa.Call:
			if sc := staticCallee(x.Common()); sc != nil && FuncPkgPath(sc) == "github.com/prometheus/client_golang/prometheus" && (sc.Name() == "WithLabelValues" || sc.Name() == "With") {
				calls++
				wlv, form = x, sc.Name()
			} else if x.Common().IsInvoke() && x.Common().Method.Name() == "Inc" {
				calls++
			} else {
				calls++
				other = "calls " + calleeName(x.Common())
			}
		case *ssa.Lookup, *ssa.Go, *ssa.Defer, *ssa.If:
			other = "contains " + in.String() + " (state or branching)"
		case *ssa.Store:
			if _, ok := x.Addr.(*ssa.IndexAddr); !ok {
				other = "stores to " + x.Addr.String()
			}
		}
	})
	name := "IncLogins body"
	if wlv == nil {
		c.Bad("inclogins-faithful", name, p.Pos(inc.Pos()), "IncLogins does not resolve the counter child with WithLabelValues(method, outcome) or With(Labels{method, outcome})")
		return
	}
	if other != "" || calls != 2 {
		c.Bad("inclogins-faithful", name, p.Pos(inc.Pos()), "IncLogins is more than remoteLogins.WithLabelValues(method,outcome).Inc(): "+other+" — cached or conditional children can count an event under another label")
		return
	}
	r := NewResolver(p)
	okArgs := true
	why := ""
	unconv := func(o *Org) *Org {
		for o.K == "unop" && len(o.Sub) == 1 {
			o = o.Sub[0]
		}
		return o
	}
	// receiver: the counter-vector field of the provider, and the label
	// names it was declared with
	ro := r.Of(wlv.Call.Args[0])
	var names []string
	if ro.K != "field" {
		okArgs = false
		why = "counter vector is not a field of the provider"
	} else {
		names, why = vecLabelNames(p, ro.Name, inc)
		if names == nil {
			okArgs = false
		}
	}
	// label name -> origin of its value
	assign := map[string]string{}
	if okArgs {
		switch form {
		case "WithLabelValues":
			sl, ok := wlv.Call.Args[1].(*ssa.Slice)
			if !ok {
				okArgs = false
				why = "label values are not a literal argument list"
				break
			}
			got := map[int64]string{}
			if rr := sl.X.Referrers(); rr != nil {
				for _, u := range *rr {
					ia, ok := u.(*ssa.IndexAddr)
					if !ok || !isIntConst(ia.Index) {
						continue
					}
					if ir := ia.Referrers(); ir != nil {
						for _, su := range *ir {
							if st, ok := su.(*ssa.Store); ok {
								got[ia.Index.(*ssa.Const).Int64()] = unconv(r.Of(st.Val)).String()
							}
						}
					}
				}
			}
			if len(got) != len(names) {
				okArgs = false
				why = fmt.Sprintf("%d label values for the %d declared labels %v", len(got), len(names), names)
				break
			}
			for i, n := range names {
				assign[n] = got[int64(i)]
			}
		case "With":
			mk, ok := strip(wlv.Call.Args[1]).(*ssa.MakeMap)
			if !ok {
				okArgs = false
				why = "labels are not a map literal"
				break
			}
			if rr := mk.Referrers(); rr != nil {
				for _, u := range *rr {
					if mu, ok := u.(*ssa.MapUpdate); ok {
						k, isK := constStr(mu.Key)
						if !isK {
							okArgs = false
							why = "label name is not a constant"
							continue
						}
						assign[k] = unconv(r.Of(mu.Value)).String()
					}
				}
			}
			if len(assign) != len(names) {
				okArgs = false
				why = fmt.Sprintf("labels %v given for the declared labels %v", assign, names)
			}
		}
	}
	if okArgs {
		if len(inc.Params) < 3 || len(assign) != 2 || assign["method"] != "P("+inc.Params[1].Name()+")" || assign["outcome"] != "P("+inc.Params[2].Name()+")" {
			okArgs = false
			why = fmt.Sprintf("labels are %v (declared %v), expected method <- the login type argument and outcome <- the outcome argument", assign, names)
		}
	}
	// the Inc receiver is the child just resolved
	incOK := false
	allInstrs(inc, func(in ssa.Instruction) {
		if x, ok := in.(*ssa.Call); ok && x.Common().IsInvoke() && x.Common().Method.Name() == "Inc" && x.Common().Value == ssa.Value(wlv) {
			incOK = true
		}
	})
	c.Cond(okArgs && incOK, "inclogins-faithful", name, p.Pos(inc.Pos()), "IncLogins(t,o) increments the child of "+ro.String()+" labelled method=t, outcome=o (declared labels "+strings.Join(names, ",")+")", "IncLogins does not increment the child labelled with its arguments: "+why)
}

// vecLabelNames: the label names the counter vector stored in the named
// field of the provider was declared with (second argument of
// prometheus.NewCounterVec, a literal list of constants), from every store
// to that field in the provider's package.
func vecLabelNames(p *Prog, field string, near *ssa.Function) ([]string, string) {
	var names []string
	nst := 0
	bad := ""
	pk := FuncPkgPath(near)
	for _, fn := range p.AllRepoFuncs() {
		if FuncPkgPath(fn) != pk {
			continue
		}
		allInstrs(fn, func(in ssa.Instruction) {
			st, ok := in.(*ssa.Store)
			if !ok {
				return
			}
			fa, ok := st.Addr.(*ssa.FieldAddr)
			if !ok || fieldName(fa.X.Type(), fa.Field) != field {
				return
			}
			nst++
			cl, ok := strip(st.Val).(*ssa.Call)
			if !ok {
				bad = "the vector stored at " + p.InstrPos(in) + " is not built by NewCounterVec"
				return
			}
			sc := staticCallee(cl.Common())
			if sc == nil || sc.Name() != "NewCounterVec" || len(cl.Call.Args) != 2 {
				bad = "the vector stored at " + p.InstrPos(in) + " is not built by NewCounterVec"
				return
			}
			sl, ok := cl.Call.Args[1].(*ssa.Slice)
			if !ok {
				bad = "label names are not a literal list"
				return
			}
			got := map[int64]string{}
			if rr := sl.X.Referrers(); rr != nil {
				for _, u := range *rr {
					ia, ok := u.(*ssa.IndexAddr)
					if !ok || !isIntConst(ia.Index) {
						continue
					}
					if ir := ia.Referrers(); ir != nil {
						for _, su := range *ir {
							if s2, ok := su.(*ssa.Store); ok {
								if k, isK := constStr(s2.Val); isK {
									got[ia.Index.(*ssa.Const).Int64()] = k
								} else {
									bad = "a label name is not a constant"
								}
							}
						}
					}
				}
			}
			var ns []string
			for i := 0; i < len(got); i++ {
				ns = append(ns, got[int64(i)])
			}
			if names != nil && strings.Join(names, ",") != strings.Join(ns, ",") {
				bad = "the vector is declared with different label lists"
			}
			names = ns
		})
	}
	if nst == 0 {
		return nil, "no store to the counter-vector field " + field + " found"
	}
	if bad != "" {
		return nil, bad
	}
	return names, ""
}

// isIncCall: a call of the login counter's increment method, directly or
// through an interface the provider implements.
func isIncCall(cc *ssa.CallCommon, inc *ssa.Function) bool {
	if staticCallee(cc) == inc {
		return true
	}
	if cc.IsInvoke() && inc.Object() != nil {
		return isCalleeObj(cc, inc.Object())
	}
	return false
}

// judgeRowTotal: every path of the row that emits emits once and counts once.
func judgeRowTotal(c *Check, p *Prog, name string, row Row, total PCSet) bool {
	bad := ""
	emits := false
	for k := range total {
		if k.A >= 1 {
			emits = true
			if k.A != 1 {
				bad = fmt.Sprintf("a path emits %d events", k.A)
			} else if k.B != 1 {
				bad = fmt.Sprintf("a path that emits one event performs %s increment(s) of the logins counter", cnt(k.B))
			}
		}
	}
	c.Fn(funcDisplayName(row.Fn))
	if !emits {
		c.Bad("one-increment-per-emit", name, p.InstrPos(row.Site), "no path of this row emits an event (count pairs "+total.String()+")")
		return false
	}
	if bad == "" {
		c.OK("one-increment-per-emit", name, p.InstrPos(row.Site), "count pairs (emit,count) over all paths: "+total.String())
	} else {
		c.Bad("one-increment-per-emit", name, p.InstrPos(row.Site), bad+"; pairs "+total.String())
	}
	return true
}

// tableCondEval decides the dispatcher's branch conditions for one row of a
// table-driven dispatch: the scan is at this row's element (loop condition
// true, the element's matcher true), conditions on the element's fields are
// evaluated with the element's values, a function was selected.
func tableCondEval(d *Dispatch, row Row) func(ssa.Value) (bool, bool) {
	constOf := func(v ssa.Value) (*Org, bool) {
		if o, ok := row.TabEnv[v]; ok {
			return o, true
		}
		if k, ok := v.(*ssa.Const); ok {
			return &Org{K: "const", V: k, Name: func() string {
				if k.Value == nil {
					return "nil"
				}
				return k.Value.ExactString()
			}()}, true
		}
		return nil, false
	}
	var eval func(v ssa.Value, depth int) (bool, bool)
	eval = func(v ssa.Value, depth int) (bool, bool) {
		if depth > 6 {
			return false, false
		}
		if o, ok := row.TabEnv[v]; ok && o.K == "const" {
			if o.Name == "true" {
				return true, true
			}
			if o.Name == "false" {
				return false, true
			}
		}
		if o, ok := row.TabEnv[v]; ok && o.K == "zero" {
			// a field the element's literal does not set: the zero value
			if b, isB := v.Type().Underlying().(*types.Basic); isB && b.Kind() == types.Bool {
				return false, true
			}
		}
		switch x := v.(type) {
		case *ssa.UnOp:
			if x.Op == token.NOT {
				b, ok := eval(x.X, depth+1)
				return !b, ok
			}
		case *ssa.Call:
			// the matcher of the element currently visited
			cc := x.Common()
			if g, _, _, ok := tablePath(cc.Value); ok && g == row.TabG && staticCallee(cc) == nil {
				return true, true
			}
			if sc := staticCallee(cc); sc != nil && sc.String() == "(*regexp.Regexp).MatchString" && len(cc.Args) == 2 {
				if g, _, _, ok := tablePath(cc.Args[0]); ok && g == row.TabG {
					return true, true
				}
			}
		case *ssa.BinOp:
			switch x.Op {
			case token.EQL, token.NEQ:
				if x.X == ssa.Value(d.Phi) || x.Y == ssa.Value(d.Phi) {
					if isNilConst(x.X) || isNilConst(x.Y) {
						return x.Op == token.NEQ, true
					}
				}
				a, oka := constOf(x.X)
				b, okb := constOf(x.Y)
				if oka && okb {
					an, bn := a.Name, b.Name
					if a.K == "zero" {
						an = "nil"
					}
					if b.K == "zero" {
						bn = "nil"
					}
					if a.K == "func" && bn == "nil" || b.K == "func" && an == "nil" {
						return x.Op == token.NEQ, true
					}
					if a.K == "func" || b.K == "func" {
						return false, false
					}
					return (an == bn) == (x.Op == token.EQL), true
				}
				// a pointer field of the element compared with nil: known
				// non-nil when the evaluation found a literal behind it
				for _, pair := range [][2]ssa.Value{{x.X, x.Y}, {x.Y, x.X}} {
					if !isNilConst(pair[1]) {
						continue
					}
					if g, _, path, ok := tablePath(pair[0]); ok && g == row.TabG && row.TabElem != nil {
						sv := followSV(row.TabElem, path)
						switch sv.K {
						case "ptr", "closure", "func", "global":
							return x.Op == token.NEQ, true
						case "nil", "zero":
							return x.Op == token.EQL, true
						}
					}
				}
			case token.LSS, token.GTR, token.LEQ, token.GEQ:
				// the loop condition of the scan: index against len(table)
				for _, side := range []ssa.Value{x.X, x.Y} {
					if cl, ok := side.(*ssa.Call); ok {
						if bi, ok := cl.Call.Value.(*ssa.Builtin); ok && bi.Name() == "len" && len(cl.Call.Args) == 1 {
							if ld, ok := cl.Call.Args[0].(*ssa.UnOp); ok && ld.X == ssa.Value(row.TabG) {
								return true, true
							}
						}
					}
				}
			}
		case *ssa.Extract:
			// range over the table: the "ok" of the iterator
			if nx, ok := x.Tuple.(*ssa.Next); ok && x.Index == 0 {
				if rg, ok := nx.Iter.(*ssa.Range); ok {
					if ld, ok := rg.X.(*ssa.UnOp); ok && ld.X == ssa.Value(row.TabG) {
						return true, true
					}
				}
			}
		}
		return false, false
	}
	return func(v ssa.Value) (bool, bool) { return eval(v, 0) }
}
