package main

import (
	"fmt"
	"go/constant"
	"go/token"
	"go/types"
	"strings"

	"golang.org/x/tools/go/ssa"
)

func init() { register("C15", "other", checkC15) }

func isErrorType(t types.Type) bool { return typeName(t) == "error" }

// errFlow computes what an error value flows into inside the repository:
// returns, sends on error channels, or nowhere.
type errFlow struct {
	p        *Prog
	seen     map[ssa.Value]bool
	Returned []ssa.Instruction
	Sent     []ssa.Instruction
	Tested   []*ssa.If
	Logged   bool
}

func (e *errFlow) follow(v ssa.Value, depth int) {
	if v == nil || e.seen[v] || depth > 30 {
		return
	}
	e.seen[v] = true
	refs := v.Referrers()
	if refs == nil {
		return
	}
	for _, u := range *refs {
		switch x := u.(type) {
		case *ssa.Return:
			e.Returned = append(e.Returned, x)
		case *ssa.Send:
			if x.X == v {
				e.Sent = append(e.Sent, x)
			}
		case *ssa.Select:
			for _, st := range x.States {
				if st.Send == v {
					e.Sent = append(e.Sent, x)
				}
			}
		case *ssa.MakeInterface, *ssa.ChangeInterface, *ssa.ChangeType, *ssa.Phi, *ssa.Extract, *ssa.TypeAssert:
			e.follow(u.(ssa.Value), depth+1)
		case *ssa.BinOp:
			if br := x.Referrers(); br != nil {
				for _, bu := range *br {
					if iff, ok := bu.(*ssa.If); ok {
						e.Tested = append(e.Tested, iff)
					}
				}
			}
		case *ssa.Store:
			if x.Val != v {
				continue
			}
			switch a := x.Addr.(type) {
			case *ssa.Alloc:
				e.followCell(a, depth+1)
			case *ssa.FreeVar:
				r := NewResolver(e.p)
				if o := r.Of(a); o.K == "cell" {
					e.followCell(o.V.(*ssa.Alloc), depth+1)
				}
			case *ssa.FieldAddr:
				// field of an object under construction: the object carries the error
				e.follow(a.X, depth+1)
			case *ssa.IndexAddr:
				// varargs array: the slice taken from it carries the error
				e.follow(a.X, depth+1)
			}
		case *ssa.Slice:
			e.follow(x, depth+1)
		case *ssa.UnOp:
			if x.Op == token.MUL {
				e.follow(x, depth+1)
			}
		case ssa.CallInstruction:
			cc := x.Common()
			sc := staticCallee(cc)
			name := ""
			if sc != nil {
				name = sc.String()
			}
			switch {
			case name == "fmt.Errorf" || name == "fmt.Sprintf" || name == "errors.Join" || name == "fmt.Sprint":
				if val, ok := u.(ssa.Value); ok {
					e.follow(val, depth+1)
				}
			case cc.IsInvoke() && cc.Method.Name() == "Error" && cc.Value == v:
				if val, ok := u.(ssa.Value); ok {
					e.follow(val, depth+1)
				}
			case strings.Contains(name, "zap.SugaredLogger"):
				e.Logged = true
			case sc != nil && InRepo(sc) && sc.Blocks != nil && depth < 20:
				// a repository helper that wraps, returns or hands off the error
				args := cc.Args
				for i, a := range args {
					if a != v || i >= len(sc.Params) {
						continue
					}
					sub := &errFlow{p: e.p, seen: map[ssa.Value]bool{}}
					sub.follow(sc.Params[i], depth+1)
					if len(sub.Returned) > 0 {
						if val, ok := u.(ssa.Value); ok {
							e.follow(val, depth+1)
						}
					}
					e.Sent = append(e.Sent, sub.Sent...)
					if sub.Logged {
						e.Logged = true
					}
				}
			}
		}
	}
}

func (e *errFlow) followCell(a *ssa.Alloc, depth int) {
	var visit func(v ssa.Value)
	seen := map[ssa.Value]bool{}
	visit = func(v ssa.Value) {
		if seen[v] {
			return
		}
		seen[v] = true
		rr := v.Referrers()
		if rr == nil {
			return
		}
		for _, u := range *rr {
			switch x := u.(type) {
			case *ssa.UnOp:
				if x.Op == token.MUL && x.X == v {
					e.follow(x, depth+1)
				}
			case *ssa.MakeClosure:
				fn := x.Fn.(*ssa.Function)
				for i, b := range x.Bindings {
					if b == v && i < len(fn.FreeVars) {
						visit(fn.FreeVars[i])
					}
				}
			}
		}
	}
	visit(a)
	// the cell may be a parent's variable captured by this closure
	if a.Parent() != nil {
		for _, af := range a.Parent().AnonFuncs {
			for _, fv := range af.FreeVars {
				_ = fv
			}
		}
	}
}

func checkC15(c *Check) {
	p := c.P
	c.Explanation = "Error-discipline and must-pass-through rules on the cone of the audit processor (Auditd.Read, the goroutines it starts, the stream callback, and the tracker): (1) in the parse loop every path from the receipt of a line to the next receipt pushes the parsed message to the reassembler or returns, the only exception being the test line == \"\"; the parse-error path returns a non-nil error built from the line and the parse error; exactly the parse result is pushed; (2) the error result of every call in the cone flows (through wrapping, repository error types and captured variables) to a return of its function or to a send on an error channel; inside a loop the non-nil edge must leave the loop; the only exceptions are listed with a reason; (3) errors handed from the stream callback are sent without blocking into a channel created with capacity >= 1 (the first error always fits), and the processor's select receives from that channel and from the parser's completion channel, returning a non-nil error that wraps what it received; (4) the login delivery's error is returned."
	c.Rule("parse-or-stop / push-parse-result / parse-error-identifies-line")
	c.Rule("no-error-dropped (allowlist: deferred Reassembler.Close = shutdown flush; Reassembler.Maintain = tested, ends the helper goroutine; Health/logger calls)")
	c.Rule("error-handoff-keeps-first-error / processor-returns-received-error")
	c.Trust("go-libaudit Reassembler groups records of one kernel event by sequence number and invokes ReassemblyComplete once per event (not decided)", "a channel of capacity >= 1 accepts the first send without a receiver")
	read := p.Method("processors/auditd", "Auditd", "Read")
	if !c.Anchor("(*auditd.Auditd).Read", read != nil) {
		return
	}
	cone := p.ConeFrom([]*ssa.Function{read})
	c.Floor("functions in the cone of the audit processor", 15, len(cone.Order))
	for _, f := range cone.Order {
		c.Fn(funcDisplayName(f))
	}

	// 1. parse loop
	parseRule(c, cone)

	// 2. no error dropped
	ncalls := 0
	for _, fn := range cone.Order {
		allInstrs(fn, func(in ssa.Instruction) {
			ci, ok := in.(ssa.CallInstruction)
			if !ok {
				return
			}
			cc := ci.Common()
			sig := cc.Signature()
			if sig == nil || sig.Results().Len() == 0 || !isErrorType(sig.Results().At(sig.Results().Len()-1).Type()) {
				return
			}
			callee := calleeName(cc)
			// logging / formatting helpers that return errors we never see here
			if strings.HasPrefix(callee, "fmt.") {
				return
			}
			ncalls++
			name := fmt.Sprintf("error result of %s in %s", strings.TrimPrefix(callee, "invoke "), fn.Name())
			pos := p.InstrPos(in)
			if _, isDefer := in.(*ssa.Defer); isDefer {
				if strings.HasSuffix(callee, "Reassembler).Close") || isReassemblerCall(p, cc, "Close") {
					c.OK("no-error-dropped", name, pos, "allowlisted: deferred Close of the reassembler is the shutdown flush; its only error is 'already closed'")
				} else if strings.HasSuffix(callee, ".Stop") || strings.HasSuffix(callee, "(*os.File).Close") {
					c.OK("no-error-dropped", name, pos, "allowlisted: deferred release of a resource")
				} else {
					c.Bad("no-error-dropped", name, pos, "the error result of a deferred call is discarded")
				}
				return
			}
			if _, isGo := in.(*ssa.Go); isGo {
				c.Bad("no-error-dropped", name, pos, "the error result of a goroutine's function is discarded")
				return
			}
			val := in.(ssa.Value)
			var ev ssa.Value = val
			if sig.Results().Len() > 1 {
				ev = nil
				if rr := val.Referrers(); rr != nil {
					for _, u := range *rr {
						if ex, ok := u.(*ssa.Extract); ok && ex.Index == sig.Results().Len()-1 {
							ev = ex
						}
					}
				}
			}
			if ev == nil {
				if sig.Results().Len() == 1 && nilKind(NewResolver(p), val, in) == IsNil {
					c.OK("no-error-dropped", name, pos, "the result is nil on every path of the callee at this call site (nothing to drop)")
					return
				}
				c.Bad("no-error-dropped", name, pos, "the error result is discarded: a failure here is skipped silently")
				return
			}
			fl := &errFlow{p: p, seen: map[ssa.Value]bool{}}
			fl.follow(ev, 0)
			if (strings.HasSuffix(callee, "Reassembler).Maintain") || isReassemblerCall(p, cc, "Maintain")) && len(fl.Tested) > 0 {
				c.OK("no-error-dropped", name, pos, "allowlisted: Maintain's error (reassembler closed) is tested and ends the maintenance goroutine")
				return
			}
			if len(fl.Returned) == 0 && len(fl.Sent) == 0 {
				if nilKind(NewResolver(p), ev, in) == IsNil {
					c.OK("no-error-dropped", name, pos, "the result is nil on every path of the callee at this call site (nothing to drop)")
					return
				}
				why := "the error is neither returned nor sent on an error channel"
				if fl.Logged {
					why += " (it is only logged)"
				}
				c.Bad("no-error-dropped", name, pos, why+": the audit processor keeps running after this failure and the record or login concerned is lost silently")
				return
			}
			// inside a loop: the non-nil edge must leave the loop
			if inLoop(in) && len(fl.Tested) > 0 {
				isTest := func(x ssa.Instruction) bool {
					for _, iff := range fl.Tested {
						if x == ssa.Instruction(iff) {
							return true
						}
					}
					return false
				}
				if again := searchAvoiding(fn, in, func(x ssa.Instruction) bool { return x == in }, isTest); again != nil {
					c.Bad("no-error-dropped", name, pos, "inside a loop the call can be executed again before its error was tested: a later iteration overwrites the error and an earlier failure is masked")
					return
				}
				leaves := false
				for _, iff := range fl.Tested {
					b, _ := iff.Cond.(*ssa.BinOp)
					if b == nil {
						continue
					}
					nn := iff.Block().Succs[0]
					if b.Op == token.EQL {
						nn = iff.Block().Succs[1]
					}
					if !reachesFromBlock(nn, in) {
						leaves = true
					}
				}
				if !leaves {
					c.Bad("no-error-dropped", name, pos, "inside a loop the non-nil edge of this error does not leave the loop: a later iteration overwrites the error and the failure is masked")
					return
				}
			} else if inLoop(in) && len(fl.Tested) == 0 && loopCarried(in) {
				c.Bad("no-error-dropped", name, pos, "the error is assigned in a loop without being tested in the same iteration: a later iteration overwrites it and the failure is masked")
				return
			}
			// returned, but never tested: the return that carries it must be
			// reached on every path from the call. A return of the error that
			// sits under a condition on something else (another variable)
			// drops the failure whenever that condition is false.
			if len(fl.Returned) > 0 && len(fl.Sent) == 0 && len(fl.Tested) == 0 && !inLoop(in) {
				same := true
				for _, ri := range fl.Returned {
					if ri.Parent() != fn {
						same = false
					}
				}
				if same && nilKind(NewResolver(p), ev, in) != IsNil {
					isCarrier := func(x ssa.Instruction) bool {
						for _, ri := range fl.Returned {
							if ri == x {
								return true
							}
						}
						return false
					}
					other := searchAvoiding(fn, in, func(x ssa.Instruction) bool { return isReturn(x) && !isCarrier(x) && x.Block() != fn.Recover }, nil)
					if other != nil {
						c.Bad("no-error-dropped", name, pos, "the error is never tested; it is returned only at "+p.InstrPos(fl.Returned[0])+", under a condition that looks at something else, and the return at "+p.InstrPos(other)+" is reachable without it: on that path the failure is dropped silently")
						return
					}
				}
			}
			// tested, but not on every path: a branch taken before the test
			// (an earlier case of a switch, an early return) leaves the
			// function without the error having been looked at
			if len(fl.Returned) > 0 && len(fl.Sent) == 0 && len(fl.Tested) > 0 && !inLoop(in) {
				same := true
				for _, ri := range fl.Returned {
					if ri.Parent() != fn {
						same = false
					}
				}
				for _, iff := range fl.Tested {
					if iff.Parent() != fn {
						same = false
					}
				}
				if same && nilKind(NewResolver(p), ev, in) != IsNil {
					isLook := func(x ssa.Instruction) bool {
						for _, iff := range fl.Tested {
							if x == ssa.Instruction(iff) {
								return true
							}
						}
						for _, ri := range fl.Returned {
							if ri == x {
								return true
							}
						}
						return false
					}
					other := searchAvoiding(fn, in, func(x ssa.Instruction) bool { return isReturn(x) && !isLook(x) && x.Block() != fn.Recover }, isLook)
					if other != nil {
						c.Bad("no-error-dropped", name, pos, "a path from the call reaches the return at "+p.InstrPos(other)+" before the error is tested (the test sits behind another condition, e.g. a later case of a switch): on that path the failure is dropped silently")
						return
					}
				}
			}
			how := "returned"
			if len(fl.Sent) > 0 && len(fl.Returned) == 0 {
				how = "sent on an error channel"
				// handed off, not returned: every path from the failure edge to
				// the end of the function passes the hand-off (in this function
				// or in the helper it calls with the error)
				if nn, _, _ := errEdge(ev); nn != nil && nn.Parent() == fn {
					isHandoff := func(x ssa.Instruction) bool {
						for _, s := range fl.Sent {
							if s == x {
								return true
							}
						}
						// a call that passes the error (or a value built from it) on to a helper that hands it off
						if ci, ok := x.(ssa.CallInstruction); ok {
							if sc := staticCallee(ci.Common()); sc != nil && InRepo(sc) {
								for _, a := range ci.Common().Args {
									if fl.seen[a] {
										for _, s := range fl.Sent {
											if s.Parent() == sc {
												return true
											}
										}
									}
								}
							}
						}
						return false
					}
					if miss := blockReachesInstr(nn, isReturn, isHandoff); miss != nil {
						c.Bad("no-error-dropped", name, pos, "on the failure edge a path reaches the end of the function ("+p.InstrPos(miss)+") without handing the error over: under that condition the failure is dropped silently and the processor keeps running")
						return
					}
				}
			}
			c.OK("no-error-dropped", name, pos, "the error flows to a "+how+" value")
		})
	}
	c.Floor("error-returning calls in the cone", 12, ncalls)
	// 2b. an invalid login is always reported: in the function of the cone
	// that receives a login and validates it, no path returns before the
	// validation (a fast path, a duplicate filter in front of it)
	nval := 0
	for _, fn := range cone.Order {
		var val []ssa.Instruction
		for _, ci := range callsIn(fn) {
			cc := ci.Common()
			sc := staticCallee(cc)
			if sc == nil || sc.Name() != "Validate" || sc.Signature.Recv() == nil {
				continue
			}
			if nt := namedOf(sc.Signature.Recv().Type()); nt == nil || nt.Obj().Name() != "RemoteUserLogin" {
				continue
			}
			// the validated value is (a copy of) a parameter of fn
			val = append(val, ci)
		}
		if len(val) == 0 {
			continue
		}
		hasLoginParam := false
		for _, prm := range fn.Params {
			if nt := namedOf(prm.Type()); nt != nil && nt.Obj().Name() == "RemoteUserLogin" {
				hasLoginParam = true
			}
		}
		if !hasLoginParam {
			continue
		}
		nval++
		isVal := func(in ssa.Instruction) bool {
			for _, v := range val {
				if v == in {
					return true
				}
			}
			return false
		}
		skip := searchAvoiding(fn, nil, func(in ssa.Instruction) bool { return isReturn(in) && in.Block() != fn.Recover }, isVal)
		pos := p.Pos(fn.Pos())
		if skip != nil {
			pos = p.InstrPos(skip)
		}
		c.Cond(skip == nil, "invalid-login-rejected", "validation of the delivered login in "+fn.Name(), pos, "every path through the function passes the validation", "the function can return before the login was validated (an early exit in front of Validate): an invalid login taking that path is dropped instead of stopping the processor with its error")
	}
	c.Floor("login deliveries that validate the login", 1, nval)

	// 3. error hand-off
	handoffRule(c, cone, read)

	// 4. every reassembled event reaches the correlator (stream callback rules shared with C14)
	sub := NewCheck("C14", "other", c.Tier, c.P)
	callbackPipeline(sub)
	for _, o := range sub.Obls {
		if o.Rule == "callback-pipeline" || o.Rule == "anchor" {
			o.Rule = "event-reaches-correlator: " + o.Rule
			c.Obls = append(c.Obls, o)
		}
	}
}

// loopCarried: the call's block can reach itself without leaving through a return.
func loopCarried(in ssa.Instruction) bool { return inLoop(in) }

// parseRule checks the parse loop.
func parseRule(c *Check, cone *Cone) {
	p := c.P
	var fn *ssa.Function
	var parse *ssa.Call
	for _, f := range cone.Order {
		allInstrs(f, func(in ssa.Instruction) {
			if cl, ok := in.(*ssa.Call); ok {
				if sc := staticCallee(cl.Common()); sc != nil && strings.HasSuffix(sc.String(), "auparse.ParseLogLine") {
					fn, parse = f, cl
				}
			}
		})
	}
	if !c.Anchor("call of auparse.ParseLogLine in the processor's cone", parse != nil) {
		return
	}
	r := NewResolver(p)
	line := parse.Call.Args[0]
	// the line comes from a receive (select state)
	var sel *ssa.Select
	if ex, ok := strip(line).(*ssa.Extract); ok {
		sel, _ = ex.Tuple.(*ssa.Select)
	}
	var recvInstr ssa.Instruction
	if sel != nil {
		recvInstr = sel
	} else if u, ok := strip(line).(*ssa.UnOp); ok && u.Op == token.ARROW {
		recvInstr = u
	}
	if recvInstr == nil {
		c.Unk("parse-or-stop", "origin of the parsed line in "+fn.Name(), p.InstrPos(parse), "the line is not received from a channel in this function")
		return
	}
	// push of the parse result
	var push *ssa.Call
	npush := 0
	allInstrs(fn, func(in ssa.Instruction) {
		if cl, ok := in.(*ssa.Call); ok {
			if sc := staticCallee(cl.Common()); (sc != nil && strings.HasSuffix(sc.String(), "Reassembler).PushMessage")) || isReassemblerCall(p, cl.Common(), "PushMessage") {
				npush++
				push = cl
			}
		}
	})
	if push == nil {
		c.Bad("parse-or-stop", "PushMessage in "+fn.Name(), p.Pos(fn.Pos()), "parsed messages are never handed to the reassembler")
		return
	}
	po := r.Of(push.Call.Args[len(push.Call.Args)-1])
	c.Cond(npush == 1 && po.K == "call" && po.V == ssa.Value(parse) && po.Idx == 0, "push-parse-result", "argument of PushMessage in "+fn.Name(), p.InstrPos(push), "exactly the message parsed from the line is pushed, once", "the value pushed to the reassembler is not the parse result of the received line ("+trimOrg(po.String())+"), or it is pushed more than once")
	// emptiness test
	var emptyIf *ssa.If
	nonEmptySucc := 1
	allInstrs(fn, func(in ssa.Instruction) {
		iff, ok := in.(*ssa.If)
		if !ok {
			return
		}
		b, ok := iff.Cond.(*ssa.BinOp)
		if !ok || (b.Op != token.EQL && b.Op != token.NEQ) {
			return
		}
		if s, ok := constStr(b.Y); ok && s == "" && strip(b.X) == strip(line) {
			emptyIf = iff
			nonEmptySucc = 1
			if b.Op == token.NEQ {
				nonEmptySucc = 0
			}
		}
	})
	isPush := func(in ssa.Instruction) bool { return in == ssa.Instruction(push) }
	isRecv := func(in ssa.Instruction) bool { return in == recvInstr }
	// from the receipt: no way back to the receipt avoiding the push, except through the emptiness test
	barrier := func(in ssa.Instruction) bool { return isPush(in) || (emptyIf != nil && in == ssa.Instruction(emptyIf)) }
	// start after the select: only the line-receiving case matters; other cases (Done) return
	skip := searchAvoiding(fn, recvInstr, isRecv, barrier)
	c.Cond(skip == nil, "parse-or-stop", "paths from the receipt of a line to the next receipt in "+fn.Name(), p.InstrPos(recvInstr), "every path pushes the parsed message, returns, or goes through the test line == \"\"", "a received line can be consumed without being parsed and pushed and without stopping the processor (a path skips it before the emptiness test or around the push): the record is lost silently")
	if emptyIf != nil {
		skip2 := blockReachesInstr(emptyIf.Block().Succs[nonEmptySucc], isRecv, isPush)
		c.Cond(skip2 == nil, "parse-or-stop", "non-empty lines in "+fn.Name(), p.InstrPos(emptyIf), "after line != \"\" every path pushes or returns", "a non-empty line can be dropped after the emptiness test")
	}
	// parse error path
	var perr ssa.Value
	if rr := parse.Referrers(); rr != nil {
		for _, u := range *rr {
			if ex, ok := u.(*ssa.Extract); ok && ex.Index == 1 {
				perr = ex
			}
		}
	}
	if perr == nil {
		c.Bad("parse-error-identifies-line", "parse error in "+fn.Name(), p.InstrPos(parse), "the parse error is discarded")
		return
	}
	nn, _, _ := errEdge(perr)
	if nn == nil {
		c.Bad("parse-error-identifies-line", "parse error in "+fn.Name(), p.InstrPos(parse), "the parse error is not tested")
		return
	}
	if bad := blockReachesInstr(nn, func(in ssa.Instruction) bool { return isRecv(in) || isPush(in) }, nil); bad != nil {
		c.Bad("parse-error-identifies-line", "non-nil edge of the parse error in "+fn.Name(), p.InstrPos(parse), "after a parse error the loop continues: the unparsable line is skipped silently")
		return
	}
	okRet, why := returnsOnEdge(r, fn, nn, perr, false)
	// the returned error mentions the line and carries the parse error
	usesLine, usesErr := false, false
	for _, b := range fn.Blocks {
		if !(b == nn || nn.Dominates(b)) {
			continue
		}
		for _, in := range b.Instrs {
			var ops []*ssa.Value
			for _, op := range in.Operands(ops) {
				if *op == nil {
					continue
				}
				if strip(*op) == strip(line) {
					usesLine = true
				}
				if *op == perr {
					usesErr = true
				}
			}
		}
	}
	c.Cond(okRet && usesLine && usesErr, "parse-error-identifies-line", "non-nil edge of the parse error in "+fn.Name(), p.InstrPos(parse), "returns a non-nil error built from the offending line and the parse error", "the parse-error path does not return an error that identifies the offending line ("+why+fmt.Sprintf(" line used: %v, parse error used: %v)", usesLine, usesErr))
}

// handoffRule checks the error channel between the stream callback and Read.
func handoffRule(c *Check, cone *Cone, read *ssa.Function) {
	p := c.P
	r := NewResolver(p)
	// error channels created in Read
	type echan struct {
		mk   *ssa.MakeChan
		cell *ssa.Alloc
		cap  int64
	}
	var chans []echan
	// the processor: Read and the functions of its package it is split into
	body := cmdBody(p, read)
	for _, bf := range body {
		allInstrs(bf, func(in ssa.Instruction) {
			mk, ok := in.(*ssa.MakeChan)
			if !ok {
				return
			}
			ch, ok := mk.Type().Underlying().(*types.Chan)
			if !ok || !isErrorType(ch.Elem()) {
				return
			}
			e := echan{mk: mk, cap: -1}
			if k, ok := mk.Size.(*ssa.Const); ok && k.Value != nil && k.Value.Kind() == constant.Int {
				e.cap = k.Int64()
			}
			if rr := mk.Referrers(); rr != nil {
				for _, u := range *rr {
					if st, ok := u.(*ssa.Store); ok {
						if a, ok := st.Addr.(*ssa.Alloc); ok {
							e.cell = a
						}
					}
				}
			}
			chans = append(chans, e)
		})
	}
	c.Floor("error channels created by the processor", 2, len(chans))
	// sends on error channels in the cone
	nsend := 0
	for _, fn := range cone.Order {
		allInstrs(fn, func(in ssa.Instruction) {
			switch x := in.(type) {
			case *ssa.Send:
				ch, ok := x.Chan.Type().Underlying().(*types.Chan)
				if !ok || !isErrorType(ch.Elem()) {
					return
				}
				nsend++
				// bare send: accepted only for the single-shot completion channel (C13 idiom b)
				ok2, why := idiomBufferedSend(NewResolver(p), x, cone)
				c.Cond(ok2, "error-handoff-keeps-first-error", "send of an error in "+fn.Name(), p.InstrPos(in), why, "a bare send of an error can block for ever or be lost: "+why)
			case *ssa.Select:
				for _, st := range x.States {
					if st.Dir != types.SendOnly {
						continue
					}
					ch, ok := st.Chan.Type().Underlying().(*types.Chan)
					if !ok || !isErrorType(ch.Elem()) {
						continue
					}
					nsend++
					name := "send of an error in " + fn.Name() + " (" + describeErrSend(r, st.Send) + ")"
					if x.Blocking {
						ok2, why := idiomSelect(&CtxJudge{P: p}, NewResolver(p), x)
						c.Cond(ok2, "error-handoff-keeps-first-error", name, p.InstrPos(in), "blocking send with cancellation: "+why, "blocking send of an error without a cancellation alternative: "+why)
						continue
					}
					// non-blocking: the channel the field refers to must have capacity >= 1
					capOK := false
					why := "cannot relate the channel to its make()"
					// the channel as the sender knows it; when the send sits in a
					// helper or a method of a named channel type, at its call sites
					cos := resolveUp(p, fn, st.Chan, 0)
					for _, co := range cos {
						if co.K == "field" {
							// stores to that field
							fv := fieldVarOf(co)
							for _, f2 := range p.AllRepoFuncs() {
								allInstrs(f2, func(i2 ssa.Instruction) {
									s2, ok := i2.(*ssa.Store)
									if !ok {
										return
									}
									fa, ok := s2.Addr.(*ssa.FieldAddr)
									if !ok || structFieldVar(fa.X.Type(), fa.Field) != fv || !p.InDaemon(f2) {
										return
									}
									var soAlts []*Org
									for _, a0 := range resolveUp(p, f2, s2.Val, 0) {
										soAlts = append(soAlts, Deref(a0, 0)...)
									}
									for _, a := range soAlts {
										if mk, ok := a.V.(*ssa.MakeChan); ok {
											if k, ok := mk.Size.(*ssa.Const); ok && k.Value != nil && k.Int64() >= 1 {
												capOK = true
												why = fmt.Sprintf("channel made with capacity %d at %s", k.Int64(), p.InstrPos(mk))
											} else {
												capOK = false
												why = "the channel is made without a buffer: with a non-blocking send the error is dropped whenever the processor is not already waiting in its select"
											}
										}
									}
								})
							}
						}
					}
					c.Cond(capOK, "error-handoff-keeps-first-error", name, p.InstrPos(in), "non-blocking send into a buffered channel: the first error always fits ("+why+")", why)
				}
			}
		})
	}
	c.Floor("sends of errors in the cone", 2, nsend)
	// Read's select receives from every error channel and returns what it got
	var sel *ssa.Select
	for _, bf := range body {
		allInstrs(bf, func(in ssa.Instruction) {
			if s, ok := in.(*ssa.Select); ok && s.Blocking && (sel == nil || len(s.States) > len(sel.States)) {
				sel = s
			}
		})
	}
	if sel != nil && sel.Parent() != read {
		// the loop was split off: its result must be what Read returns
		selFn := sel.Parent()
		okChain := false
		for _, site := range staticCallers(p, selFn) {
			if sv, isVal := site.(ssa.Value); isVal && site.Parent() == read {
				fl := &errFlow{p: p, seen: map[ssa.Value]bool{}}
				fl.follow(sv, 0)
				okChain = len(fl.Returned) > 0
			}
		}
		c.Cond(okChain, "processor-returns-received-error", "result of the loop function "+selFn.Name(), p.Pos(selFn.Pos()), "returned by Read", "the function holding the processor's select loop is not called from Read with its result returned: an error it stops with does not end the processor")
	}
	chanMatches := func(v ssa.Value, mk *ssa.MakeChan, cell *ssa.Alloc) bool {
		if cell != nil && cellOf(r, v) == cell {
			return true
		}
		if strip(v) == ssa.Value(mk) {
			return true
		}
		if sel.Parent() != read {
			for _, o0 := range resolveUp(p, sel.Parent(), v, 0) {
				for _, o := range Deref(o0, 0) {
					if o.K == "alloc" && o.V == ssa.Value(mk) {
						return true
					}
				}
			}
		}
		return false
	}
	if sel == nil {
		c.Bad("processor-returns-received-error", "select loop of Read", p.Pos(read.Pos()), "no blocking select in the processor")
		return
	}
	for _, e := range chans {
		found := false
		k := 0
		for i, st := range sel.States {
			if st.Dir != types.RecvOnly {
				continue
			}
			if chanMatches(st.Chan, e.mk, e.cell) {
				found = true
				cb := selectCaseBlock(sel, i)
				name := "receive case on " + chanVarName(e.cell)
				if cb == nil {
					c.Unk("processor-returns-received-error", name, p.InstrPos(sel), "case block not found")
					continue
				}
				// received value: extract 2+k
				var got ssa.Value
				if rr := sel.Referrers(); rr != nil {
					for _, u := range *rr {
						if ex, ok := u.(*ssa.Extract); ok && ex.Index == 2+k {
							got = ex
						}
					}
				}
				if got == nil {
					c.Bad("processor-returns-received-error", name, p.InstrPos(sel), "the received error is discarded")
					continue
				}
				fl := &errFlow{p: p, seen: map[ssa.Value]bool{}}
				fl.follow(got, 0)
				retOK := false
				for _, ri := range fl.Returned {
					ret := ri.(*ssa.Return)
					if (ret.Block() == cb || cb.Dominates(ret.Block())) && nilKind(r, ret.Results[0], ret) == NonNil {
						retOK = true
					}
					// single exit: the case assigns the error to a result
					// variable and leaves the loop; the return yields a phi
					// whose edges coming from this case carry that error
					res0 := ret.Results[0]
					if _, isLoad := res0.(*ssa.UnOp); isLoad {
						// a result spilled because of defer: what was stored into it
						if vs := fsValues(res0, ret, nil); len(vs) == 1 && vs[0] != nil {
							res0 = vs[0]
						}
					}
					if phi, isPhi := res0.(*ssa.Phi); isPhi {
						viaOK, viaBad := false, false
						for i, e := range phi.Edges {
							pred := phi.Block().Preds[i]
							if pred != cb && !cb.Dominates(pred) {
								continue
							}
							if fl.seen[e] && len(pred.Instrs) > 0 && nilKind(r, e, pred.Instrs[len(pred.Instrs)-1]) == NonNil {
								viaOK = true
							} else {
								viaBad = true
							}
						}
						if viaOK && !viaBad {
							retOK = true
						}
					}
				}
				loops := reachesFromBlock(cb, sel)
				c.Cond(retOK && !loops, "processor-returns-received-error", name, p.InstrPos(sel), "the case returns a non-nil error that wraps the received value", "the processor does not stop with the error it received on this channel (it is logged, dropped or the loop continues)")
			}
			k++
		}
		if !found {
			c.Bad("processor-returns-received-error", "receive case on "+chanVarName(e.cell), p.InstrPos(sel), "the processor's select never receives from this error channel: errors sent on it are never seen")
		}
	}
}

func chanVarName(a *ssa.Alloc) string {
	if a == nil {
		return "the error channel handed to the stream callback"
	}
	return a.Comment
}

func describeErrSend(r *Resolver, v ssa.Value) string {
	o := r.Of(v)
	return trimOrg(strings.SplitN(o.String(), "@", 2)[0])
}

// isReassemblerCall: a call of method name of go-libaudit's Reassembler,
// directly or through an interface the Reassembler implements.
func isReassemblerCall(p *Prog, cc *ssa.CallCommon, name string) bool {
	obj := p.ExtObj("github.com/elastic/go-libaudit/v2", "Reassembler", name)
	if obj == nil {
		return false
	}
	return isCalleeObj(cc, obj)
}
