package main

import (
	"fmt"
	"go/constant"
	"go/token"
	"go/types"
	"strings"

	"golang.org/x/tools/go/ssa"
)

// Analysis G: "may end with the record delimiter" taint, forward over SSA
// values, call edges (static and call-graph resolved), struct fields
// (field-based), variable cells and string channels.

type TaintHit struct {
	Kind string // regex compare slot atoi suffix
	At   ssa.Instruction
	Desc string
	Path []string
}

type Taint struct {
	P       *Prog
	Delim   rune
	why     map[ssa.Value][]string // value -> path description
	work    []ssa.Value
	fields  map[*types.Var][]string
	chanStr []string // string channels carry tainted values (path)
	lenOf   map[ssa.Value]ssa.Value
	Hits    []TaintHit
	Sanit   []string // sanitisers met
	Fns     map[*ssa.Function]bool
	rx      map[string]*RegexVar
	retSeen map[*ssa.Function]bool
}

func NewTaint(p *Prog, delim rune) *Taint {
	return &Taint{P: p, Delim: delim, why: map[ssa.Value][]string{}, fields: map[*types.Var][]string{}, lenOf: map[ssa.Value]ssa.Value{}, Fns: map[*ssa.Function]bool{}, retSeen: map[*ssa.Function]bool{}}
}

func (t *Taint) mark(v ssa.Value, path []string, step string) {
	if v == nil {
		return
	}
	if _, ok := t.why[v]; ok {
		return
	}
	np := append(append([]string{}, path...), step)
	if len(np) > 14 {
		np = append(np[:6], append([]string{"..."}, np[len(np)-6:]...)...)
	}
	t.why[v] = np
	t.work = append(t.work, v)
}

func (t *Taint) Run() {
	for len(t.work) > 0 {
		v := t.work[len(t.work)-1]
		t.work = t.work[:len(t.work)-1]
		t.propagate(v)
	}
}

func constStr(v ssa.Value) (string, bool) {
	c, ok := v.(*ssa.Const)
	if !ok || c.Value == nil || c.Value.Kind() != constant.String {
		return "", false
	}
	return constant.StringVal(c.Value), true
}

func (t *Taint) hit(kind string, at ssa.Instruction, desc string, path []string) {
	t.Hits = append(t.Hits, TaintHit{kind, at, desc, path})
}

func isStringish(tp types.Type) bool {
	switch u := tp.Underlying().(type) {
	case *types.Basic:
		return u.Info()&types.IsString != 0
	case *types.Slice:
		return isStringish(u.Elem())
	case *types.Tuple:
		for i := 0; i < u.Len(); i++ {
			if isStringish(u.At(i).Type()) {
				return true
			}
		}
	}
	return false
}

func (t *Taint) propagate(v ssa.Value) {
	path := t.why[v]
	if f := parentOf(v); f != nil {
		t.Fns[f] = true
	}
	refs := v.Referrers()
	if refs == nil {
		return
	}
	for _, u := range *refs {
		pos := t.P.InstrPos(u)
		switch x := u.(type) {
		case *ssa.Phi:
			t.mark(x, path, "phi")
		case *ssa.MakeInterface:
			t.mark(x, path, "iface")
		case *ssa.ChangeType:
			t.mark(x, path, "conv")
		case *ssa.Convert:
			t.mark(x, path, "conv")
		case *ssa.Extract:
			if isStringish(x.Type()) {
				t.mark(x, path, fmt.Sprintf("result #%d", x.Index))
			}
		case *ssa.Index:
			if x.X == v {
				t.mark(x, path, "element @"+pos)
			}
		case *ssa.IndexAddr:
			if x.X == v {
				if t.firstOfSplit(x, v) {
					t.Sanit = append(t.Sanit, "element 0 of a split with at least two elements (not the tail) at "+pos)
					continue
				}
				t.mark(x, path, "element @"+pos)
			}
		case *ssa.UnOp:
			if x.Op == token.MUL && x.X == v {
				t.mark(x, path, "load")
			}
		case *ssa.Slice:
			if x.X != v {
				continue
			}
			if t.sliceStripsLast(x) {
				t.Sanit = append(t.Sanit, "x[:len(x)-1] at "+pos)
				continue
			}
			if x.High != nil {
				// a prefix slice with an unrelated bound: tail may be cut, stay conservative
			}
			t.mark(x, path, "slice @"+pos)
		case *ssa.BinOp:
			switch x.Op {
			case token.ADD:
				t.mark(x, path, "concat")
			case token.EQL, token.NEQ, token.LSS, token.LEQ, token.GTR, token.GEQ:
				other := x.Y
				if x.Y == v {
					other = x.X
				}
				if _, isLen := t.lenOf[v]; isLen {
					// comparison of the length of a delimiter-carrying string
					if c, ok := other.(*ssa.Const); ok && c.Value != nil {
						if lenEmptinessTest(x, v, c) {
							continue // len(x) == 0 and its spellings: the emptiness test x == "" (no record is empty)
						}
						// against a constant: classification by size; off by one with the delimiter
						t.hit("compare", u, "length of the record (delimiter included) compared with a constant", path)
					} else {
						t.hit("compare", u, "length of the record (delimiter included) compared with "+other.Name(), path)
					}
					continue
				}
				if isStringish(v.Type()) {
					if s, ok := constStr(other); ok && s == "" {
						continue // emptiness test: unaffected in the sense of C07 (no record is empty)
					}
					t.hit("compare", u, "record text (delimiter included) compared for equality/order", path)
				}
			}
		case *ssa.Store:
			if x.Val != v {
				continue
			}
			switch a := x.Addr.(type) {
			case *ssa.FieldAddr:
				fv := structFieldVar(a.X.Type(), a.Field)
				if fv != nil {
					t.taintField(fv, path, "field "+fv.Name()+" @"+pos)
				}
			case *ssa.Alloc:
				t.taintCell(a, path, "var "+a.Comment)
			case *ssa.IndexAddr:
				// element of an array/slice: taint the container
				t.mark(a.X, path, "stored in element @"+pos)
			case *ssa.FreeVar:
				r := NewResolver(t.P)
				if o := r.Of(a); o.K == "cell" {
					t.taintCell(o.V.(*ssa.Alloc), path, "captured var")
				}
			case *ssa.Global:
				if rr := a.Referrers(); rr != nil {
					_ = rr
				}
			}
		case *ssa.MapUpdate:
			if x.Value == v || x.Key == v {
				t.hit("slot", u, "record text (delimiter included) stored into a map (event field)", path)
			}
		case *ssa.Send:
			if x.X == v {
				t.taintChan(x.Chan.Type(), path, "sent on channel @"+pos)
			}
		case *ssa.Select:
			for _, st := range x.States {
				if st.Send == v {
					t.taintChan(st.Chan.Type(), path, "sent on channel @"+pos)
				}
			}
		case *ssa.Return:
			t.taintReturn(x, v, path)
		case ssa.CallInstruction:
			t.call(x, v, path)
		}
	}
}

func parentOf(v ssa.Value) *ssa.Function {
	switch x := v.(type) {
	case ssa.Instruction:
		return x.Parent()
	case *ssa.Parameter:
		return x.Parent()
	case *ssa.FreeVar:
		return x.Parent()
	}
	return nil
}

func structFieldVar(t types.Type, i int) *types.Var {
	st, ok := deref(t).Underlying().(*types.Struct)
	if !ok || i >= st.NumFields() {
		return nil
	}
	return st.Field(i)
}

// sliceStripsLast recognises x[lo:len(x)-k] with k>=1.
func (t *Taint) sliceStripsLast(s *ssa.Slice) bool {
	b, ok := s.High.(*ssa.BinOp)
	if !ok || b.Op != token.SUB {
		return false
	}
	k, ok := b.Y.(*ssa.Const)
	if !ok || k.Value == nil || k.Int64() < 1 {
		return false
	}
	c, ok := b.X.(*ssa.Call)
	if !ok {
		return false
	}
	bi, ok := c.Call.Value.(*ssa.Builtin)
	return ok && bi.Name() == "len" && len(c.Call.Args) == 1 && c.Call.Args[0] == s.X
}

func (t *Taint) taintField(fv *types.Var, path []string, step string) {
	if _, ok := t.fields[fv]; ok {
		return
	}
	np := append(append([]string{}, path...), step)
	t.fields[fv] = np
	for _, fn := range t.P.AllRepoFuncs() {
		allInstrs(fn, func(in ssa.Instruction) {
			switch x := in.(type) {
			case *ssa.FieldAddr:
				if structFieldVar(x.X.Type(), x.Field) == fv {
					if rr := x.Referrers(); rr != nil {
						for _, u := range *rr {
							if ld, ok := u.(*ssa.UnOp); ok && ld.Op == token.MUL {
								t.mark(ld, np, "load @"+t.P.InstrPos(ld))
							}
						}
					}
				}
			case *ssa.Field:
				if structFieldVar(x.X.Type(), x.Field) == fv {
					t.mark(x, np, "read @"+t.P.InstrPos(x))
				}
			}
		})
	}
}

func (t *Taint) taintCell(a *ssa.Alloc, path []string, step string) {
	var visit func(v ssa.Value)
	seen := map[ssa.Value]bool{}
	visit = func(v ssa.Value) {
		if seen[v] {
			return
		}
		seen[v] = true
		rr := v.Referrers()
		if rr == nil {
			return
		}
		for _, u := range *rr {
			switch x := u.(type) {
			case *ssa.UnOp:
				if x.Op == token.MUL && x.X == v {
					t.mark(x, path, step)
				}
			case *ssa.MakeClosure:
				fn := x.Fn.(*ssa.Function)
				for i, b := range x.Bindings {
					if b == v && i < len(fn.FreeVars) {
						visit(fn.FreeVars[i])
					}
				}
			case *ssa.FieldAddr:
				// struct variable: whole-value taint reaches its fields
				if x.X == v {
					if lr := x.Referrers(); lr != nil {
						for _, lu := range *lr {
							if ld, ok := lu.(*ssa.UnOp); ok && ld.Op == token.MUL && isStringish(ld.Type()) {
								t.mark(ld, path, step)
							}
						}
					}
				}
			}
		}
	}
	visit(a)
}

func (t *Taint) taintChan(ct types.Type, path []string, step string) {
	ch, ok := ct.Underlying().(*types.Chan)
	if !ok || !isStringish(ch.Elem()) {
		return
	}
	if t.chanStr != nil {
		return
	}
	np := append(append([]string{}, path...), step)
	t.chanStr = np
	for _, fn := range t.P.AllRepoFuncs() {
		if !t.P.InDaemon(fn) {
			continue
		}
		allInstrs(fn, func(in ssa.Instruction) {
			switch x := in.(type) {
			case *ssa.UnOp:
				if x.Op == token.ARROW {
					if c, ok := x.X.Type().Underlying().(*types.Chan); ok && isStringish(c.Elem()) {
						t.mark(x, np, "received @"+t.P.InstrPos(x))
					}
				}
			case *ssa.Select:
				k := 0
				for _, st := range x.States {
					if st.Dir == types.RecvOnly {
						if c, ok := st.Chan.Type().Underlying().(*types.Chan); ok && isStringish(c.Elem()) {
							// received value is tuple element 2+k
							if rr := x.Referrers(); rr != nil {
								for _, u := range *rr {
									if ex, ok := u.(*ssa.Extract); ok && ex.Index == 2+k {
										t.mark(ex, np, "received @"+t.P.InstrPos(x))
									}
								}
							}
						}
						k++
					}
				}
			}
		})
	}
}

func (t *Taint) taintReturn(ret *ssa.Return, v ssa.Value, path []string) {
	fn := ret.Parent()
	idx := -1
	for i, r := range ret.Results {
		if r == v {
			idx = i
		}
	}
	if idx < 0 {
		return
	}
	node := t.P.graph().Nodes[fn]
	if node == nil {
		return
	}
	for _, e := range node.In {
		if e.Site == nil {
			continue
		}
		if cf := e.Site.Parent(); !t.P.InDaemon(cf) && !(cf.Synthetic != "" && t.P.InDaemon(unwrapBound(cf))) {
			continue
		}
		cv, ok := e.Site.(ssa.Value)
		if !ok {
			continue
		}
		step := "returned by " + fn.Name()
		if len(ret.Results) == 1 {
			t.mark(cv, path, step)
		} else if rr := cv.Referrers(); rr != nil {
			for _, u := range *rr {
				if ex, ok := u.(*ssa.Extract); ok && ex.Index == idx {
					t.mark(ex, path, step)
				}
			}
		}
	}
}

func (t *Taint) delimInCutset(v ssa.Value) bool {
	s, ok := constStr(v)
	return ok && strings.ContainsRune(s, t.Delim)
}

func (t *Taint) call(ci ssa.CallInstruction, v ssa.Value, path []string) {
	cc := ci.Common()
	pos := t.P.InstrPos(ci)
	argIdx := -1
	for i, a := range cc.Args {
		if a == v {
			argIdx = i
		}
	}
	res, _ := ci.(ssa.Value)
	if b, ok := cc.Value.(*ssa.Builtin); ok {
		switch b.Name() {
		case "len":
			if res != nil && isStringish(v.Type()) {
				if _, isStr := v.Type().Underlying().(*types.Basic); isStr {
					t.lenOf[res] = v
					t.mark(res, path, "len() @"+pos)
				}
			}
		case "append":
			if res != nil {
				t.mark(res, path, "append")
			}
		}
		return
	}
	sc := staticCallee(cc)
	if sc != nil && !InRepo(sc) {
		name := sc.String()
		switch {
		case name == "strings.TrimSuffix":
			if argIdx == 0 {
				if s, ok := constStr(cc.Args[1]); ok && strings.HasSuffix(s, string(t.Delim)) {
					t.Sanit = append(t.Sanit, "strings.TrimSuffix(_, "+fmt.Sprintf("%q", s)+") at "+pos)
					return
				}
				t.mark(res, path, "TrimSuffix(other) @"+pos)
			}
		case name == "strings.TrimRight" || name == "strings.Trim":
			if argIdx == 0 {
				if t.delimInCutset(cc.Args[1]) {
					t.Sanit = append(t.Sanit, name+" with the delimiter in its cutset at "+pos)
					return
				}
				t.mark(res, path, name+" @"+pos)
			}
		case name == "strings.TrimSpace" || name == "strings.Fields":
			t.Sanit = append(t.Sanit, name+" at "+pos)
		case name == "strings.HasSuffix" || name == "strings.EqualFold":
			if argIdx == 0 {
				t.hit("suffix", ci, name+" on the record text (delimiter included)", path)
			}
		case name == "strconv.Atoi" || name == "strconv.ParseInt" || name == "strconv.ParseUint":
			t.hit("atoi", ci, "numeric conversion of text that may end with the delimiter", path)
		case strings.HasPrefix(name, "(*regexp.Regexp)."):
			if argIdx >= 1 {
				t.regexSink(ci, cc, path)
			}
		case name == "github.com/elastic/go-libaudit/v2/auparse.ParseLogLine":
			// tolerant: auparse.Parse trims white space (trusted, read in the module cache)
			t.Sanit = append(t.Sanit, "auparse.ParseLogLine (trims space) at "+pos)
		case strings.HasPrefix(name, "fmt."):
			// diagnostic text (error messages, logs): not part of the processing path
		case strings.HasPrefix(name, "strings."):
			switch sc.Name() {
			case "HasPrefix", "Contains", "ContainsRune", "ContainsAny", "Index", "IndexByte", "IndexRune", "Count", "LastIndex":
				return
			}
			if res != nil && isStringish(res.Type()) {
				t.mark(res, path, sc.Name()+" @"+pos)
			}
		case strings.HasPrefix(name, "(*go.uber.org/zap."):
			// logging only
		default:
			if res != nil && isStringish(res.Type()) {
				t.mark(res, path, sc.Name()+" @"+pos)
			}
		}
		return
	}
	// repository callees (static or resolved)
	var callees []*ssa.Function
	if sc != nil {
		callees = []*ssa.Function{sc}
	} else {
		callees = t.P.dynCallees(ci)
	}
	for _, cal := range callees {
		if cal.Blocks == nil {
			continue
		}
		if !t.P.InDaemon(cal) && !(cal.Synthetic != "" && t.P.InDaemon(unwrapBound(cal))) {
			continue // the taint is followed through repository code only
		}
		args := cc.Args
		off := 0
		if cc.IsInvoke() {
			off = 1
		}
		for i, a := range args {
			if a == v && i+off < len(cal.Params) {
				t.mark(cal.Params[i+off], path, "arg of "+cal.Name()+" @"+pos)
			}
		}
		// bound-method wrappers: free variables carry the receiver, params map 1:1
	}
}

func (t *Taint) regexSink(ci ssa.CallInstruction, cc *ssa.CallCommon, path []string) {
	if t.rx == nil {
		t.rx = map[string]*RegexVar{}
		for _, rel := range []string{pkgSshd} {
			for _, rv := range t.P.RegexVars(rel) {
				t.rx[rv.Name] = rv
			}
		}
	}
	g := regexGlobalOf(cc.Args[0])
	rv := t.rx[g]
	if rv == nil || rv.Tree == nil {
		t.hit("regex", ci, "record text (delimiter included) matched against a pattern that cannot be inspected", path)
		return
	}
	seq := topSeq(rv.Tree)
	if rv.EndAnchored() {
		last := seq[len(seq)-2:]
		if len(seq) >= 2 && !canConsume(last[0], t.Delim) {
			t.hit("regex", ci, fmt.Sprintf("record text (delimiter included) matched against end-anchored pattern %s: `$` is end-of-text and the preceding element cannot consume the delimiter, so the pattern never matches a framed record", rv.Name), path)
		}
		return
	}
	if len(seq) > 0 && canConsume(seq[len(seq)-1], t.Delim) {
		t.hit("regex", ci, fmt.Sprintf("record text (delimiter included) matched against %s whose last element can capture the delimiter", rv.Name), path)
	}
}

// firstOfSplit: ia selects constant element 0 of a strings.Split result
// under a guard on the number of elements: only the last element of a
// split can carry the trailing delimiter.
func (t *Taint) firstOfSplit(ia *ssa.IndexAddr, v ssa.Value) bool {
	k, ok := ia.Index.(*ssa.Const)
	if !ok || k.Value == nil || k.Int64() != 0 {
		return false
	}
	c, ok := v.(*ssa.Call)
	if !ok {
		return false
	}
	sc := staticCallee(c.Common())
	if sc == nil || !(sc.String() == "strings.Split" || sc.String() == "strings.SplitN") {
		return false
	}
	for _, g := range GuardsOf(ia) {
		a := atomsOf(g)
		b, ok := a.V.(*ssa.BinOp)
		if !ok {
			continue
		}
		for _, side := range []ssa.Value{b.X, b.Y} {
			if lc, ok := side.(*ssa.Call); ok {
				if bi, ok := lc.Call.Value.(*ssa.Builtin); ok && bi.Name() == "len" && lc.Call.Args[0] == v {
					return true
				}
			}
		}
	}
	return false
}

// lenEmptinessTest: the comparison cmp of the length value l with the
// constant c is one of the spellings of "the string is (not) empty":
// l == 0, l != 0, l > 0, l <= 0, l < 1, l >= 1 (and mirrored).
func lenEmptinessTest(cmp *ssa.BinOp, l ssa.Value, c *ssa.Const) bool {
	n, ok := constant.Int64Val(constant.ToInt(c.Value))
	if !ok || c.Value.Kind() != constant.Int {
		return false
	}
	op := cmp.Op
	if cmp.Y == l && cmp.X != l { // c OP l  ==  l OP' c
		switch op {
		case token.LSS:
			op = token.GTR
		case token.GTR:
			op = token.LSS
		case token.LEQ:
			op = token.GEQ
		case token.GEQ:
			op = token.LEQ
		}
	}
	switch op {
	case token.EQL, token.NEQ, token.GTR, token.LEQ:
		return n == 0
	case token.LSS, token.GEQ:
		return n == 1
	}
	return false
}
