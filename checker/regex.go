package main

import (
	"go/constant"
	"regexp/syntax"
	"sort"
	"strings"
	"unicode"

	"golang.org/x/tools/go/ssa"
)

// Analysis H: syntax-tree queries on the compiled patterns. A pattern is
// never evaluated on an input.

type RegexVar struct {
	Global  *ssa.Global
	Name    string // pkg.name
	Pattern string
	Tree    *syntax.Regexp
	Store   *ssa.Store
	Stores  int // number of stores to the variable in the whole program
	Err     string
}

// RegexVars collects every package-level *regexp.Regexp of a repository
// package that is initialised with regexp.MustCompile(<constant>).
func (p *Prog) RegexVars(rel string) map[*ssa.Global]*RegexVar {
	out := map[*ssa.Global]*RegexVar{}
	pk := p.RepoPkg(rel)
	if pk == nil {
		return out
	}
	must := p.ExtObj("regexp", "", "MustCompile")
	comp := p.ExtObj("regexp", "", "Compile")
	for _, m := range pk.Members {
		g, ok := m.(*ssa.Global)
		if !ok {
			continue
		}
		if typeName(deref(g.Type())) != "*regexp.Regexp" {
			continue
		}
		out[g] = &RegexVar{Global: g, Name: pk.Pkg.Name() + "." + g.Name()}
	}
	// stores anywhere in the repository
	for _, fn := range p.AllRepoFuncs() {
		allInstrs(fn, func(in ssa.Instruction) {
			st, ok := in.(*ssa.Store)
			if !ok {
				return
			}
			g, ok := st.Addr.(*ssa.Global)
			if !ok {
				return
			}
			rv := out[g]
			if rv == nil {
				return
			}
			rv.Stores++
			rv.Store = st
			c, ok := st.Val.(*ssa.Call)
			if !ok || !(isCalleeObj(c.Common(), must) || isCalleeObj(c.Common(), comp)) {
				rv.Err = "not initialised by regexp.MustCompile"
				return
			}
			k, ok := c.Call.Args[0].(*ssa.Const)
			if !ok || k.Value == nil || k.Value.Kind() != constant.String {
				rv.Err = "pattern is not a constant"
				return
			}
			rv.Pattern = constant.StringVal(k.Value)
			t, err := syntax.Parse(rv.Pattern, syntax.Perl)
			if err != nil {
				rv.Err = "pattern does not parse: " + err.Error()
				return
			}
			rv.Tree = t
		})
	}
	return out
}

func sortedRegexVars(m map[*ssa.Global]*RegexVar) []*RegexVar {
	var out []*RegexVar
	for _, v := range m {
		out = append(out, v)
	}
	sort.Slice(out, func(i, j int) bool { return out[i].Name < out[j].Name })
	return out
}

// topSeq returns the top-level sequence of a pattern.
func topSeq(t *syntax.Regexp) []*syntax.Regexp {
	if t.Op == syntax.OpConcat {
		return t.Sub
	}
	return []*syntax.Regexp{t}
}

func (rv *RegexVar) BeginAnchored() bool {
	s := topSeq(rv.Tree)
	return len(s) > 0 && s[0].Op == syntax.OpBeginText
}

func (rv *RegexVar) EndAnchored() bool {
	s := topSeq(rv.Tree)
	return len(s) > 0 && s[len(s)-1].Op == syntax.OpEndText
}

// LeadingLiteral returns the literal text the pattern must start with
// (after an optional ^).
func (rv *RegexVar) LeadingLiteral() string {
	s := topSeq(rv.Tree)
	i := 0
	if len(s) > 0 && s[0].Op == syntax.OpBeginText {
		i = 1
	}
	var b strings.Builder
	for ; i < len(s); i++ {
		if s[i].Op != syntax.OpLiteral || s[i].Flags&syntax.FoldCase != 0 {
			break
		}
		b.WriteString(string(s[i].Rune))
	}
	return b.String()
}

// Groups returns the named capture groups in order.
func (rv *RegexVar) Groups() []string {
	var out []string
	var walk func(t *syntax.Regexp)
	walk = func(t *syntax.Regexp) {
		if t.Op == syntax.OpCapture && t.Name != "" {
			out = append(out, t.Name)
		}
		for _, s := range t.Sub {
			walk(s)
		}
	}
	walk(rv.Tree)
	return out
}

func (rv *RegexVar) HasGroup(n string) bool {
	for _, g := range rv.Groups() {
		if g == n {
			return true
		}
	}
	return false
}

func (rv *RegexVar) Group(n string) *syntax.Regexp {
	var out *syntax.Regexp
	var walk func(t *syntax.Regexp)
	walk = func(t *syntax.Regexp) {
		if t.Op == syntax.OpCapture && t.Name == n && out == nil {
			out = t
		}
		for _, s := range t.Sub {
			walk(s)
		}
	}
	walk(rv.Tree)
	return out
}

// repClass describes a group of the shape (class)* / (class)+.
type repClass struct {
	OK     bool
	Min    int
	Greedy bool
	Any    bool   // any char (possibly except newline)
	Ranges []rune // pairs lo,hi when !Any
	Node   *syntax.Regexp
	Max    int // -1 = unbounded
}

func groupRep(cap *syntax.Regexp) repClass {
	if cap == nil || len(cap.Sub) != 1 {
		return repClass{}
	}
	r := cap.Sub[0]
	var rc repClass
	rc.Max = -1
	switch r.Op {
	case syntax.OpStar:
		rc.Min = 0
	case syntax.OpPlus:
		rc.Min = 1
	case syntax.OpRepeat:
		rc.Min = r.Min
		rc.Max = r.Max
	default:
		return repClass{}
	}
	rc.Greedy = r.Flags&syntax.NonGreedy == 0
	rc.Node = r
	in := r.Sub[0]
	switch in.Op {
	case syntax.OpAnyCharNotNL, syntax.OpAnyChar:
		rc.Any = true
	case syntax.OpCharClass:
		rc.Ranges = in.Rune
	case syntax.OpLiteral:
		if len(in.Rune) == 1 {
			rc.Ranges = []rune{in.Rune[0], in.Rune[0]}
		} else {
			return repClass{}
		}
	default:
		return repClass{}
	}
	rc.OK = true
	return rc
}

func (rc repClass) Contains(r rune) bool {
	if rc.Any {
		return r != '\n'
	}
	for i := 0; i+1 < len(rc.Ranges); i += 2 {
		if rc.Ranges[i] <= r && r <= rc.Ranges[i+1] {
			return true
		}
	}
	return false
}

// ContainsAllNonNL: admits every character except newline.
func (rc repClass) ContainsAllNonNL() bool {
	if rc.Any {
		return true
	}
	// ranges must cover [0,'\n') and ('\n', MaxRune]
	cover := func(lo, hi rune) bool {
		cur := lo
		for cur <= hi {
			adv := false
			for i := 0; i+1 < len(rc.Ranges); i += 2 {
				if rc.Ranges[i] <= cur && cur <= rc.Ranges[i+1] {
					cur = rc.Ranges[i+1] + 1
					adv = true
					break
				}
			}
			if !adv {
				return false
			}
		}
		return true
	}
	return cover(0, '\n'-1) && cover('\n'+1, unicode.MaxRune)
}

// canConsume reports whether a node can match a string containing r
// (conservative: true when unsure).
func canConsume(t *syntax.Regexp, r rune) bool {
	switch t.Op {
	case syntax.OpLiteral:
		for _, x := range t.Rune {
			if x == r {
				return true
			}
		}
		return false
	case syntax.OpCharClass:
		for i := 0; i+1 < len(t.Rune); i += 2 {
			if t.Rune[i] <= r && r <= t.Rune[i+1] {
				return true
			}
		}
		return false
	case syntax.OpAnyCharNotNL:
		return r != '\n'
	case syntax.OpAnyChar:
		return true
	case syntax.OpBeginText, syntax.OpEndText, syntax.OpBeginLine, syntax.OpEndLine, syntax.OpEmptyMatch, syntax.OpWordBoundary, syntax.OpNoWordBoundary:
		return false
	}
	for _, s := range t.Sub {
		if canConsume(s, r) {
			return true
		}
	}
	return false
}

// literalText returns the concatenated literal text of a node sequence and
// whether the sequence consists of literals only.
func literalText(seq []*syntax.Regexp) (string, bool) {
	var b strings.Builder
	for _, s := range seq {
		if s.Op != syntax.OpLiteral {
			return b.String(), false
		}
		b.WriteString(string(s.Rune))
	}
	return b.String(), true
}
