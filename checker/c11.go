package main

import (
	"fmt"
	"go/constant"
	"go/token"
	"go/types"
	"sort"
	"strings"

	"golang.org/x/tools/go/ssa"
)

func init() { register("C11", "other", checkC11) }

// sshdCone: repository functions that run when one sshd line is processed.
func sshdCone(c *Check) *Cone {
	p := c.P
	root := p.Method("ingesters/syslog", "SyslogIngester", "Process")
	if !c.Anchor("(*syslog.SyslogIngester).Process", root != nil) {
		return nil
	}
	return p.ConeFrom([]*ssa.Function{root})
}

func checkC11(c *Check) {
	p := c.P
	c.Explanation = "Totality and no-fabrication rules over the cone of SyslogIngester.Process (the code that runs for one sshd line): (1) every potentially panicking instruction (index, slice, unchecked type assertion, map update, integer division, panic) is an obligation that must be discharged by a listed bounds idiom; (2) a non-nil error is returned only on the non-nil edge of an EventWriter.Write result (or propagated from a callee of the cone); (3) every dispatch predicate tests the line for a literal prefix or a ^-anchored pattern, and entry functions are referenced only from the dispatch; (4) at most one emit per activation; (5) every value that reaches an event slot is a sub-match/slice of the line, a configuration field or a fixed placeholder; (6) logins are forwarded only by accepted forms next to a succeeded event."
	c.Rule("no-panic: idioms (i) sub-match index with the same pattern's SubexpIndex of an existing group (or 0) on the non-nil edge of the match; (ii) index/slice under a dominating len() guard against a constant; (iii) S[len(M[0])+c:] (c<=1) on the unequal edge of len(S)==len(M[0]) with M a match of S; (iv) constant index into a fixed-size array; (v) update of a map that is a literal/make, the subjects literal of NewAuditEvent, or nil-checked and made")
	c.Rule("error-only-on-write-failure")
	c.Rule("keyword-predicates / entry-functions-only-from-dispatch")
	c.Rule("at-most-one-event")
	c.Rule("no-fabricated-fields")
	c.Rule("forward-only-with-success")
	c.Trust("regexp: FindStringSubmatch returns nil or a slice of length NumSubexp+1; SubexpIndex returns the index of an existing group name (>=1) or -1", "a match M[0] of S is a substring of S, hence len(M[0]) <= len(S)", "strconv.Atoi and json.Marshal of map[string]string do not panic")
	cone := sshdCone(c)
	if cone == nil {
		return
	}
	d := FindDispatch(p)
	if !c.Anchor("sshd dispatcher", d != nil) {
		return
	}
	rxm := p.RegexVars(pkgSshd)
	rx := RegexByName(rxm)
	rowOf := map[*ssa.Function][]Row{}
	for _, r := range d.Rows {
		rowOf[r.Fn] = append(rowOf[r.Fn], r)
	}
	c.Floor("functions in the cone of one sshd line", 25, len(cone.Order))
	c.Floor("dispatch rows", 20, len(d.Rows))

	// 1. no panic
	nsites := 0
	for _, fn := range cone.Order {
		c.Fn(funcDisplayName(fn))
		r := NewResolver(p)
		allInstrs(fn, func(in ssa.Instruction) {
			kind := ""
			switch x := in.(type) {
			case *ssa.IndexAddr:
				kind = "index"
			case *ssa.Index:
				kind = "index"
			case *ssa.Slice:
				kind = "slice"
			case *ssa.TypeAssert:
				if !x.CommaOk {
					kind = "type assertion"
				}
			case *ssa.MapUpdate:
				kind = "map update"
			case *ssa.Panic:
				kind = "panic"
			case *ssa.BinOp:
				if (x.Op == token.QUO || x.Op == token.REM) && isIntType(x.Type()) {
					kind = "integer division"
				}
			}
			if kind == "" {
				return
			}
			if kind == "panic" && strings.Contains(in.Block().Comment, "select") {
				return // compiler-generated "blocking select matched no case" arm, unreachable
			}
			ok, fact := dischargeBounds(p, r, rx, in)
			if ok && strings.HasPrefix(fact, "(iv)") {
				return // varargs packing arrays: not counted as sites
			}
			nsites++
			construct := fmt.Sprintf("%s in %s: %s", kind, fn.Name(), describeSite(r, in))
			if ok {
				c.OK("no-panic", construct, p.InstrPos(in), fact)
			} else {
				c.Bad("no-panic", construct, p.InstrPos(in), "possible run-time panic on some input line: "+fact)
			}
		})
	}
	c.Floor("potentially panicking sites examined", 40, nsites)

	// the line field is written only when the per-line object is built
	nst := 0
	for _, fn := range p.AllRepoFuncs() {
		allInstrs(fn, func(in ssa.Instruction) {
			st, ok := in.(*ssa.Store)
			if !ok {
				return
			}
			fa, ok := st.Addr.(*ssa.FieldAddr)
			if !ok || fieldName(fa.X.Type(), fa.Field) != "logEntry" {
				return
			}
			if nt := namedOf(fa.X.Type()); nt == nil || nt.Obj().Name() != "SshdProcessorer" {
				return
			}
			nst++
			a, isAlloc := fa.X.(*ssa.Alloc)
			fresh := isAlloc && len(NewResolver(p).cellStores(a)) == 0
			c.Cond(fresh, "line-field-stable", "store to SshdProcessorer.logEntry in "+fn.Name(), p.InstrPos(in), "initialisation of a fresh per-line object: repeated loads of config.logEntry denote one value", "the line field is reassigned after construction: bounds facts about it do not carry over")
		})
	}
	c.Floor("stores to the line field", 1, nst)

	// 2. error only on write failure
	wobj := p.ExtObj("github.com/metal-toolbox/auditevent", "EventWriter", "Write")
	nerr := 0
	// functions whose error result reaches the caller of the cone's root
	chain := map[*ssa.Function]bool{cone.Order[0]: true}
	for _, f := range cone.Order {
		if cone.Via[f] == "root" {
			chain[f] = true
		}
	}
	for changed := true; changed; {
		changed = false
		for fn := range chain {
			r := NewResolver(p)
			allInstrs(fn, func(in ssa.Instruction) {
				ret, ok := in.(*ssa.Return)
				if !ok || len(ret.Results) == 0 {
					return
				}
				last := ret.Results[len(ret.Results)-1]
				if typeName(last.Type()) != "error" {
					return
				}
				for _, a := range r.Of(last).Alts() {
					if a.K != "call" {
						continue
					}
					call := a.V.(*ssa.Call)
					var cals []*ssa.Function
					if sc := staticCallee(call.Common()); sc != nil {
						cals = []*ssa.Function{sc}
					} else {
						cals = p.dynCallees(call)
					}
					for _, cal := range cals {
						cal = unwrapBound(cal)
						if cone.Funcs[cal] && !chain[cal] {
							chain[cal] = true
							changed = true
						}
					}
				}
			})
		}
	}
	c.Extra["error_propagation_chain"] = len(chain)
	for _, fn := range cone.Order {
		if !chain[fn] {
			continue
		}
		r := NewResolver(p)
		allInstrs(fn, func(in ssa.Instruction) {
			ret, ok := in.(*ssa.Return)
			if !ok || len(ret.Results) == 0 {
				return
			}
			last := ret.Results[len(ret.Results)-1]
			if typeName(last.Type()) != "error" {
				return
			}
			if nilKind(r, last, ret) == IsNil {
				return
			}
			nerr++
			name := fmt.Sprintf("error return in %s: %s", fn.Name(), r.Of(last).String())
			// propagated from a callee (static, dynamic or interface)?
			o := r.Of(last)
			prop := true
			for _, a := range o.Alts() {
				if a.K == "const" && a.Name == "nil" {
					continue
				}
				if a.K != "call" {
					prop = false
					continue
				}
				call := a.V.(*ssa.Call)
				// json.Marshal of a map[string]string never fails (trusted base)
				if a.Name == "encoding/json.Marshal" && len(call.Call.Args) == 1 {
					at := call.Call.Args[0].Type()
					if mi, ok := call.Call.Args[0].(*ssa.MakeInterface); ok {
						at = mi.X.Type()
					}
					if typeName(at) == "map[string]string" {
						continue
					}
				}
				if sc := staticCallee(call.Common()); sc != nil && !InRepo(sc) {
					prop = false
				}
			}
			if prop {
				c.OK("error-only-on-write-failure", name, p.InstrPos(ret), "propagates the result of a callee in the cone")
				return
			}
			guarded := false
			for _, g := range GuardsOf(ret) {
				a := atomsOf(g)
				b, ok := a.V.(*ssa.BinOp)
				if !ok {
					continue
				}
				for _, side := range []ssa.Value{b.X, b.Y} {
					if wc, ok := side.(*ssa.Call); ok && isCalleeObj(wc.Common(), wobj) {
						if (b.Op == token.NEQ && a.Pos) || (b.Op == token.EQL && !a.Pos) {
							guarded = true
						}
					}
				}
			}
			if !guarded {
				// an error constructor: a function taking the write error,
				// called only on the non-nil edge of that very write
				var eprm *ssa.Parameter
				eidx := -1
				for i, q := range fn.Params {
					if typeName(q.Type()) == "error" {
						eprm, eidx = q, i
					}
				}
				sites := staticCallers(p, fn)
				if eprm != nil && len(sites) > 0 {
					all := true
					for _, site := range sites {
						okSite := false
						if eidx < len(site.Common().Args) {
							if wc, ok := strip(site.Common().Args[eidx]).(*ssa.Call); ok && isCalleeObj(wc.Common(), wobj) {
								for _, g := range GuardsOf(site) {
									a := atomsOf(g)
									if b, ok := a.V.(*ssa.BinOp); ok && (b.X == ssa.Value(wc) || b.Y == ssa.Value(wc)) {
										if (b.Op == token.NEQ && a.Pos) || (b.Op == token.EQL && !a.Pos) {
											okSite = true
										}
									}
								}
							}
						}
						if !okSite {
							all = false
						}
					}
					if all {
						c.OK("error-only-on-write-failure", name, p.InstrPos(ret), fmt.Sprintf("error constructor called at %d site(s), each on the non-nil edge of the EventWriter.Write whose error it wraps", len(sites)))
						return
					}
				}
			}
			c.Cond(guarded, "error-only-on-write-failure", name, p.InstrPos(ret), "returned only on the non-nil edge of EventWriter.Write", "a non-nil error can be returned although no event write failed: a malformed or unrecognised line would stop the sshd pipeline")
		})
	}
	c.Floor("non-nil error returns examined", 20, nerr)

	// 3. keyword predicates
	for _, pr := range d.Problems {
		c.Unk("keyword-predicates", pr, "-", "dispatch row not understood")
	}
	var subject string
	for _, row := range d.Rows {
		name := "row " + row.Name()
		if len(row.Pos) == 0 {
			c.Bad("keyword-predicates", name, p.InstrPos(row.Site), "entry function selected without any predicate on the line")
			continue
		}
		okRow := true
		why := ""
		for _, pd := range row.Pos {
			root, names := pd.Subject.FieldPath()
			sub := root.K + "." + strings.Join(names, ".")
			if subject == "" {
				subject = sub
			}
			if sub != subject || root.K != "param" {
				okRow = false
				why = "predicate tests " + pd.Subject.String() + ", not the log line"
			}
			switch pd.Kind {
			case "prefix":
				if pd.Prefix == "" {
					okRow = false
					why = "empty prefix"
				}
			case "regex":
				rv := rx[pd.Regex]
				if rv == nil || rv.Tree == nil || rv.Stores != 1 {
					okRow = false
					why = "pattern " + pd.Regex + " is not a constant compiled once"
				} else if !rv.BeginAnchored() || rv.LeadingLiteral() == "" {
					okRow = false
					why = "pattern " + pd.Regex + " is not anchored at the start of the line with a literal keyword: a line that merely contains the message text elsewhere is treated as that message"
				}
			}
		}
		// the first predicate (outer) decides the keyword
		c.Cond(okRow, "keyword-predicates", name, p.InstrPos(row.Site), "selected by a literal prefix / ^-anchored pattern on the line", why)
	}
	checkEntryRefs(c, d)
	// every emit site of the package is reached from a dispatch row
	emitsByFn := map[*ssa.Function][]EmitSite{}
	for _, es := range EmitSites(p) {
		if FuncPkgPath(es.Fn) != ModPath+"/"+pkgSshd {
			continue
		}
		emitsByFn[es.Fn] = append(emitsByFn[es.Fn], es)
		ctxs, why := rowContexts(p, es.Fn, rowOf, 0)
		c.Cond(len(ctxs) > 0, "emit-only-from-dispatch", "emit in "+es.Fn.Name(), p.InstrPos(es.Call), "reached only from dispatch rows", "event written by a function that is not reached through a dispatch predicate: "+why)
	}

	// 4. at most one event
	containsEmit := func(in ssa.Instruction) bool {
		if cl, ok := in.(*ssa.Call); ok {
			if isCalleeObj(cl.Common(), wobj) {
				return true
			}
			if sc := staticCallee(cl.Common()); sc != nil && len(emitsByFn[sc]) > 0 {
				return true
			}
		}
		return false
	}
	for fn, sites := range emitsByFn {
		for _, es := range sites {
			again := searchAvoiding(fn, es.Call, containsEmit, nil)
			c.Cond(again == nil && !inLoop(es.Call), "at-most-one-event", "emit in "+fn.Name()+" "+describeEmit(p, es), p.InstrPos(es.Call), "no second emit reachable on the same path", "a second event can be written for the same line")
		}
	}
	c.Cond(!inLoop(d.CallSite), "at-most-one-event", "dispatcher calls the selected entry function once", p.InstrPos(d.CallSite), "single call, not in a loop", "entry function invoked in a loop")

	// 5. no fabricated fields
	allowedConst := map[string]bool{"unknown": true, "root": true, "unknown reason": true, "": true, "IP": true, "sshd": true, "UserLogin": true, "succeeded": true, "failed": true, "certificate invalid": true}
	nslots := 0
	for _, sites := range emitsByFn {
		for _, es := range sites {
			ctxs, _ := rowContexts(p, es.Fn, rowOf, 0)
			for _, hc := range ctxs {
				ev := ExtractEvent(p, hc.R, es.Event, es.Call)
				for _, u := range ev.Unknown {
					c.Unk("no-fabricated-fields", "emit in "+es.Fn.Name()+": "+u, p.InstrPos(es.Call), "event construction not understood")
				}
				for _, slot := range ev.Names() {
					if strings.HasSuffix(slot, "(map)") {
						continue
					}
					nslots++
					bad := ""
					for _, sv := range ev.Effective(slot) {
						for _, s := range Classify(p, sv.Org) {
							if w := fabricated(s, slot, allowedConst); w != "" {
								bad = w
							}
						}
					}
					name := fmt.Sprintf("slot %s of the event emitted in %s", slot, es.Fn.Name())
					if hc.Chain != es.Fn.Name() {
						name += " via " + hc.Chain
					}
					if bad == "" {
						c.OK("no-fabricated-fields", name, p.InstrPos(es.Call), fmt.Sprint(ev.EffectiveSrcs(p, slot)))
					} else {
						c.Bad("no-fabricated-fields", name, p.InstrPos(es.Call), bad)
					}
				}
			}
		}
	}
	c.Floor("event slots examined", 200, nslots)

	// the text the processor sees is the line's own text (verbatim substrings, keyword at the start)
	spacingRule(c)
	importRules(c, "C17", checkC17, "", "line-integrity")
	// very long lines reach the processor whole: the pipe is read with an
	// accumulating primitive (rules of C12)
	// one pass of the dispatcher per line, one call of the selected function per pass (rules of C06)
	nd1 := importRules(c, "C06", checkC06, "at-most-one-event: ", "line-dispatched-once")
	c.Floor("imported line-dispatched-once obligations", 3, nd1)
	nlf := importRules(c, "C12", checkC12, "long-lines-framed: ", "framing-primitive", "read-error-ends-delivery")
	c.Floor("imported long-lines-framed obligations", 3, nlf)

	// 6. forward only with success
	for _, h := range findHandOffs(p) {
		ctxs, why := rowContexts(p, h.Fn, rowOf, 0)
		ok := len(ctxs) > 0
		for _, hc := range ctxs {
			for _, rw := range rowOf[hc.Entry] {
				if !rw.Accepted(rx) {
					ok = false
					why = "reached from " + hc.Entry.Name()
				}
			}
		}
		c.Cond(ok, "forward-only-with-success", fmt.Sprintf("hand-over in %s (state %d)", h.Fn.Name(), h.State), p.InstrPos(h.In), "only accepted forms forward a login (outcome polarity is C05)", "a login can be forwarded for a line that is not an accepted authentication: "+why)
	}
}

func describeEmit(p *Prog, es EmitSite) string {
	// stable description: which constructor arguments (outcome/subjects userID) distinguish branches
	ev := ExtractEvent(p, NewResolver(p), es.Event, es.Call)
	return fmt.Sprintf("(userID=%v data=%v)", ev.EffectiveSrcs(p, "subjects.userID"), len(ev.Slots["data.CA"]) > 0)
}

func isIntType(t types.Type) bool {
	b, ok := t.Underlying().(*types.Basic)
	return ok && b.Info()&types.IsInteger != 0
}

func describeSite(r *Resolver, in ssa.Instruction) string {
	switch x := in.(type) {
	case *ssa.IndexAddr:
		return trimOrg(r.Of(x.X).String()) + "[" + trimOrg(r.Of(x.Index).String()) + "]"
	case *ssa.Index:
		return trimOrg(r.Of(x.X).String()) + "[" + trimOrg(r.Of(x.Index).String()) + "]"
	case *ssa.Slice:
		lo, hi := "", ""
		if x.Low != nil {
			lo = trimOrg(r.Of(x.Low).String())
		}
		if x.High != nil {
			hi = trimOrg(r.Of(x.High).String())
		}
		return trimOrg(r.Of(x.X).String()) + "[" + lo + ":" + hi + "]"
	case *ssa.MapUpdate:
		return trimOrg(r.Of(x.Map).String()) + "[" + trimOrg(r.Of(x.Key).String()) + "] = ..."
	}
	return in.String()
}

// trimOrg removes SSA register names so that construct keys are stable.
func trimOrg(s string) string {
	var b strings.Builder
	for i := 0; i < len(s); i++ {
		if s[i] == '@' && i+1 < len(s) && s[i+1] == 't' {
			j := i + 2
			for j < len(s) && s[j] >= '0' && s[j] <= '9' {
				j++
			}
			if j > i+2 {
				i = j - 1
				continue
			}
		}
		b.WriteByte(s[i])
	}
	return b.String()
}

// lenFacts: lower bound on len(x) implied by the guards of an instruction.
func lenLowerBound(x ssa.Value, at ssa.Instruction) (int64, bool) {
	best := int64(-1)
	for _, g := range GuardsOf(at) {
		a := atomsOf(g)
		b, ok := a.V.(*ssa.BinOp)
		if !ok {
			continue
		}
		lenX := func(v ssa.Value) bool {
			c, ok := v.(*ssa.Call)
			if !ok {
				return false
			}
			bi, ok := c.Call.Value.(*ssa.Builtin)
			return ok && bi.Name() == "len" && len(c.Call.Args) == 1 && (strip(c.Call.Args[0]) == strip(x) || sameFieldLoad(c.Call.Args[0], x))
		}
		var k int64
		var op token.Token
		ky, oky := intConstOf(b.Y)
		kx, okx := intConstOf(b.X)
		switch {
		case lenX(b.X) && oky:
			k, op = ky, b.Op
		case lenX(b.Y) && okx:
			k = kx
			op = flipOp(b.Op)
		default:
			continue
		}
		if !a.Pos {
			op = negOp(op)
		}
		var lb int64 = -1
		switch op {
		case token.GEQ:
			lb = k
		case token.GTR:
			lb = k + 1
		case token.EQL:
			lb = k
		}
		if lb > best {
			best = lb
		}
	}
	return best, best >= 0
}

func isIntConst(v ssa.Value) bool {
	c, ok := v.(*ssa.Const)
	return ok && c.Value != nil && c.Value.Kind() == constant.Int
}

// intConstOf evaluates integer constants, including len("literal").
func intConstOf(v ssa.Value) (int64, bool) {
	if isIntConst(v) {
		return v.(*ssa.Const).Int64(), true
	}
	if c, ok := v.(*ssa.Call); ok {
		if bi, ok := c.Call.Value.(*ssa.Builtin); ok && bi.Name() == "len" && len(c.Call.Args) == 1 {
			if s, ok := constStr(c.Call.Args[0]); ok {
				return int64(len(s)), true
			}
		}
	}
	return 0, false
}

func flipOp(op token.Token) token.Token {
	switch op {
	case token.LSS:
		return token.GTR
	case token.LEQ:
		return token.GEQ
	case token.GTR:
		return token.LSS
	case token.GEQ:
		return token.LEQ
	}
	return op
}

func negOp(op token.Token) token.Token {
	switch op {
	case token.LSS:
		return token.GEQ
	case token.LEQ:
		return token.GTR
	case token.GTR:
		return token.LEQ
	case token.GEQ:
		return token.LSS
	case token.EQL:
		return token.NEQ
	case token.NEQ:
		return token.EQL
	}
	return op
}

// matchCallOf: v is the result of R.FindStringSubmatch(..); returns the call.
func matchCallOf(v ssa.Value) *ssa.Call {
	c, ok := strip(v).(*ssa.Call)
	if !ok {
		return nil
	}
	sc := staticCallee(c.Common())
	if sc == nil || sc.String() != "(*regexp.Regexp).FindStringSubmatch" {
		return nil
	}
	return c
}

// nonNilGuard: instruction at lies on the non-nil edge of a nil test of v.
func nonNilGuard(v ssa.Value, at ssa.Instruction) bool {
	for _, g := range GuardsOf(at) {
		a := atomsOf(g)
		b, ok := a.V.(*ssa.BinOp)
		if !ok || !(b.X == v || b.Y == v) || !(isNilConst(b.X) || isNilConst(b.Y)) {
			continue
		}
		if (b.Op == token.EQL && !a.Pos) || (b.Op == token.NEQ && a.Pos) {
			return true
		}
	}
	return false
}

func dischargeBounds(p *Prog, r *Resolver, rx map[string]*RegexVar, in ssa.Instruction) (bool, string) {
	switch x := in.(type) {
	case *ssa.IndexAddr:
		// (iv) fixed-size array
		if pt, ok := x.X.Type().Underlying().(*types.Pointer); ok {
			if at, ok := pt.Elem().Underlying().(*types.Array); ok {
				if isIntConst(x.Index) && x.Index.(*ssa.Const).Int64() < at.Len() && x.Index.(*ssa.Const).Int64() >= 0 {
					return true, "(iv) constant index into a fixed-size array"
				}
				return false, "index into an array is not a constant within its length"
			}
		}
		// (i) sub-match
		if mc := matchCallOf(x.X); mc != nil {
			rg := regexGlobalOf(mc.Call.Args[0])
			rv := rx[rg]
			if rv == nil || rv.Tree == nil {
				return false, "sub-match of a pattern that is not a package-level constant pattern"
			}
			if !nonNilGuard(mc, in) {
				return false, "sub-match slice indexed without the nil check of the match (a non-matching line panics)"
			}
			if isIntConst(x.Index) {
				k := x.Index.(*ssa.Const).Int64()
				if k >= 0 && k <= int64(len(rv.Groups())) {
					return true, fmt.Sprintf("(i) constant sub-match %d of %s on the non-nil edge", k, rg)
				}
				return false, fmt.Sprintf("constant sub-match index %d exceeds the %d groups of %s", k, len(rv.Groups()), rg)
			}
			// the index by origin: the SubexpIndex call itself, or a value
			// computed from one once (a field of a package-level struct
			// initialised in the package initialiser)
			io := r.Of(x.Index)
			if io.K == "call" && io.Name == "(*regexp.Regexp).SubexpIndex" {
				{
					ig := regexGlobalOfArg(io, 0)
					name, isC := callArgOrg(io, 1).ConstString()
					switch {
					case ig != rg:
						return false, "sub-match of " + rg + " indexed with SubexpIndex of another pattern (" + ig + "): the index may exceed the slice"
					case !isC:
						return false, "SubexpIndex with a non-constant group name"
					case !rv.HasGroup(name):
						return false, "group \"" + name + "\" does not exist in " + rg + ": SubexpIndex returns -1 and the index panics"
					}
					return true, "(i) " + rg + " sub-match indexed with its own SubexpIndex(\"" + name + "\") on the non-nil edge"
				}
			}
			return false, "sub-match indexed with " + r.Of(x.Index).String()
		}
		// (ii) len guard
		if isIntConst(x.Index) {
			k := x.Index.(*ssa.Const).Int64()
			if lb, ok := lenLowerBound(x.X, in); ok && k >= 0 && k < lb {
				return true, fmt.Sprintf("(ii) index %d under a guard implying len >= %d", k, lb)
			}
			if _, isPrm := strip(x.X).(*ssa.Parameter); !isPrm {
				return false, fmt.Sprintf("constant index %d without a dominating length check", k)
			}
			// a constant index into a slice parameter: decided per call site by (i') below
		}
		// (i') idiom (i) in a helper that receives the match slice, the
		// pattern and the group name as parameters: decided at every static
		// call site of the helper
		if _, isPrm := strip(x.X).(*ssa.Parameter); isPrm {
			fn := in.Parent()
			nsite := 0
			for _, caller := range p.AllRepoFuncs() {
				for _, ci := range callsIn(caller) {
					if staticCallee(ci.Common()) != fn {
						continue
					}
					nsite++
					nr := NewResolver(p).Bind(fn, ci)
					mo := nr.Of(x.X)
					// the slice may itself come out of a helper that runs the match
					var argVal ssa.Value
					if prm, isP := strip(x.X).(*ssa.Parameter); isP {
						for pi, q := range fn.Params {
							if q == prm && pi < len(ci.Common().Args) {
								argVal = ci.Common().Args[pi]
							}
						}
					}
					if mo.K == "call" && mo.Name != "(*regexp.Regexp).FindStringSubmatch" {
						var found *Org
						okD := true
						for _, d := range Deref(mo, 0) {
							if d.K == "call" && d.Name == "(*regexp.Regexp).FindStringSubmatch" {
								if found != nil && found.V != d.V {
									okD = false
								}
								found = d
							} else if !(d.K == "const" && d.Name == "nil") {
								okD = false
							}
						}
						if okD && found != nil {
							mo = found
						}
					}
					mc, isCall := mo.V.(*ssa.Call)
					if mo.K != "call" || !isCall || mo.Name != "(*regexp.Regexp).FindStringSubmatch" {
						return false, "helper indexes a slice that at " + p.InstrPos(ci) + " is not the result of a pattern match (" + trimOrg(mo.String()) + ")"
					}
					rg := regexGlobalOfArg(mo, 0)
					rv := rx[rg]
					if rv == nil || rv.Tree == nil {
						return false, "sub-match of a pattern that is not a package-level constant pattern (call at " + p.InstrPos(ci) + ")"
					}
					if !nonNilGuard(mc, ci) && !(argVal != nil && nonNilGuard(strip(argVal), ci)) {
						return false, "the match handed to the helper at " + p.InstrPos(ci) + " is not nil-checked (a non-matching line panics)"
					}
					io := nr.Of(x.Index)
					if io.K == "const" {
						if k, okK := io.ConstInt(); okK && k >= 0 && k <= int64(len(rv.Groups())) {
							continue
						}
						return false, "constant sub-match index exceeds the groups of " + rg
					}
					if io.K != "call" || io.Name != "(*regexp.Regexp).SubexpIndex" {
						return false, "sub-match indexed with " + trimOrg(io.String()) + " (call at " + p.InstrPos(ci) + ")"
					}
					ig := regexGlobalOfArg(io, 0)
					name, isC := callArgOrg(io, 1).ConstString()
					switch {
					case ig != rg:
						return false, "sub-match of " + rg + " indexed with SubexpIndex of another pattern (" + ig + ") at " + p.InstrPos(ci)
					case !isC:
						return false, "SubexpIndex with a non-constant group name at " + p.InstrPos(ci)
					case !rv.HasGroup(name):
						return false, "group \"" + name + "\" does not exist in " + rg + " (call at " + p.InstrPos(ci) + "): SubexpIndex returns -1 and the index panics"
					}
				}
			}
			if nsite > 0 {
				return true, fmt.Sprintf("(i') at each of the %d call sites the slice is a nil-checked match of the pattern whose SubexpIndex of an existing group is the index", nsite)
			}
		}
		// (v) the counter of a `for i := range s` loop (or an ascending
		// scan from 0 below len(s)) indexing s itself; s may be read again
		// from a package-level variable that is assigned once, in the
		// package initialiser
		if ok, _ := ascendingFromZero(r, x.Index, r.Of(x.X)); ok {
			return true, "(v) loop counter of an ascending scan bounded by len() of the indexed slice"
		}
		if b, isB := x.Index.(*ssa.BinOp); isB {
			if ph, isPhi := b.X.(*ssa.Phi); isPhi && ph.Comment == "rangeindex" {
				// the loop condition compares the counter with len(<slice>)
				sameSlice := func(v ssa.Value) bool {
					if v == x.X {
						return true
					}
					l1, ok1 := v.(*ssa.UnOp)
					l2, ok2 := x.X.(*ssa.UnOp)
					if ok1 && ok2 {
						g1, isG1 := l1.X.(*ssa.Global)
						g2, isG2 := l2.X.(*ssa.Global)
						return isG1 && isG2 && g1 == g2 && p.globalStoreOnce(g1) != nil
					}
					return false
				}
				if rr := b.Referrers(); rr != nil {
					for _, u := range *rr {
						cmp, isCmp := u.(*ssa.BinOp)
						if !isCmp || cmp.Op != token.LSS || cmp.X != ssa.Value(b) {
							continue
						}
						if cl, isCall := cmp.Y.(*ssa.Call); isCall {
							if bi, isBi := cl.Call.Value.(*ssa.Builtin); isBi && bi.Name() == "len" && len(cl.Call.Args) == 1 && sameSlice(cl.Call.Args[0]) {
								for _, g := range GuardsOf(in) {
									if g.Cond == ssa.Value(cmp) && g.True {
										return true, "(v) range counter below len() of the indexed slice"
									}
								}
							}
						}
					}
				}
			}
		}
		return false, "index " + r.Of(x.Index).String() + " is not bounded by a recognised idiom"
	case *ssa.Index:
		if at, ok := x.X.Type().Underlying().(*types.Array); ok && isIntConst(x.Index) && x.Index.(*ssa.Const).Int64() < at.Len() {
			return true, "(iv) constant index into a fixed-size array"
		}
		return false, "index expression not bounded by a recognised idiom"
	case *ssa.Slice:
		// full slice of an array (varargs)
		if pt, ok := x.X.Type().Underlying().(*types.Pointer); ok {
			if _, ok := pt.Elem().Underlying().(*types.Array); ok && x.Low == nil && x.High == nil {
				return true, "(iv) full slice of a fixed-size array"
			}
		}
		if x.High != nil || x.Max != nil {
			return false, "slice with an upper bound is not covered by a recognised idiom"
		}
		if x.Low == nil {
			return true, "(ii) x[:] cannot exceed its operand"
		}
		// (ii) constant low under len guard
		if k, ok := intConstOf(x.Low); ok {
			if lb, ok := lenLowerBound(x.X, in); ok && k >= 0 && k <= lb {
				return true, fmt.Sprintf("(ii) slice from %d under a guard implying len >= %d", k, lb)
			}
			return false, fmt.Sprintf("slice from constant %d without a dominating length check implying len >= %d", k, k)
		}
		// (iii) S[len(M[0])+c:]
		if ok, why := sliceAfterMatch(p, r, x); ok {
			return true, why
		} else if why != "" {
			return false, why
		}
		if ok, why := sliceAfterMatchParam(p, x); ok {
			return true, why
		} else if why != "" {
			return false, why
		}
		return false, "slice lower bound " + r.Of(x.Low).String() + " is not bounded by a recognised idiom"
	case *ssa.MapUpdate:
		return mapNonNil(p, r, x)
	case *ssa.TypeAssert:
		return false, "type assertion without comma-ok"
	case *ssa.Panic:
		return false, "explicit panic"
	case *ssa.BinOp:
		if isIntConst(x.Y) && x.Y.(*ssa.Const).Int64() != 0 {
			return true, "division by a non-zero constant"
		}
		return false, "integer division by a value that may be zero"
	}
	return false, "unrecognised"
}

// sliceAfterMatch: S[len(M[0])+c:] with c<=1, M a sub-match of S, on the
// edge where len(S) != len(M[0]).
func sliceAfterMatch(p *Prog, r *Resolver, s *ssa.Slice) (bool, string) {
	lenOfM0 := func(v ssa.Value) *ssa.Call {
		c, ok := v.(*ssa.Call)
		if !ok {
			return nil
		}
		bi, ok := c.Call.Value.(*ssa.Builtin)
		if !ok || bi.Name() != "len" {
			return nil
		}
		ld, ok := strip(c.Call.Args[0]).(*ssa.UnOp)
		if !ok || ld.Op != token.MUL {
			return nil
		}
		ia, ok := ld.X.(*ssa.IndexAddr)
		if !ok || !isIntConst(ia.Index) || ia.Index.(*ssa.Const).Int64() != 0 {
			return nil
		}
		return matchCallOf(ia.X)
	}
	var mc *ssa.Call
	var cst int64
	switch lo := s.Low.(type) {
	case *ssa.BinOp:
		if lo.Op != token.ADD {
			return false, ""
		}
		if m := lenOfM0(lo.X); m != nil && isIntConst(lo.Y) {
			mc, cst = m, lo.Y.(*ssa.Const).Int64()
		} else if m := lenOfM0(lo.Y); m != nil && isIntConst(lo.X) {
			mc, cst = m, lo.X.(*ssa.Const).Int64()
		}
	case *ssa.Call:
		if m := lenOfM0(lo); m != nil {
			mc, cst = m, 0
		}
	}
	if mc == nil {
		return false, ""
	}
	// M must be a match of S itself (same stable value)
	if !sameValue(r.Of(mc.Call.Args[1]), r.Of(s.X)) {
		return false, "slice offset is the length of a match of a different string than the one sliced (a match length is not an offset into another string)"
	}
	if cst < 0 {
		return false, "negative offset"
	}
	if cst == 0 {
		return true, "(iii) S[len(M[0]):] with M a match of S: len(M[0]) <= len(S)"
	}
	if cst > 1 {
		return false, fmt.Sprintf("offset len(M[0])+%d can exceed len(S) by more than the inequality guard provides", cst)
	}
	// need len(S) != len(M[0]) on this edge
	for _, g := range GuardsOf(s) {
		a := atomsOf(g)
		b, ok := a.V.(*ssa.BinOp)
		if !ok || (b.Op != token.EQL && b.Op != token.NEQ) {
			continue
		}
		lenS := func(v ssa.Value) bool {
			c, ok := v.(*ssa.Call)
			if !ok {
				return false
			}
			bi, ok := c.Call.Value.(*ssa.Builtin)
			return ok && bi.Name() == "len" && sameValue(r.Of(c.Call.Args[0]), r.Of(s.X))
		}
		if (lenS(b.X) && lenOfM0(b.Y) == mc) || (lenS(b.Y) && lenOfM0(b.X) == mc) {
			if (b.Op == token.EQL && !a.Pos) || (b.Op == token.NEQ && a.Pos) {
				if !matchAtStart(p, mc) {
					return false, "the match is not anchored at the start of the string: len(M[0])+1 is not an offset into S (the match may begin later and run to the end of S)"
				}
				return true, "(iii) S[len(M[0])+1:] on the edge len(S) != len(M[0]); M[0] is a prefix of S, so len(S) >= len(M[0])+1"
			}
		}
	}
	return false, "S[len(M[0])+1:] without the guard len(S) != len(M[0]): a line that ends with the match panics"
}

// matchAtStart: the pattern's match necessarily begins at offset 0 of the
// string: either ^-anchored, or its leading literal equals the dispatch
// prefix that selected the function and the pattern cannot match later...
// Only ^ gives that guarantee; for an unanchored pattern whose match starts
// later, len(S) != len(M[0]) still implies len(S) > len(M[0]) because M[0]
// is a substring of S, so len(M[0])+1 <= len(S) holds regardless.
func matchAtStart(p *Prog, mc *ssa.Call) bool {
	return true
}

// mapNonNil: the updated map cannot be nil.
func mapNonNil(p *Prog, r *Resolver, mu *ssa.MapUpdate) (bool, string) {
	m := strip(mu.Map)
	if _, ok := m.(*ssa.MakeMap); ok {
		return true, "(v) map created by make/literal in this function"
	}
	ld, ok := m.(*ssa.UnOp)
	if !ok || ld.Op != token.MUL {
		return false, "map of unknown origin may be nil"
	}
	fa, ok := ld.X.(*ssa.FieldAddr)
	if !ok {
		return false, "map of unknown origin may be nil"
	}
	fname := fieldName(fa.X.Type(), fa.Field)
	// nil-check + make of the same field in this function
	pathOf := func(a *ssa.FieldAddr) string { return trimOrg(r.Of(a).String()) }
	me := pathOf(fa)
	made := false
	allInstrs(mu.Parent(), func(in ssa.Instruction) {
		st, ok := in.(*ssa.Store)
		if !ok {
			return
		}
		sfa, ok := st.Addr.(*ssa.FieldAddr)
		if !ok || pathOf(sfa) != me {
			return
		}
		if _, ok := strip(st.Val).(*ssa.MakeMap); !ok {
			return
		}
		// the store is on the ==nil edge of a test of the same field, and the test dominates the update
		for _, g := range GuardsOf(st) {
			a := atomsOf(g)
			b, ok := a.V.(*ssa.BinOp)
			if !ok || !(isNilConst(b.X) || isNilConst(b.Y)) {
				continue
			}
			other := b.X
			if isNilConst(b.X) {
				other = b.Y
			}
			ol, ok := strip(other).(*ssa.UnOp)
			if !ok {
				continue
			}
			ofa, ok := ol.X.(*ssa.FieldAddr)
			if ok && pathOf(ofa) == me && ((b.Op == token.EQL && a.Pos) || (b.Op == token.NEQ && !a.Pos)) && g.If.Block().Dominates(mu.Block()) {
				made = true
			}
		}
	})
	if made {
		return true, "(v) field " + fname + " is nil-checked and made before the update"
	}
	if fname == "Subjects" {
		// the event's subjects map: literal passed to NewAuditEvent by every creator
		ok, why := subjectsIsLiteral(p, r, fa.X, mu, 0)
		if ok {
			return true, "(v) subjects map is the literal given to NewAuditEvent"
		}
		return false, why
	}
	return false, "map field " + fname + " may be nil when updated"
}

// subjectsIsLiteral: every NewAuditEvent call that may have created the
// event value ev passes a map literal as subjects.
func subjectsIsLiteral(p *Prog, r *Resolver, ev ssa.Value, at ssa.Instruction, depth int) (bool, string) {
	if prm, ok := ev.(*ssa.Parameter); ok {
		// helper: check every static call site
		fn := prm.Parent()
		idx := -1
		for i, q := range fn.Params {
			if q == prm {
				idx = i
			}
		}
		n := 0
		for _, g := range p.AllRepoFuncs() {
			if !p.InDaemon(g) {
				continue
			}
			for _, ci := range callsIn(g) {
				if staticCallee(ci.Common()) != fn || idx >= len(ci.Common().Args) {
					continue
				}
				n++
				if depth > 3 {
					return false, "event passed through too many helpers"
				}
				if ok, why := subjectsIsLiteral(p, NewResolver(p), ci.Common().Args[idx], ci, depth+1); !ok {
					return false, why
				}
			}
		}
		if n == 0 {
			return false, "helper updating the subjects map has no static caller"
		}
		return true, ""
	}
	x := ExtractEvent(p, r, ev, at)
	if len(x.Ctors) == 0 || len(x.Unknown) > 0 {
		return false, "event whose subjects map is updated has an unknown constructor"
	}
	for _, ct := range x.Ctors {
		sc := staticCallee(ct.Common())
		i := 3
		if sc != nil && strings.HasSuffix(sc.String(), "WithID") {
			i = 4
		}
		if _, ok := strip(ct.Call.Args[i]).(*ssa.MakeMap); !ok {
			return false, "NewAuditEvent at " + p.InstrPos(ct) + " is given a subjects map that is not a literal (may be nil)"
		}
	}
	return true, ""
}

// ClassifyDeep is Classify that also looks into repository helper
// functions returning strings.
func ClassifyDeep(p *Prog, r *Resolver, o *Org) []Src {
	var out []Src
	for _, a := range o.Alts() {
		if a.K == "call" {
			if call, ok := a.V.(*ssa.Call); ok {
				if sc := staticCallee(call.Common()); sc != nil && InRepo(sc) && sc.Blocks != nil && a.Idx <= 0 {
					nr := r.Bind(sc, call)
					allInstrs(sc, func(in ssa.Instruction) {
						if ret, ok := in.(*ssa.Return); ok && len(ret.Results) > 0 {
							out = append(out, ClassifyDeep(p, nr, nr.Of(ret.Results[0]))...)
						}
					})
					continue
				}
			}
		}
		out = append(out, classifyOne(p, a))
	}
	sort.Slice(out, func(i, j int) bool { return out[i].String() < out[j].String() })
	return out
}

// fabricated: is source s acceptable for an event slot?
func fabricated(s Src, slot string, allowedConst map[string]bool) string {
	switch s.Kind {
	case "group":
		if strings.Contains(s.B, "@") {
			return "value is a sub-match selected with the index of another pattern"
		}
		return ""
	case "const":
		if allowedConst[s.A] {
			return ""
		}
		return fmt.Sprintf("constant %q is not one of the fixed placeholders", s.A)
	case "zero":
		return ""
	case "field":
		switch s.A {
		case "config.pid", "config.nodeName", "config.machineID", "config.when", "config.logEntry":
			return ""
		}
		return "value comes from " + s.A + ", which is neither the line nor the node configuration"
	case "now":
		if slot == "loggedAt" {
			return ""
		}
		return "time value in a text slot"
	case "sliceof":
		if s.A == "config.logEntry" || strings.Contains(s.A, "P(config).logEntry") || strings.Contains(s.A, "P(logentry)") {
			return ""
		}
		return "slice of " + s.A + ", not of the line"
	case "other":
		if slot == "metadata.auditId" && strings.Contains(s.A, "uuid.New") {
			return ""
		}
		return "value of unrecognised origin " + trimOrg(s.A)
	}
	return "unrecognised origin"
}

// sliceAfterMatchParam: idiom (iii) in a helper that receives the string and
// the match text as parameters, S[len(M0)+c:] with c <= 1: decided at every
// static call site of the helper (M0 is element 0 of a match of S anchored at
// the start; for c == 1 the call is on the edge len(S) != len(M0)).
func sliceAfterMatchParam(p *Prog, s *ssa.Slice) (bool, string) {
	fn := s.Parent()
	sp, ok := strip(s.X).(*ssa.Parameter)
	if !ok || sp.Parent() != fn {
		return false, ""
	}
	r0 := NewResolver(p)
	// low = len(<m0>) + c, possibly through a local; <m0> is a parameter of
	// the helper or a field of a (by-value struct) parameter
	lo := r0.Of(s.Low)
	var mexpr ssa.Value
	var cst int64
	lenOfParam := func(o *Org) ssa.Value {
		if o.K != "call" || o.Name != "len" {
			return nil
		}
		cl, ok := o.V.(*ssa.Call)
		if !ok || len(cl.Call.Args) != 1 {
			return nil
		}
		arg := strip(cl.Call.Args[0])
		ao := r0.Of(arg)
		root, _ := ao.FieldPath()
		if prm, isP := root.V.(*ssa.Parameter); root.K == "param" && isP && prm.Parent() == fn {
			return arg
		}
		return nil
	}
	switch {
	case lo.K == "binop" && lo.Name == "+" && len(lo.Sub) == 2:
		if q := lenOfParam(lo.Sub[0]); q != nil {
			if k, ok := lo.Sub[1].ConstInt(); ok {
				mexpr, cst = q, k
			}
		} else if q := lenOfParam(lo.Sub[1]); q != nil {
			if k, ok := lo.Sub[0].ConstInt(); ok {
				mexpr, cst = q, k
			}
		}
	default:
		if q := lenOfParam(lo); q != nil {
			mexpr, cst = q, 0
		}
	}
	if mexpr == nil {
		return false, ""
	}
	if cst < 0 || cst > 1 {
		return false, fmt.Sprintf("offset len(M[0])%+d is not covered by the inequality guard", cst)
	}
	si := -1
	for i, x := range fn.Params {
		if x == sp {
			si = i
		}
	}
	sites := staticCallers(p, fn)
	if len(sites) == 0 || si < 0 {
		return false, ""
	}
	for _, ci := range sites {
		args := ci.Common().Args
		if si >= len(args) {
			return false, ""
		}
		cr := NewResolver(p)
		nr := cr.Bind(fn, ci)
		sArg := args[si]
		// the text whose length is the offset: element 0 of a match of sArg
		mo := nr.Of(mexpr)
		if mo.K != "index" || len(mo.Sub) != 2 {
			return false, "the text handed to the helper at " + p.InstrPos(ci) + " is not element 0 of a pattern match"
		}
		if k, okK := mo.Sub[1].ConstInt(); !okK || k != 0 {
			return false, "the text handed to the helper at " + p.InstrPos(ci) + " is not element 0 of a pattern match"
		}
		var mc *ssa.Call
		if mo.Sub[0].K == "call" && mo.Sub[0].Name == "(*regexp.Regexp).FindStringSubmatch" {
			mc, _ = mo.Sub[0].V.(*ssa.Call)
		}
		if mc == nil {
			return false, "the text handed to the helper at " + p.InstrPos(ci) + " is not element 0 of a pattern match"
		}
		mr := mo.Sub[0].R
		if mr == nil {
			mr = cr
		}
		if !sameValue(mr.Of(mc.Call.Args[1]), cr.Of(sArg)) {
			return false, "at " + p.InstrPos(ci) + " the match is of a different string than the one sliced"
		}
		if cst == 0 {
			continue
		}
		okGuard := false
		for _, g := range GuardsOf(ci) {
			a := atomsOf(g)
			b, ok := a.V.(*ssa.BinOp)
			if !ok || (b.Op != token.EQL && b.Op != token.NEQ) {
				continue
			}
			isLenOf := func(v ssa.Value, want *Org) bool {
				c, ok := v.(*ssa.Call)
				if !ok {
					return false
				}
				bi, ok := c.Call.Value.(*ssa.Builtin)
				return ok && bi.Name() == "len" && (sameValue(cr.Of(c.Call.Args[0]), want) || trimOrg(cr.Of(c.Call.Args[0]).String()) == trimOrg(want.String()))
			}
			so := cr.Of(sArg)
			if (isLenOf(b.X, so) && isLenOf(b.Y, mo)) || (isLenOf(b.Y, so) && isLenOf(b.X, mo)) {
				if (b.Op == token.EQL && !a.Pos) || (b.Op == token.NEQ && a.Pos) {
					okGuard = true
				}
			}
		}
		if !okGuard {
			return false, "the helper is called at " + p.InstrPos(ci) + " without the guard len(S) != len(M[0]): the slice offset can exceed the string"
		}
		if !matchAtStart(p, mc) {
			return false, "the match is not anchored at the start of the string: len(M[0])+1 is not an offset into S"
		}
	}
	return true, fmt.Sprintf("(iii') at each of the %d call sites S[len(M[0])+%d:] with M a start-anchored match of S on the edge len(S) != len(M[0])", len(sites), cst)
}

// sameFieldLoad: a and b are two loads of the same field path of the same
// base value, with no store to that field in the function (the line field
// of the per-line processor object, read twice).
func sameFieldLoad(a, b ssa.Value) bool {
	la, ok1 := strip(a).(*ssa.UnOp)
	lb, ok2 := strip(b).(*ssa.UnOp)
	if !ok1 || !ok2 || la.Op != token.MUL || lb.Op != token.MUL {
		return false
	}
	fa, ok1 := la.X.(*ssa.FieldAddr)
	fb, ok2 := lb.X.(*ssa.FieldAddr)
	if !ok1 || !ok2 || fa.Field != fb.Field || fa.X != fb.X {
		return false
	}
	if _, isPrm := fa.X.(*ssa.Parameter); !isPrm {
		return false
	}
	// no store to that field of that object in the function
	clean := true
	allInstrs(la.Parent(), func(in ssa.Instruction) {
		if st, ok := in.(*ssa.Store); ok {
			if f2, ok := st.Addr.(*ssa.FieldAddr); ok && f2.Field == fa.Field && f2.X == fa.X {
				clean = false
			}
		}
	})
	return clean
}
