package main

import (
	"fmt"
	"go/constant"
	"go/token"
	"go/types"
	"regexp"
	"strings"

	"golang.org/x/tools/go/ssa"
)

func init() { register("C20", "other", checkC20) }

const pkgDir = "processors/auditd/dirreader"

func checkC20(c *Check) {
	p := c.P
	c.Explanation = "Structural necessary conditions on the directory reader: (1) the comparator that orders the rotated files returns an integer comparison of rotation numbers parsed from both names (descending, i.e. oldest first), the raw string comparison being only the fallback when a number is missing or equal, and the number parser rejects a name only on a conversion error or a negative value (no upper bound); (2) the line reader frames with the accumulating ReadString('\\n'), increases its byte counter only on the nil-error edge of the read and by the length of the read, delivers the read result minus its last byte, through a select that also waits for the context; (3) the tail reader resets the offset and returns on create/remove/rename, resets it when the file shrank before the offset is read, records the last size, seeks to the offset read after that, and advances the offset by exactly the count returned by the line reader and only on its nil-error path; (4) the initial files are read by one goroutine per completion token (each sends exactly one token), with a strictly increasing index, the live log's offset is set from the count returned for the live log's path, and watcher events reach the tail reader only after the initial list is exhausted and only for the live log's path. The history semantics as a whole (fsnotify event order, file-system races) are not decided."
	c.Rule("rotation-order-numeric / number-parser-unbounded / whole-lines-only / offset-discipline / initial-files-then-events")
	c.Trust("bufio.Reader.ReadString returns a complete line only with its delimiter; at EOF it returns the partial data with io.EOF", "fsnotify delivers events in order (not decided)", "sort.Slice orders by the comparator")
	pk := p.RepoPkg(pkgDir)
	if !c.Anchor("package "+pkgDir, pk != nil) {
		return
	}
	rotationOrder(c)
	lineReader(c)
	offsetDiscipline(c)
	initialThenEvents(c)
}

// rotationOrder: rule 1.
func rotationOrder(c *Check) {
	p := c.P
	// the comparator closures passed to sort.Slice / sort.SliceStable / slices.SortFunc in the package
	type cmpSite struct {
		fn   *ssa.Function
		call *ssa.Call
	}
	var sites []cmpSite
	for _, fn := range p.AllRepoFuncs() {
		if FuncPkgPath(fn) != ModPath+"/"+pkgDir {
			continue
		}
		allInstrs(fn, func(in ssa.Instruction) {
			cl, ok := in.(*ssa.Call)
			if !ok {
				return
			}
			sc := staticCallee(cl.Common())
			if sc == nil {
				return
			}
			switch sc.String() {
			case "sort.Slice", "sort.SliceStable", "sort.Strings", "sort.Sort", "sort.Stable":
				var cmp *ssa.Function
				for _, a := range cl.Call.Args {
					if mc, ok := strip(a).(*ssa.MakeClosure); ok {
						cmp = mc.Fn.(*ssa.Function)
					}
				}
				sites = append(sites, cmpSite{cmp, cl})
			}
		})
	}
	c.Floor("sort calls ordering the log names", 1, len(sites))
	// the names that reach the sort: every rotation of the log is admitted.
	// In the function that sorts, a name is appended to the list under
	// conditions on the name that every "audit.log[.<digits>]" satisfies: a
	// literal prefix test, or a constant pattern that accepts rotation
	// numbers of any length
	rxDir := RegexByName(p.RegexVars(pkgDir))
	samples := []string{"audit.log", "audit.log.1", "audit.log.9", "audit.log.10", "audit.log.99", "audit.log.100", "audit.log.12345"}
	for _, s := range sites {
		sf := s.call.Parent()
		r := NewResolver(p)
		nap := 0
		allInstrs(sf, func(in ssa.Instruction) {
			cl, ok := in.(*ssa.Call)
			if !ok {
				return
			}
			bi, ok := cl.Call.Value.(*ssa.Builtin)
			if !ok || bi.Name() != "append" || !dominatesInstr(cl, s.call) && !reachesInstr(cl, s.call) {
				return
			}
			nap++
			for _, ga := range guardAtoms(r, cl) {
				if ga.Expanded {
					continue
				}
				call, isCall := ga.V.(*ssa.Call)
				if !isCall {
					continue
				}
				sc := staticCallee(call.Common())
				if sc == nil {
					continue
				}
				rr := ga.R
				if rr == nil {
					rr = r
				}
				switch sc.String() {
				case "strings.HasPrefix":
					if k, okK := rr.Of(call.Call.Args[1]).ConstString(); okK && ga.Pos {
						okAll := true
						for _, smp := range samples {
							if !strings.HasPrefix(smp, k) {
								okAll = false
							}
						}
						c.Cond(okAll, "rotation-order-numeric", "file-name filter in "+sf.Name()+": prefix \""+k+"\"", p.InstrPos(call), "every rotation name has this prefix", "the prefix required of a log file name excludes rotated logs: their lines are never delivered")
					}
				case "(*regexp.Regexp).MatchString":
					g := regexGlobalOf(call.Call.Args[0])
					rv := rxDir[g]
					if rv == nil || rv.Tree == nil {
						c.Unk("rotation-order-numeric", "file-name filter in "+sf.Name(), p.InstrPos(call), "names are filtered with a pattern that is not a package-level constant")
						continue
					}
					if !ga.Pos {
						continue
					}
					re, err := regexp.Compile(rv.Pattern)
					if err != nil {
						c.Unk("rotation-order-numeric", "file-name filter in "+sf.Name(), p.InstrPos(call), "pattern does not compile")
						continue
					}
					miss := ""
					for _, smp := range samples {
						if !re.MatchString(smp) {
							miss = smp
							break
						}
					}
					c.Cond(miss == "", "rotation-order-numeric", "file-name filter in "+sf.Name()+": pattern "+g, p.InstrPos(call), "accepts rotation numbers of any length", "the constant pattern "+g+" = "+rv.Pattern+" rejects the rotated log name \""+miss+"\": with that many rotated files the oldest are filtered out before the sort and their lines are never delivered")
				}
			}
		})
		c.Floor("appends building the list of log names", 1, nap)
	}
	for _, s := range sites {
		name := "comparator of " + calleeName(s.call.Common()) + " in " + s.call.Parent().Name()
		if s.fn == nil {
			c.Bad("rotation-order-numeric", name, p.InstrPos(s.call), "the names are ordered without a comparator that looks at rotation numbers (plain lexicographic order): audit.log.10 sorts between audit.log.1 and audit.log.2")
			continue
		}
		c.Fn(funcDisplayName(s.fn))
		r := NewResolver(p)
		// a comparator that only delegates to a named function of the
		// package, less(i,j) = F(s[i], s[j]): F is the comparator, its
		// parameters standing for the elements i and j
		cmpFn := s.fn
		first, second := "P("+s.fn.Params[0].Name()+")", "P("+s.fn.Params[1].Name()+")"
		{
			var del *ssa.Call
			nret, okDel := 0, true
			allInstrs(s.fn, func(in ssa.Instruction) {
				ret, ok := in.(*ssa.Return)
				if !ok {
					return
				}
				nret++
				cl, isCall := ret.Results[0].(*ssa.Call)
				if !isCall || len(ret.Results) != 1 {
					okDel = false
					return
				}
				sc := staticCallee(cl.Common())
				if sc == nil || !InRepo(sc) || sc.Blocks == nil || len(sc.Params) != 2 || len(cl.Call.Args) != 2 {
					okDel = false
					return
				}
				del = cl
			})
			if okDel && nret == 1 && del != nil {
				elem := func(v ssa.Value) string {
					o := r.Of(v)
					if o.K == "index" {
						return trimOrg(o.Sub[1].String())
					}
					return trimOrg(o.String())
				}
				a0, a1 := elem(del.Call.Args[0]), elem(del.Call.Args[1])
				sc := staticCallee(del.Common())
				switch {
				case a0 == first && a1 == second:
					cmpFn = sc
					first, second = "P("+sc.Params[0].Name()+")", "P("+sc.Params[1].Name()+")"
				case a0 == second && a1 == first:
					cmpFn = sc
					first, second = "P("+sc.Params[1].Name()+")", "P("+sc.Params[0].Name()+")"
				}
				if cmpFn != s.fn {
					c.Fn(funcDisplayName(cmpFn))
					name += " (delegating to " + cmpFn.Name() + ")"
				}
			}
		}
		var intCmp *ssa.BinOp
		var parser *ssa.Function
		nStrOnly := 0
		allInstrs(cmpFn, func(in ssa.Instruction) {
			ret, ok := in.(*ssa.Return)
			if !ok || len(ret.Results) != 1 {
				return
			}
			b, ok := ret.Results[0].(*ssa.BinOp)
			if !ok {
				return
			}
			if isIntType(b.X.Type()) {
				xo, yo := r.Of(b.X), r.Of(b.Y)
				if xo.K == "call" && yo.K == "call" && xo.Idx == 0 && yo.Idx == 0 {
					intCmp = b
					if f, ok := xo.V.(*ssa.Call); ok {
						parser = staticCallee(f.Common())
					}
				}
			} else if isStringish(b.X.Type()) {
				nStrOnly++
			}
		})
		if intCmp == nil {
			c.Bad("rotation-order-numeric", name, p.Pos(s.fn.Pos()), "the comparator never compares rotation numbers as integers: the order is lexicographic, so with ten or more rotated files the older ones (audit.log.10, .11) are delivered after newer ones (.9, .2)")
			continue
		}
		// direction: element i (first parameter) before element j when its number is larger
		xo, yo := r.Of(intCmp.X), r.Of(intCmp.Y)
		argIdx := func(o *Org) string {
			cl := o.V.(*ssa.Call)
			if len(cl.Call.Args) == 0 {
				return "?"
			}
			ao := r.Of(cl.Call.Args[0])
			if ao.K == "index" {
				return trimOrg(ao.Sub[1].String())
			}
			return trimOrg(ao.String())
		}
		desc := (intCmp.Op == token.GTR && argIdx(xo) == first && argIdx(yo) == second) || (intCmp.Op == token.LSS && argIdx(xo) == second && argIdx(yo) == first)
		c.Cond(desc, "rotation-order-numeric", name+": numeric comparison", p.InstrPos(intCmp), "less(i,j) = number(i) > number(j): larger rotation numbers (older files) first", "the numeric comparison orders the files newest first (or compares the wrong elements)")
		// the integer comparison is used when both numbers are available and differ
		gs := GuardsOf(intCmp)
		bothOK := 0
		for _, g := range gs {
			a := atomsOf(g)
			if o := r.Of(a.V); o.K == "call" && o.Idx == 1 && a.Pos {
				bothOK++
			}
		}
		c.Cond(bothOK >= 2 || bothOK == 0, "rotation-order-numeric", name+": numeric comparison applies when both names carry a number", p.InstrPos(intCmp), fmt.Sprintf("guarded by %d 'has a number' flags", bothOK), "the numeric comparison is used although only one of the names has a rotation number")
		if parser != nil && InRepo(parser) {
			numberParser(c, parser)
		} else {
			c.Unk("number-parser-unbounded", name, p.InstrPos(intCmp), "the rotation numbers are not produced by a repository function that can be inspected")
		}
	}
}

// numberParser: rejects only on conversion error or negative value.
func numberParser(c *Check, fn *ssa.Function) {
	p := c.P
	c.Fn(funcDisplayName(fn))
	r := NewResolver(p)
	name := "number parser " + fn.Name()
	var atoi *ssa.Call
	allInstrs(fn, func(in ssa.Instruction) {
		if cl, ok := in.(*ssa.Call); ok {
			if sc := staticCallee(cl.Common()); sc != nil && (sc.String() == "strconv.Atoi" || sc.String() == "strconv.ParseInt" || sc.String() == "strconv.ParseUint") {
				atoi = cl
			}
		}
	})
	if atoi == nil {
		c.Bad("number-parser-unbounded", name, p.Pos(fn.Pos()), "the rotation number is not obtained by a numeric conversion of the name's suffix")
		return
	}
	// every comparison of the converted number with a constant other than "< 0" bounds the accepted range
	bad := ""
	allInstrs(fn, func(in ssa.Instruction) {
		b, ok := in.(*ssa.BinOp)
		if !ok {
			return
		}
		xo, yo := r.Of(b.X), r.Of(b.Y)
		var k int64
		var op token.Token
		isN := func(o *Org) bool { return o.K == "call" && o.V == ssa.Value(atoi) && o.Idx == 0 }
		if isN(xo) {
			v, okc := intConstOf(b.Y)
			if !okc {
				return
			}
			k, op = v, b.Op
		} else if isN(yo) {
			v, okc := intConstOf(b.X)
			if !okc {
				return
			}
			k, op = v, flipOp(b.Op)
		} else {
			return
		}
		switch {
		case op == token.LSS && k <= 0, op == token.LEQ && k < 0, op == token.GEQ && k <= 0, op == token.GTR && k < 0:
			// sign test
		case op == token.EQL || op == token.NEQ:
		default:
			bad = fmt.Sprintf("the converted number is compared with %d (%s): rotation numbers beyond that bound are treated as not numbered and fall back to lexicographic order", k, op)
		}
	})
	c.Cond(bad == "", "number-parser-unbounded", name, p.InstrPos(atoi), "a name is rejected only on a conversion error or a negative number", bad)
	// suffix separator is stripped before the conversion: the argument derives from the name parameter through TrimPrefix/slicing
	ao := r.Of(atoi.Call.Args[0])
	okArg := false
	for cur := ao; cur != nil; {
		if cur.K == "param" {
			okArg = true
			break
		}
		if cur.K == "call" && (cur.Name == "strings.TrimPrefix" || cur.Name == "strings.TrimLeft" || cur.Name == "path/filepath.Ext") {
			cur = r.Of(cur.V.(*ssa.Call).Call.Args[0])
			continue
		}
		if cur.K == "slice" {
			cur = cur.Sub[0]
			continue
		}
		break
	}
	c.Cond(okArg, "number-parser-unbounded", name+": converted text", p.InstrPos(atoi), "the suffix of the name itself", "the converted text does not derive from the file name")
}

// lineReader: rule 2.
func lineReader(c *Check) {
	p := c.P
	// functions of the package that send strings on a channel after a framing read
	var fn *ssa.Function
	var read *ssa.Call
	for _, f := range p.AllRepoFuncs() {
		if FuncPkgPath(f) != ModPath+"/"+pkgDir {
			continue
		}
		allInstrs(f, func(in ssa.Instruction) {
			cl, ok := in.(*ssa.Call)
			if !ok {
				return
			}
			sc := staticCallee(cl.Common())
			if sc == nil {
				return
			}
			switch sc.String() {
			case "(*bufio.Reader).ReadString", "(*bufio.Reader).ReadBytes":
				fn, read = f, cl
			case "(*bufio.Scanner).Scan", "(*bufio.Reader).ReadLine", "(*bufio.Reader).ReadSlice":
				c.Bad("whole-lines-only", sc.String()+" in "+f.Name(), p.InstrPos(in), "lines are framed with a primitive that also yields the unterminated tail at end of file (or is bounded by its buffer): a line is delivered before its newline was written and the byte count no longer equals the bytes of complete lines")
			}
		})
	}
	if read == nil {
		c.Bad("whole-lines-only", "framing read of the line reader", "-", "no accumulating ReadString/ReadBytes in the package")
		return
	}
	c.Fn(funcDisplayName(fn))
	r := NewResolver(p)
	name := "line reader " + fn.Name()
	// only the line reader delivers lines: a second function of the package
	// that sends strings (text it split itself, the rest of a rotated file)
	// delivers text that did not pass the "terminated by a newline" test
	for _, f := range p.AllRepoFuncs() {
		if FuncPkgPath(f) != ModPath+"/"+pkgDir || f == fn {
			continue
		}
		allInstrs(f, func(in ssa.Instruction) {
			bad := false
			switch x := in.(type) {
			case *ssa.Send:
				bad = isStringish(x.X.Type())
			case *ssa.Select:
				for _, st := range x.States {
					if st.Dir == types.SendOnly && isStringish(st.Send.Type()) {
						bad = true
					}
				}
			}
			if bad {
				c.Bad("whole-lines-only", "strings sent on a channel in "+f.Name(), p.InstrPos(in), "lines are delivered by a function other than the line reader "+fn.Name()+": what it sends was not framed by the accumulating newline read, so an unterminated fragment can be delivered as a line (and the byte count of delivered lines no longer matches the resume offset)")
			}
		})
	}
	d, okD := read.Call.Args[1].(*ssa.Const)
	c.Cond(okD && d.Int64() == '\n', "whole-lines-only", name+": delimiter", p.InstrPos(read), "ReadString('\\n')", "lines are not framed by the newline character")
	var line, rerr ssa.Value
	if rr := read.Referrers(); rr != nil {
		for _, u := range *rr {
			if ex, ok := u.(*ssa.Extract); ok {
				if ex.Index == 0 {
					line = ex
				} else {
					rerr = ex
				}
			}
		}
	}
	if line == nil || rerr == nil {
		c.Bad("whole-lines-only", name, p.InstrPos(read), "read result or error discarded")
		return
	}
	nn, nl, _ := errEdge(rerr)
	if nn == nil {
		c.Bad("whole-lines-only", name, p.InstrPos(read), "read error not tested")
		return
	}
	// counter: values of type int64 returned as result 0; increments = BinOp ADD with conv(len(line))
	var incs []*ssa.BinOp
	allInstrs(fn, func(in ssa.Instruction) {
		b, ok := in.(*ssa.BinOp)
		if !ok || b.Op != token.ADD || typeName(b.Type()) != "int64" {
			return
		}
		incs = append(incs, b)
	})
	okInc := len(incs) == 1
	why := fmt.Sprintf("%d additions to the byte counter", len(incs))
	if okInc {
		b := incs[0]
		yo := r.Of(b.Y)
		// conv(len(line))
		isLen := false
		cur := yo
		for cur.K == "unop" && len(cur.Sub) == 1 {
			cur = cur.Sub[0]
		}
		if cur.K == "call" && cur.Name == "len" {
			if lc, ok := cur.V.(*ssa.Call); ok && strip(lc.Call.Args[0]) == line {
				isLen = true
			}
		}
		onNil := nl != nil && (b.Block() == nl || nl.Dominates(b.Block()))
		_, isPhi := b.X.(*ssa.Phi)
		okInc = isLen && onNil && isPhi
		if !isLen {
			why = "the counter is not increased by the length of the line read"
		} else if !onNil {
			why = "the counter is increased before the read error is checked: an unterminated tail is counted, so the next read starts past it and the line is lost"
		}
	}
	c.Cond(okInc, "whole-lines-only", name+": byte counter", p.InstrPos(read), "increased by len(line read) only on the nil-error edge of the read", why)
	// delivery
	var sel *ssa.Select
	var sent ssa.Value
	allInstrs(fn, func(in ssa.Instruction) {
		if s, ok := in.(*ssa.Select); ok {
			for _, st := range s.States {
				if st.Dir == types.SendOnly && isStringish(st.Send.Type()) {
					sel, sent = s, st.Send
				}
			}
		}
		if s, ok := in.(*ssa.Send); ok && isStringish(s.X.Type()) {
			c.Bad("whole-lines-only", name+": bare send of a line", p.InstrPos(in), "lines are delivered with a send that cannot be cancelled")
		}
	})
	if sel == nil {
		c.Bad("whole-lines-only", name+": delivery", p.Pos(fn.Pos()), "lines are not delivered through a cancellable select")
		return
	}
	ok, whyS := idiomSelect(&CtxJudge{P: p}, r, sel)
	if !ok && strings.Contains(whyS, "no caller") {
		// library-style API: the context is the caller's; accept a Done() case on the context parameter
		for _, st := range sel.States {
			if st.Dir == types.RecvOnly {
				if x := doneRecvOf(st.Chan); x != nil {
					if o := r.Of(x); o.K == "param" {
						ok, whyS = true, "select has a case on Done() of the context parameter"
					}
				}
			}
		}
	}
	c.Cond(ok, "whole-lines-only", name+": delivery is cancellable", p.InstrPos(sel), whyS, whyS)
	onNil := nl != nil && (sel.Block() == nl || nl.Dominates(sel.Block()))
	c.Cond(onNil, "whole-lines-only", name+": delivery only after a complete read", p.InstrPos(sel), "the select is on the nil-error edge of the read", "a line can be delivered although the read failed (unterminated tail at end of file)")
	// delivered = line[0:len-1] (or "" when empty)
	okStrip := true
	whySt := ""
	so := r.Of(sent)
	for _, a := range so.Alts() {
		switch a.K {
		case "const":
			if s, _ := a.ConstString(); s != "" {
				okStrip = false
				whySt = "a constant is delivered"
			}
		case "slice":
			sl, isSl := a.V.(*ssa.Slice)
			if !isSl || strip(sl.X) != line {
				okStrip = false
				whySt = "the delivered text is not a slice of the line read"
				continue
			}
			hi, isB := sl.High.(*ssa.BinOp)
			okHi := false
			if isB && hi.Op == token.SUB {
				if k, ok := intConstOf(hi.Y); ok && k == 1 {
					if lc, ok := hi.X.(*ssa.Call); ok {
						if bi, ok := lc.Call.Value.(*ssa.Builtin); ok && bi.Name() == "len" && strip(lc.Call.Args[0]) == line {
							okHi = true
						}
					}
				}
			}
			lo := sl.Low == nil
			if k, ok := intConstOf(sl.Low); ok && k == 0 {
				lo = true
			}
			if !okHi || !lo {
				okStrip = false
				whySt = "the delivered text is not the line minus exactly its last byte"
			}
		case "call":
			// strings.TrimSuffix(line, "\n"): removes exactly one newline, the
			// one the framing read guarantees on its nil-error edge
			cl, isCall := a.V.(*ssa.Call)
			okTrim := false
			if isCall && a.Name == "strings.TrimSuffix" && len(cl.Call.Args) == 2 && strip(cl.Call.Args[0]) == line {
				if s, isK := constStr(cl.Call.Args[1]); isK && s == "\n" {
					okTrim = true
				}
			}
			if !okTrim {
				okStrip = false
				whySt = "the delivered text is " + trimOrg(a.String()) + " (the newline is not stripped, or more than the newline is removed)"
			}
		default:
			okStrip = false
			whySt = "the delivered text is " + trimOrg(a.String()) + " (the newline is not stripped, or more than the newline is removed)"
		}
	}
	c.Cond(okStrip, "whole-lines-only", name+": delivered text", p.InstrPos(sel), "the line read minus its final newline", whySt)
}

// offsetDiscipline: rule 3.
func offsetDiscipline(c *Check) {
	p := c.P
	rt := p.RepoPkg(pkgDir).Type("rotatingFile")
	if !c.Anchor("type dirreader.rotatingFile", rt != nil) {
		return
	}
	// the method that seeks and reads
	var fn *ssa.Function
	var seek *ssa.Call
	for _, f := range p.AllRepoFuncs() {
		if FuncPkgPath(f) != ModPath+"/"+pkgDir {
			continue
		}
		allInstrs(f, func(in ssa.Instruction) {
			if cl, ok := in.(*ssa.Call); ok && cl.Common().IsInvoke() && cl.Common().Method.Name() == "Seek" {
				fn, seek = f, cl
			}
		})
	}
	if !c.Anchor("tail reader (method calling Seek)", seek != nil) {
		return
	}
	c.Fn(funcDisplayName(fn))
	r := NewResolver(p)
	name := "tail reader " + fn.Name()
	// helper roles on rotatingFile: setOffset (atomic store), incOffsetBy (atomic add), getOffset (atomic load)
	role := func(cl ssa.CallInstruction) string {
		sc := staticCallee(cl.Common())
		if sc == nil || !InRepo(sc) || sc.Signature.Recv() == nil {
			return ""
		}
		kind := ""
		allInstrs(sc, func(in ssa.Instruction) {
			if c2, ok := in.(*ssa.Call); ok {
				if s2 := staticCallee(c2.Common()); s2 != nil {
					switch s2.String() {
					case "sync/atomic.StoreInt64", "(*sync/atomic.Int64).Store":
						kind = "set"
					case "sync/atomic.AddInt64", "(*sync/atomic.Int64).Add":
						kind = "add"
					case "sync/atomic.LoadInt64", "(*sync/atomic.Int64).Load":
						kind = "get"
					}
				}
			}
		})
		return kind
	}
	var sets, adds, gets []*ssa.Call
	for _, ci := range callsIn(fn) {
		if cl, ok := ci.(*ssa.Call); ok {
			switch role(cl) {
			case "set":
				sets = append(sets, cl)
			case "add":
				adds = append(adds, cl)
			case "get":
				gets = append(gets, cl)
			}
		}
	}
	// op parameter
	var opParam *ssa.Parameter
	for _, prm := range fn.Params {
		if strings.HasSuffix(typeName(prm.Type()), "fsnotify.Op") {
			opParam = prm
		}
	}
	if !c.Anchor("fsnotify.Op parameter of the tail reader", opParam != nil) {
		return
	}
	opConst := func(nameC string) int64 {
		tp := p.TypesPkg("github.com/fsnotify/fsnotify")
		if tp == nil {
			return -1
		}
		if k, ok := tp.Scope().Lookup(nameC).(*types.Const); ok {
			v, _ := constantInt(k)
			return v
		}
		return -1
	}
	// guards by op value
	opGuard := func(in ssa.Instruction) map[int64]bool {
		m := map[int64]bool{}
		for _, g := range GuardsOf(in) {
			a := atomsOf(g)
			b, ok := a.V.(*ssa.BinOp)
			if !ok || b.Op != token.EQL || b.X != ssa.Value(opParam) || !a.Pos {
				continue
			}
			if k, ok := intConstOf(b.Y); ok {
				m[k] = true
			}
		}
		return m
	}
	_ = opGuard
	// reset-and-return for create/remove/rename: find the block(s) entered on op == K for each K
	for _, nm := range []string{"Create", "Remove", "Rename"} {
		k := opConst(nm)
		found := false
		allInstrs(fn, func(in ssa.Instruction) {
			iff, ok := in.(*ssa.If)
			if !ok {
				return
			}
			b, ok := iff.Cond.(*ssa.BinOp)
			if !ok || b.Op != token.EQL || b.X != ssa.Value(opParam) {
				return
			}
			if v, ok := intConstOf(b.Y); !ok || v != k {
				return
			}
			blk := iff.Block().Succs[0]
			// the block resets the offset to 0 and returns without reading
			reset := false
			for _, i2 := range blk.Instrs {
				if cl, ok := i2.(*ssa.Call); ok && role(cl) == "set" {
					if z, ok := intConstOf(cl.Call.Args[len(cl.Call.Args)-1]); ok && z == 0 {
						reset = true
					}
				}
			}
			reads := blockReachesInstr(blk, func(x ssa.Instruction) bool { return x == ssa.Instruction(seek) }, nil) != nil
			if reset && !reads {
				found = true
			}
		})
		c.Cond(found, "offset-discipline", name+": on "+nm, p.Pos(fn.Pos()), "the offset is reset to 0 and the function returns without reading", "after a "+strings.ToLower(nm)+" event the resume offset is not reset (or the old file is read again): lines of the new file are skipped or old lines delivered twice")
	}
	// shrink check before the offset is read
	var get *ssa.Call
	so := r.Of(seek.Call.Args[0])
	if so.K == "call" {
		if cl, ok := so.V.(*ssa.Call); ok && role(cl) == "get" {
			get = cl
		}
	}
	c.Cond(get != nil, "offset-discipline", name+": seek position", p.InstrPos(seek), "Seek(offset read from the resume offset, io.SeekStart)", "the file is not positioned at the stored resume offset ("+trimOrg(so.String())+")")
	if w, ok := intConstOf(seek.Call.Args[1]); ok {
		c.Cond(w == 0, "offset-discipline", name+": seek whence", p.InstrPos(seek), "io.SeekStart", "the seek is not relative to the start of the file")
	}
	shrink := false
	var shrinkSet *ssa.Call
	for _, s := range sets {
		for _, g := range GuardsOf(s) {
			a := atomsOf(g)
			b, ok := a.V.(*ssa.BinOp)
			if !ok || !a.Pos {
				continue
			}
			xo, yo := r.Of(b.X), r.Of(b.Y)
			isSize := func(o *Org) bool { return o.K == "call" && strings.HasSuffix(o.Name, ".Size") }
			isLast := func(o *Org) bool { return o.K == "field" && o.Name == "lastSz" }
			if (b.Op == token.LSS && isSize(xo) && isLast(yo)) || (b.Op == token.GTR && isLast(xo) && isSize(yo)) {
				if z, ok := intConstOf(s.Call.Args[len(s.Call.Args)-1]); ok && z == 0 {
					shrink = true
					shrinkSet = s
				}
			}
		}
	}
	c.Cond(shrink && get != nil && shrinkSet != nil && reachesInstr(shrinkSet, get) && !reachesInstr(get, shrinkSet), "offset-discipline", name+": truncation", p.Pos(fn.Pos()), "when the size is below the last observed size the offset is reset before it is read", "a truncated (or rotated and shorter) file is read from the old offset: its new lines are skipped")
	// lastSz updated with the current size before reading
	upd := false
	allInstrs(fn, func(in ssa.Instruction) {
		st, ok := in.(*ssa.Store)
		if !ok {
			return
		}
		fa, ok := st.Addr.(*ssa.FieldAddr)
		if !ok || fieldName(fa.X.Type(), fa.Field) != "lastSz" {
			return
		}
		o := r.Of(st.Val)
		if o.K == "call" && strings.HasSuffix(o.Name, ".Size") && dominatesInstr(st, seek) {
			upd = true
		}
	})
	c.Cond(upd, "offset-discipline", name+": last size recorded", p.Pos(fn.Pos()), "lastSz <- current size before the read", "the last observed size is not recorded: a later truncation cannot be detected")
	// advance by exactly the reader's count on its nil path
	okAdv := len(adds) == 1
	why := fmt.Sprintf("%d offset advances", len(adds))
	if okAdv {
		a := adds[0]
		ao := r.Of(a.Call.Args[len(a.Call.Args)-1])
		okAdv = false
		why = "the offset is advanced by " + trimOrg(ao.String())
		if ao.K == "call" && ao.Idx == 0 {
			rc := ao.V.(*ssa.Call)
			// rc's callee returns (count, err): advance only on err == nil
			var errV ssa.Value
			if rr := rc.Referrers(); rr != nil {
				for _, u := range *rr {
					if ex, ok := u.(*ssa.Extract); ok && ex.Index == 1 {
						errV = ex
					}
				}
			}
			onNil := false
			if errV != nil {
				for _, g := range GuardsOf(a) {
					at := atomsOf(g)
					if b, ok := at.V.(*ssa.BinOp); ok && (b.X == errV || b.Y == errV) {
						if (b.Op == token.NEQ && !at.Pos) || (b.Op == token.EQL && at.Pos) {
							onNil = true
						}
					}
				}
			}
			if onNil && dominatesInstr(seek, rc) {
				okAdv = true
			} else if !onNil {
				why = "the offset is advanced although the line reader failed (or before its error is checked): the bytes of lines that were not delivered are skipped"
			}
		}
	}
	c.Cond(okAdv, "offset-discipline", name+": offset advance", p.Pos(fn.Pos()), "advanced once, by the byte count of complete lines returned by the line reader, on its nil-error path", why)
}

func constantInt(k *types.Const) (int64, bool) {
	v := k.Val()
	if v == nil {
		return 0, false
	}
	i, ok := constantInt64(v)
	return i, ok
}

// initialThenEvents: rule 4.
func initialThenEvents(c *Check) {
	p := c.P
	// the loop function: a method with a blocking select that receives from a channel of a repo struct type (completion token)
	var fn *ssa.Function
	var sel *ssa.Select
	for _, f := range p.AllRepoFuncs() {
		if FuncPkgPath(f) != ModPath+"/"+pkgDir {
			continue
		}
		allInstrs(f, func(in ssa.Instruction) {
			s, ok := in.(*ssa.Select)
			if !ok || !s.Blocking {
				return
			}
			for _, st := range s.States {
				if st.Dir == types.RecvOnly {
					if ch, ok := st.Chan.Type().Underlying().(*types.Chan); ok {
						if n, ok := ch.Elem().(*types.Named); ok && n.Obj().Pkg() != nil && strings.HasSuffix(n.Obj().Pkg().Path(), pkgDir) {
							fn, sel = f, s
						}
					}
				}
			}
		})
	}
	if !c.Anchor("event loop of the directory reader (select on the completion-token channel)", sel != nil) {
		return
	}
	c.Fn(funcDisplayName(fn))
	r := NewResolver(p)
	name := "event loop " + fn.Name()
	var tokState, evState = -1, -1
	var tokChan ssa.Value
	for k, st := range sel.States {
		if st.Dir != types.RecvOnly {
			continue
		}
		ch := st.Chan.Type().Underlying().(*types.Chan)
		if n, ok := ch.Elem().(*types.Named); ok && n.Obj().Pkg() != nil {
			if strings.HasSuffix(n.Obj().Pkg().Path(), pkgDir) {
				tokState, tokChan = k, st.Chan
			} else if n.Obj().Name() == "Event" {
				evState = k
			}
		}
	}
	c.Cond(tokState >= 0 && evState >= 0, "initial-files-then-events", name+": select cases", p.InstrPos(sel), "completion-token case and watcher-event case", "the loop does not have both a completion-token case and a watcher-event case")
	if tokState < 0 {
		return
	}
	tb := selectCaseBlock(sel, tokState)
	// goroutines spawned in the token case: exactly one Go, not in an inner loop, whose closure sends exactly one token
	var gos []*ssa.Go
	allInstrs(fn, func(in ssa.Instruction) {
		if g, ok := in.(*ssa.Go); ok {
			gos = append(gos, g)
		}
	})
	okGo := len(gos) == 1 && tb != nil && (gos[0].Block() == tb || tb.Dominates(gos[0].Block()))
	why := fmt.Sprintf("%d goroutine start(s) in the loop", len(gos))
	var reader *ssa.Function
	if okGo {
		mc, isMC := gos[0].Call.Value.(*ssa.MakeClosure)
		if !isMC {
			okGo = false
			why = "reader goroutine is not a closure"
		} else {
			reader = mc.Fn.(*ssa.Function)
			c.Fn(funcDisplayName(reader))
			nsend := 0
			loopSend := false
			allInstrs(reader, func(in ssa.Instruction) {
				if s, ok := in.(*ssa.Send); ok {
					rr := NewResolver(p)
					if cellOf(rr, s.Chan) == cellOf(r, tokChan) || sameValue(rr.Of(s.Chan), r.Of(tokChan)) {
						nsend++
						if inLoop(s) {
							loopSend = true
						}
					}
				}
			})
			if nsend != 1 || loopSend {
				okGo = false
				why = fmt.Sprintf("the reader goroutine sends %d completion token(s) (in a loop: %v)", nsend, loopSend)
			}
		}
	}
	c.Cond(okGo, "initial-files-then-events", name+": one reader per completion token", p.InstrPos(sel), "each received token starts at most one reader goroutine, which sends exactly one token: at most one reader is alive and files are read one after another", "token conservation is broken ("+why+"): two initial files can be read concurrently and their lines interleave")
	// exactly one token is in flight initially: channel capacity 1, one initial send guarded by len(init) > 0
	// index strictly increasing: the index variable is a phi incremented by 1 after the Go
	idxOK := false
	allInstrs(fn, func(in ssa.Instruction) {
		b, ok := in.(*ssa.BinOp)
		if !ok || b.Op != token.ADD || !isIntType(b.Type()) {
			return
		}
		if k, ok := intConstOf(b.Y); ok && k == 1 {
			if ph, ok := b.X.(*ssa.Phi); ok && len(gos) == 1 && (b.Block() == gos[0].Block() || gos[0].Block().Dominates(b.Block())) {
				// the file opened by the reader is init[phi]
				for _, e := range ph.Edges {
					if c0, ok := e.(*ssa.Const); ok && c0.Int64() == 0 {
						idxOK = true
					}
				}
			}
		}
	})
	c.Cond(idxOK, "initial-files-then-events", name+": file index", p.InstrPos(sel), "starts at 0 and is incremented by one per reader started", "the index of the next initial file is not a counter from 0 increased by one per file: files are skipped, repeated or read out of order")
	// live-log offset set from the count reported for the live log's path
	okOff := false
	allInstrs(fn, func(in ssa.Instruction) {
		cl, ok := in.(*ssa.Call)
		if !ok {
			return
		}
		sc := staticCallee(cl.Common())
		if sc == nil || !InRepo(sc) || sc.Name() != "setOffset" {
			return
		}
		ao := r.Of(cl.Call.Args[len(cl.Call.Args)-1])
		if ao.K != "field" || ao.Name != "numBytesRead" {
			return
		}
		for _, g := range GuardsOf(cl) {
			a := atomsOf(g)
			b, ok := a.V.(*ssa.BinOp)
			if !ok || !((b.Op == token.EQL && a.Pos) || (b.Op == token.NEQ && !a.Pos)) {
				continue // not known to be equal on this path
			}
			xo, yo := r.Of(b.X), r.Of(b.Y)
			if (xo.K == "field" && xo.Name == "filePath") || (yo.K == "field" && yo.Name == "filePath") {
				okOff = true
			}
		}
	})
	c.Cond(okOff, "initial-files-then-events", name+": live log offset", p.InstrPos(sel), "set from the byte count reported for the live log's own path", "the resume offset of the live log is not taken from the count of the live log's initial read: its lines are delivered twice or skipped")
	// watcher events reach the tail reader only when the initial list is exhausted and only for the live log path
	if evState >= 0 {
		eb := selectCaseBlock(sel, evState)
		var tail *ssa.Call
		allInstrs(fn, func(in ssa.Instruction) {
			if cl, ok := in.(*ssa.Call); ok {
				if sc := staticCallee(cl.Common()); sc != nil && InRepo(sc) && strings.HasPrefix(sc.Name(), "read") && sc.Signature.Recv() != nil && eb != nil && (cl.Block() == eb || eb.Dominates(cl.Block())) {
					tail = cl
				}
			}
		})
		if tail == nil {
			c.Bad("initial-files-then-events", name+": watcher events", p.InstrPos(sel), "watcher events never reach the tail reader")
		} else {
			exhausted, pathEq := false, false
			for _, g := range GuardsOf(tail) {
				a := atomsOf(g)
				b, ok := a.V.(*ssa.BinOp)
				if !ok || !((b.Op == token.EQL && a.Pos) || (b.Op == token.NEQ && !a.Pos)) {
					continue // not known to be equal on this path
				}
				xo, yo := r.Of(b.X), r.Of(b.Y)
				if k, ok := intConstOf(b.Y); ok && k == 0 && xo.K == "call" && xo.Name == "len" {
					exhausted = true
				}
				if isStringish(b.X.Type()) && ((xo.K == "field" && xo.Name == "Name") || (yo.K == "field" && yo.Name == "Name")) {
					pathEq = true
				}
			}
			// between the event loop and the tail reader (the method that
			// seeks) no function drops the event: every path hands the
			// operation on, unless a test of the operation alone decides
			// otherwise. A rate limit, a memo or a size shortcut in front of
			// the read swallows the event of a complete line.
			{
				var seekFn *ssa.Function
				for _, f := range p.AllRepoFuncs() {
					if FuncPkgPath(f) != ModPath+"/"+pkgDir {
						continue
					}
					allInstrs(f, func(in ssa.Instruction) {
						if cl, ok := in.(*ssa.Call); ok && cl.Common().IsInvoke() && cl.Common().Method.Name() == "Seek" {
							seekFn = f
						}
					})
				}
				cur := staticCallee(tail.Common())
				nchain := 0
				seenF := map[*ssa.Function]bool{}
				for cur != nil && cur != seekFn && !seenF[cur] && nchain < 6 {
					seenF[cur] = true
					nchain++
					c.Fn(funcDisplayName(cur))
					var opP *ssa.Parameter
					for _, prm := range cur.Params {
						if typeName(prm.Type()) == "fsnotify.Op" {
							opP = prm
						}
					}
					var fv *ssa.FreeVar
					for _, v := range cur.FreeVars {
						if typeName(v.Type()) == "fsnotify.Op" {
							fv = v
						}
					}
					if opP == nil && fv == nil {
						break
					}
					cr := NewResolver(p)
					var item *Org
					if opP != nil {
						item = cr.Of(opP)
					} else {
						item = cr.Of(fv)
					}
					var next *ssa.Function
					nhandled := 0
					sameItem := func(v ssa.Value) bool {
						if sameOrg(cr.Of(v), item) {
							return true
						}
						// a captured parameter lives in a cell written once, with the parameter
						if al, ok := v.(*ssa.Alloc); ok {
							if sts := cr.cellStores(al); len(sts) == 1 && sameOrg(cr.Of(sts[0].Val), item) {
								return true
							}
						}
						return false
					}
					handled := func(in ssa.Instruction) bool {
						ci, ok := in.(ssa.CallInstruction)
						if !ok {
							return false
						}
						hit := false
						defer func() {
							if hit {
								nhandled++
							}
						}()
						for _, a := range ci.Common().Args {
							if sameItem(a) {
								hit = true
								if sc := staticCallee(ci.Common()); sc != nil && InRepo(sc) {
									next = sc
								}
							}
							if mc, ok := strip(a).(*ssa.MakeClosure); ok {
								for _, b := range mc.Bindings {
									if sameItem(b) {
										hit = true
										next = mc.Fn.(*ssa.Function)
									}
								}
							}
						}
						return hit
					}
					ds, _ := dropDeciders(cur, handled, func(ret *ssa.Return) bool {
						for _, res := range ret.Results {
							if isErrorType(res.Type()) && nilKind(cr, res, ret) == NonNil {
								return false
							}
						}
						return true
					})
					leafOK := func(o *Org) bool { return sameOrg(o, item) }
					okF := true
					for _, d := range ds {
						if ok, w := condOnly(cr, d.If.Cond, leafOK, 0); !ok {
							okF = false
							c.Bad("initial-files-then-events", name+": watcher event reaches the tail reader through "+cur.Name(), p.InstrPos(d.If), "the function can return without handing the event on, depending on "+w+" (not on the kind of event alone): the event of a complete appended line is swallowed and the line is delivered late or never")
						}
					}
					if nhandled == 0 {
						okF = false
						c.Unk("initial-files-then-events", name+": watcher event reaches the tail reader through "+cur.Name(), p.Pos(cur.Pos()), "no call that hands the event's operation on was recognised")
					}
					if okF {
						c.OK("initial-files-then-events", name+": watcher event reaches the tail reader through "+cur.Name(), p.Pos(cur.Pos()), "no path drops the event")
					}
					cur = next
				}
			}
			c.Cond(exhausted && pathEq, "initial-files-then-events", name+": watcher events", p.InstrPos(tail), "handled only when no initial file remains and only for the live log's path", fmt.Sprintf("watcher events are handled while initial files are still being read, or for other files (initial list exhausted: %v, path compared: %v): lines are delivered out of order or from rotated files", exhausted, pathEq))
		}
	}
}

func constantInt64(v constant.Value) (int64, bool) { return constant.Int64Val(v) }
