package main

import (
	"fmt"
	"go/constant"
	"go/token"
	"go/types"
	"sort"
	"strings"

	"golang.org/x/tools/go/ssa"
)

func init() { register("C13", "other", checkC13) }

// Worker is a function started through (*errgroup.Group).Go.
type Worker struct {
	Fn    *ssa.Function
	Site  ssa.CallInstruction
	Label string
	Pipe  bool // pipeline worker (ingester / audit processor)
}

// findWorkers discovers the closures handed to errgroup.Group.Go in the
// cmd package (role discovery through the errgroup anchor).
func findWorkers(c *Check) []Worker {
	p := c.P
	goObj := p.ExtObj("golang.org/x/sync/errgroup", "Group", "Go")
	if !c.Anchor("(*errgroup.Group).Go", goObj != nil) {
		return nil
	}
	pk := p.RepoPkg("cmd")
	if !c.Anchor("package cmd", pk != nil) {
		return nil
	}
	var out []Worker
	for _, fn := range p.AllRepoFuncs() {
		if FuncPkgPath(fn) != ModPath+"/cmd" {
			continue
		}
		for _, ci := range callsIn(fn) {
			if !isCalleeObj(ci.Common(), goObj) {
				continue
			}
			args := ci.Common().Args
			if len(args) < 2 {
				continue
			}
			mc, ok := args[1].(*ssa.MakeClosure)
			if !ok {
				c.Unk("worker-discovery", "errgroup Go argument in "+funcDisplayName(fn), p.InstrPos(ci), "worker is not a closure literal; cannot identify it")
				continue
			}
			w := Worker{Fn: mc.Fn.(*ssa.Function), Site: ci}
			var labels []string
			var bodyCalls []ssa.CallInstruction
			for _, bf := range cmdBody(p, w.Fn) {
				bodyCalls = append(bodyCalls, callsIn(bf)...)
			}
			for _, cc := range bodyCalls {
				sc := staticCallee(cc.Common())
				if sc == nil && cc.Common().IsInvoke() && (cc.Common().Method.Name() == "Ingest" || cc.Common().Method.Name() == "Read") {
					// a pipeline worker behind an interface: every repository implementation
					for _, dc := range p.dynCallees(cc) {
						if InRepo(dc) && p.InDaemon(dc) && dc.Signature.Recv() != nil {
							labels = append(labels, funcDisplayName(dc))
							w.Pipe = true
						}
					}
					continue
				}
				if sc == nil {
					continue
				}
				if InRepo(sc) && sc.Signature.Recv() != nil && (sc.Name() == "Ingest" || sc.Name() == "Read") {
					labels = append(labels, funcDisplayName(sc))
					w.Pipe = true
				}
				if !InRepo(sc) && (strings.Contains(sc.String(), "ListenAndServe") || strings.Contains(sc.String(), "Shutdown")) {
					labels = append(labels, sc.String())
				}
			}
			if len(labels) == 0 {
				labels = []string{w.Fn.Name()}
			}
			w.Label = strings.Join(labels, "+")
			out = append(out, w)
		}
	}
	sort.Slice(out, func(i, j int) bool { return out[i].Fn.Pos() < out[j].Fn.Pos() })
	return out
}

func checkC13(c *Check) {
	c.Explanation = "Blocking-operation rule: in the cone of each of the three pipeline workers (and every goroutine they spawn) every channel send, receive, blocking select and blocking library call is an obligation that must match an accepted cancellation idiom tied to the worker's context; contexts are threaded unchanged (no Background/TODO in the cone). This is a necessary condition for each blocking state named in the property (pipe not yet opened, idle pipe, unready correlator, full downstream buffer); together with the library contracts it is what makes a bound on the stopping time exist. The numeric bound itself is not decided."
	c.Rule("worker-discovery: closures passed to (*errgroup.Group).Go in package cmd that call Ingest/Read (floor 3)")
	c.Rule("blocking-site: every send / receive / blocking select / call of a blocking external in the worker's cone matches idiom (a) select with <-ctx.Done() case that cannot loop back; (b) single send into a channel made with capacity>=1 by a once-spawned goroutine; (d) bare <-ctx.Done(); (e) blocking open in a spawned goroutine whose completion channel is awaited in an idiom-(a) select; (f) blocking read on a file that a sibling goroutine closes on ctx.Done(), the read error ending the loop; (h) mutex acquisition where no holder blocks (C03 S6 / health map methods); (i) library retry loop whose policy is bound to the worker context or a constant attempt limit; (j) http.Server.Shutdown with the worker context or a deadline context; (k) polling loop (non-blocking receive in a loop) that checks the worker context on every cycle; deferred WaitGroup/errgroup waits are blocking sites; goroutine bodies may be closures or named functions started with go")
	c.Rule("ctx-threading: every context argument passed or stored in the cone derives from a context parameter, a context field whose stores all do, or errgroup.WithContext/NotifyContext; never Background/TODO")
	c.Trust("closing an *os.File opened on a FIFO unblocks a pending Read (runtime poller)", "bufio.Reader.ReadString returns the read error once the file is closed", "errgroup cancels the group context on the first non-nil worker result", "go-libaudit Reassembler methods do not block indefinitely (they take a short internal lock and invoke callbacks)")
	c.Assume("dependency code only calls repository functions it was handed (callback bridging in the cone construction)")
	p := c.P
	ws := findWorkers(c)
	var pipe []Worker
	for _, w := range ws {
		if w.Pipe {
			pipe = append(pipe, w)
		}
	}
	c.Floor("pipeline workers", 3, len(pipe))
	j := &CtxJudge{P: p}
	totalSites := 0
	for _, w := range pipe {
		cone := p.ConeFrom([]*ssa.Function{w.Fn})
		n := blockingRules(c, j, w.Label, cone, true)
		totalSites += n
		c.Floor("blocking sites in cone of "+w.Label, 1, n)
	}
	c.Extra["blocking_sites_total"] = totalSites
	// (h) needs: no blocking under the tracker / health locks
	lockHoldersDoNotBlock(c)
}

// blockingRules checks every blocking site of the cone; returns the
// number of sites.
func blockingRules(c *Check, j *CtxJudge, label string, cone *Cone, threading bool) int {
	p := c.P
	n := 0
	for _, fn := range cone.Order {
		c.Fn(funcDisplayName(fn))
		r := NewResolver(p)
		for _, s := range blockingSites(fn) {
			construct := fmt.Sprintf("%s: %s in %s", label, s.Desc, funcDisplayName(fn))
			pos := p.InstrPos(s.In)
			if s.Kind == "lock" {
				c.OK("blocking-site", construct, pos, "idiom (h): mutex acquisition; critical sections of the repository contain no blocking operation (checked below)")
				continue
			}
			n++
			ok, fact := matchIdiom(c, j, r, s, cone)
			if ok {
				c.OK("blocking-site", construct, pos, fact)
			} else {
				o := Obl{Rule: "blocking-site", Construct: construct, Pos: pos, Verdict: Violated, Fact: fact, Entry: "worker " + label + "; in cone via: " + cone.Via[fn]}
				c.Obls = append(c.Obls, o)
			}
		}
		if !threading {
			continue
		}
		// ctx threading
		allInstrs(fn, func(in ssa.Instruction) {
			switch x := in.(type) {
			case ssa.CallInstruction:
				cc := x.Common()
				for i, a := range cc.Args {
					if !isContextType(a.Type()) {
						continue
					}
					// calls of the context's own constructors are judged where their result is used
					if sc := staticCallee(cc); sc != nil && FuncPkgPath(sc) == "context" {
						continue
					}
					ok, why := j.OK(r, a)
					construct := fmt.Sprintf("%s: context argument #%d of %s in %s", label, i, calleeName(cc), funcDisplayName(fn))
					if ok {
						c.OK("ctx-threading", construct, p.InstrPos(in), why)
					} else {
						c.Bad("ctx-threading", construct, p.InstrPos(in), why+": cancellation of the worker would not reach the callee")
					}
				}
			case *ssa.Store:
				if isContextType(x.Val.Type()) {
					if _, isField := x.Addr.(*ssa.FieldAddr); isField {
						ok, why := j.OK(r, x.Val)
						construct := fmt.Sprintf("%s: context stored into a field in %s", label, funcDisplayName(fn))
						if ok {
							c.OK("ctx-threading", construct, p.InstrPos(in), why)
						} else {
							c.Bad("ctx-threading", construct, p.InstrPos(in), why)
						}
					}
				}
			}
		})
	}
	return n
}

// matchIdiom tries the accepted cancellation idioms on one blocking site.
func matchIdiom(c *Check, j *CtxJudge, r *Resolver, s BSite, cone *Cone) (bool, string) {
	p := c.P
	switch s.Kind {
	case "select":
		return idiomSelect(j, r, s.In.(*ssa.Select))
	case "poll":
		// every cycle of the polling loop must look at the worker's context
		// (a select with a Done() case, or ctx.Err()): otherwise the loop
		// keeps running for as long as the producer keeps the channel busy
		sel := s.In.(*ssa.Select)
		fn := s.Fn
		isCtxCheck := func(in ssa.Instruction) bool {
			switch x := in.(type) {
			case *ssa.Select:
				if x == sel {
					return false
				}
				for _, st := range x.States {
					if st.Dir == types.RecvOnly {
						if cx := doneRecvOf(st.Chan); cx != nil {
							if ok, _ := j.OK(r, cx); ok {
								return true
							}
						}
					}
				}
			case *ssa.Call:
				if x.Common().IsInvoke() && x.Common().Method.Name() == "Err" && isContextType(x.Common().Value.Type()) {
					if ok, _ := j.OK(r, x.Common().Value); ok {
						return true
					}
				}
			case *ssa.UnOp:
				if x.Op == token.ARROW {
					if cx := doneRecvOf(x.X); cx != nil {
						return true
					}
				}
			}
			return false
		}
		if again := searchAvoiding(fn, sel, func(in ssa.Instruction) bool { return in == ssa.Instruction(sel) }, isCtxCheck); again != nil {
			return false, "polling loop: the non-blocking receive can be repeated without the worker's context being looked at in between: while the sender keeps the channel non-empty the worker does not observe cancellation"
		}
		return true, "idiom (k): every cycle of the polling loop passes a check of the worker's context"
	case "recv":
		u := s.In.(*ssa.UnOp)
		if x := doneRecvOf(u.X); x != nil {
			if ok, why := j.OK(r, x); ok {
				return true, "idiom (d): receive from Done() of the worker context (" + why + ")"
			} else {
				return false, "bare receive from a context that is not the worker's: " + why
			}
		}
		return false, "bare channel receive with no cancellation alternative: after its context is cancelled the worker stays blocked here"
	case "send":
		snd := s.In.(*ssa.Send)
		return idiomBufferedSend(r, snd, cone)
	case "call":
		ci := s.In.(ssa.CallInstruction)
		sc := staticCallee(ci.Common())
		name := sc.String()
		switch {
		case name == "os.OpenFile" || name == "os.Open":
			return idiomAwaitedOpen(j, r, s, cone)
		case strings.HasPrefix(name, "(*bufio.Reader)."):
			return idiomClosedOnCancel(j, r, s, p)
		case retryExternal(sc) != "":
			return idiomBoundedRetry(j, r, ci)
		case name == "(*net/http.Server).Shutdown":
			return idiomBoundedShutdown(j, r, ci)
		}
		return false, "blocking call " + name + " has no accepted cancellation idiom"
	}
	return false, "unrecognised blocking construct"
}

// idiom (j): graceful shutdown bounded by the (cancelled) worker context or
// by a deadline context.
func idiomBoundedShutdown(j *CtxJudge, r *Resolver, ci ssa.CallInstruction) (bool, string) {
	args := ci.Common().Args
	if len(args) != 2 {
		return false, "unexpected Shutdown call shape"
	}
	o := r.Of(args[1])
	if o.K == "call" || o.K == "ext" {
		if cl, ok := o.V.(*ssa.Call); ok {
			if sc := staticCallee(cl.Common()); sc != nil && FuncPkgPath(sc) == "context" && (sc.Name() == "WithTimeout" || sc.Name() == "WithDeadline") {
				return true, "idiom (j): Shutdown bounded by a deadline context (" + sc.Name() + ")"
			}
		}
	}
	if ok, why := j.OK(r, args[1]); ok {
		return true, "idiom (j): Shutdown bounded by the worker's context, which is already cancelled when the shutdown starts (" + why + ")"
	} else {
		return false, "Shutdown waits for active connections with a context that is neither the worker's nor a deadline (" + why + "): one stalled client keeps the daemon alive after a failure or a termination signal"
	}
}

// idiom (i): a library retry loop whose back-off policy is tied to the
// worker's context (backoff.WithContext) or to a constant attempt limit
// (backoff.WithMaxRetries).
func idiomBoundedRetry(j *CtxJudge, r *Resolver, ci ssa.CallInstruction) (bool, string) {
	for _, a := range ci.Common().Args {
		o := r.Of(a)
		if o.K != "call" {
			continue
		}
		cl, ok := o.V.(*ssa.Call)
		if !ok {
			continue
		}
		sc := staticCallee(cl.Common())
		if sc == nil || FuncPkgPath(sc) != "github.com/cenkalti/backoff/v4" {
			continue
		}
		switch sc.Name() {
		case "WithContext":
			if len(cl.Call.Args) == 2 {
				if ok, why := j.OK(r, cl.Call.Args[1]); ok {
					return true, "idiom (i): retry policy bound to the worker context (" + why + ")"
				} else {
					return false, "retry policy bound to a context that is not the worker's: " + why
				}
			}
		case "WithMaxRetries":
			if len(cl.Call.Args) == 2 {
				if _, isK := cl.Call.Args[1].(*ssa.Const); isK {
					return true, "idiom (i): retry policy with a constant attempt limit"
				}
			}
		}
	}
	return false, "retry loop whose back-off policy is tied neither to the worker's context nor to an attempt limit: while the retried operation keeps failing the worker does not observe cancellation"
}

// idiom (a)
func idiomSelect(j *CtxJudge, r *Resolver, sel *ssa.Select) (bool, string) {
	for k, st := range sel.States {
		if st.Dir != types.RecvOnly {
			continue
		}
		x := doneRecvOf(st.Chan)
		if x == nil {
			continue
		}
		ok, why := j.OK(r, x)
		if !ok {
			return false, "select has a Done() case but on a context that is not the worker's: " + why
		}
		cb := selectCaseBlock(sel, k)
		if cb == nil {
			return false, "cannot locate the block of the Done() case"
		}
		if reachesFromBlock(cb, sel) {
			return false, "the Done() case of this select can loop back to the select: after cancellation the worker spins or blocks again instead of returning"
		}
		return true, fmt.Sprintf("idiom (a): select state %d receives from Done() of the worker context (%s); that case cannot return to the select", k, why)
	}
	return false, "blocking select without a case on the worker context's Done(): once the other side stops, cancellation cannot end this wait"
}

// idiom (b)
// spawnInfo: how the function holding a blocking site is started, and what a
// channel value of that function is in the function that started it.
type spawnInfo struct {
	spawner *ssa.Function
	goIn    *ssa.Go
}

// spawnsOf: the go statements that start fn: for a closure, in its parent;
// for a named function, its static callers (all of which must be go
// statements). nil when fn is (also) called inline.
func spawnsOf(p *Prog, fn *ssa.Function) []spawnInfo {
	var out []spawnInfo
	if par := fn.Parent(); par != nil {
		allInstrs(par, func(in ssa.Instruction) {
			if g, ok := in.(*ssa.Go); ok {
				if mc, ok := g.Call.Value.(*ssa.MakeClosure); ok && mc.Fn == fn {
					out = append(out, spawnInfo{par, g})
				}
			}
		})
		return out
	}
	for _, ci := range staticCallers(p, fn) {
		g, isGo := ci.(*ssa.Go)
		if !isGo {
			return nil
		}
		out = append(out, spawnInfo{g.Parent(), g})
	}
	return out
}

// chanInSpawner: the channel value ch of fn as a value of the spawner (a
// captured variable's cell, or the argument of the go statement), with the
// make(chan) it denotes when that is unique.
func chanInSpawner(p *Prog, r *Resolver, fn *ssa.Function, sp spawnInfo, ch ssa.Value) (cell *ssa.Alloc, val ssa.Value, mk *ssa.MakeChan) {
	if c := cellOf(r, ch); c != nil {
		cell = c
		stores := r.cellStores(c)
		if len(stores) == 1 {
			mk, _ = stores[0].Val.(*ssa.MakeChan)
		}
		return
	}
	if m, ok := strip(ch).(*ssa.MakeChan); ok {
		return nil, m, m
	}
	if prm, ok := strip(ch).(*ssa.Parameter); ok && prm.Parent() == fn {
		for i, q := range fn.Params {
			if q == prm && i < len(sp.goIn.Call.Args) {
				a := sp.goIn.Call.Args[i]
				sr := NewResolver(p)
				if c := cellOf(sr, a); c != nil {
					cell = c
					stores := sr.cellStores(c)
					if len(stores) == 1 {
						mk, _ = stores[0].Val.(*ssa.MakeChan)
					}
					return cell, a, mk
				}
				val = strip(a)
				if ct, isCT := val.(*ssa.ChangeType); isCT {
					val = ct.X
				}
				mk, _ = val.(*ssa.MakeChan)
				return nil, val, mk
			}
		}
	}
	return
}

func idiomBufferedSend(r *Resolver, snd *ssa.Send, cone *Cone) (bool, string) {
	p := r.P
	fn := snd.Parent()
	sps := spawnsOf(p, fn)
	var mk *ssa.MakeChan
	cell := cellOf(r, snd.Chan)
	if cell != nil {
		stores := r.cellStores(cell)
		if len(stores) == 1 {
			mk, _ = stores[0].Val.(*ssa.MakeChan)
		}
	} else if m, ok := snd.Chan.(*ssa.MakeChan); ok {
		mk = m
	} else if len(sps) == 1 {
		_, _, mk = chanInSpawner(p, r, fn, sps[0], snd.Chan)
	}
	if mk == nil {
		return false, "bare channel send with no cancellation alternative on a channel not created locally: if the receiver has stopped and the buffer is full the worker blocks here for ever"
	}
	capc, ok := mk.Size.(*ssa.Const)
	if !ok || capc.Value == nil || capc.Value.Kind() != constant.Int {
		return false, "bare send on a channel of non-constant capacity"
	}
	capN, _ := constant.Int64Val(capc.Value)
	// count sends on this channel in the sending function; none in a loop
	sends := 0
	loop := false
	allInstrs(fn, func(in ssa.Instruction) {
		if s2, ok := in.(*ssa.Send); ok {
			if c2 := cellOf(r, s2.Chan); (c2 != nil && c2 == cell) || s2.Chan == ssa.Value(mk) || (cell == nil && strip(s2.Chan) == strip(snd.Chan)) {
				sends++
				if inLoop(in) {
					loop = true
				}
			}
		}
	})
	if loop || int64(sends) > capN {
		return false, fmt.Sprintf("bare send: %d send(s) (in loop: %v) into a channel of capacity %d", sends, loop, capN)
	}
	// the sending function must be a goroutine spawned once (Go not in a loop)
	if fn.Parent() != nil || mk.Parent() != fn {
		if mk.Parent() != fn && len(sps) != 1 {
			return false, "bare send on a channel created elsewhere by a function that is not started exactly once as a goroutine"
		}
		for _, sp := range sps {
			if inLoop(sp.goIn) {
				return false, "bare send from a goroutine spawned in a loop: capacity may be exceeded"
			}
		}
		// other senders on the same channel in the spawner would compete for the buffer
		if mk.Parent() != fn {
			others := 0
			allInstrs(mk.Parent(), func(in ssa.Instruction) {
				if s2, ok := in.(*ssa.Send); ok && strip(s2.Chan) == ssa.Value(mk) {
					others++
				}
			})
			if int64(sends+others) > capN {
				return false, fmt.Sprintf("%d send(s) in the goroutine plus %d in its spawner into a channel of capacity %d", sends, others, capN)
			}
		}
	}
	return true, fmt.Sprintf("idiom (b): %d send(s), none in a loop, into a channel of capacity %d created once for this goroutine: the send never blocks", sends, capN)
}

// idiom (e)
func idiomAwaitedOpen(j *CtxJudge, r *Resolver, s BSite, cone *Cone) (bool, string) {
	p := r.P
	fn := s.Fn
	sps := spawnsOf(p, fn)
	if len(sps) == 0 {
		if fn.Parent() == nil {
			return false, "blocking open executed inline: a FIFO without writer blocks the worker with no way to cancel"
		}
		return false, "blocking open in a closure that is not started as a goroutine"
	}
	// the goroutine signals completion by closing / sending on a channel
	var sigCh ssa.Value
	allInstrs(fn, func(in ssa.Instruction) {
		switch x := in.(type) {
		case *ssa.Call:
			if b, ok := x.Call.Value.(*ssa.Builtin); ok && b.Name() == "close" && len(x.Call.Args) == 1 {
				sigCh = x.Call.Args[0]
			}
		case *ssa.Send:
			sigCh = x.Chan
		}
	})
	if sigCh == nil {
		return false, "goroutine performing the blocking open never signals completion"
	}
	why := ""
	var okSel *ssa.Select
	for _, sp := range sps {
		cell, val, _ := chanInSpawner(p, r, fn, sp, sigCh)
		if cell == nil && val == nil {
			return false, "goroutine performing the blocking open never signals completion on a channel its starter can await"
		}
		// the starter awaits it in an idiom-(a) select after the go statement
		pr := NewResolver(p)
		okSel = nil
		allInstrs(sp.spawner, func(in ssa.Instruction) {
			sel, ok := in.(*ssa.Select)
			if !ok || !sel.Blocking {
				return
			}
			hasSig := false
			for _, st := range sel.States {
				if st.Dir != types.RecvOnly {
					continue
				}
				if cell != nil && cellOf(pr, st.Chan) == cell {
					hasSig = true
				}
				sv := strip(st.Chan)
				if ct, isCT := sv.(*ssa.ChangeType); isCT {
					sv = ct.X
				}
				if cell == nil && val != nil && sv == val {
					hasSig = true
				}
			}
			if !hasSig {
				return
			}
			if ok, w := idiomSelect(j, pr, sel); ok && dominatesInstr(sp.goIn, sel) {
				okSel = sel
				why = w
			}
		})
		if okSel == nil {
			return false, "no cancellable select in the starter awaits the completion of the goroutine performing the blocking open"
		}
	}
	return true, "idiom (e): open runs in a spawned goroutine that signals on a channel; its starter awaits it at " + r.P.InstrPos(okSel) + " with " + why
}

// closedOnCancelAt: in function fn (resolver r) the reader value rd is
// bufio.NewReader(file), and a goroutine started in fn before instruction at
// closes that file when the worker context is cancelled.
func closedOnCancelAt(j *CtxJudge, r *Resolver, p *Prog, fn *ssa.Function, rd ssa.Value, at ssa.Instruction) (bool, string) {
	// reader = bufio.NewReader(X) where X is a file variable
	ro := r.Of(rd)
	var fileArg ssa.Value
	var mk *ssa.Call
	for _, a := range ro.Alts() {
		if a.K == "call" && (a.Name == "bufio.NewReader" || a.Name == "bufio.NewReaderSize") {
			mk = a.V.(*ssa.Call)
			fileArg = mk.Call.Args[0]
		}
	}
	if fileArg == nil {
		return false, "blocking read on a reader of unknown origin"
	}
	// the point that the closing goroutine must precede: the read (or the
	// call leading to it) when the reader is made in fn, else the creation
	if mk.Parent() != fn {
		fn, at = mk.Parent(), mk
	}
	// the reader keeps reading that file: it is not re-pointed (Reset) at
	// another one, which the closing goroutine would not know about
	fcell := cellOf(NewResolver(p), fileArg)
	for _, f2 := range p.AllRepoFuncs() {
		if FuncPkgPath(f2) != FuncPkgPath(mk.Parent()) {
			continue
		}
		bad := ""
		allInstrs(f2, func(in ssa.Instruction) {
			cl, ok := in.(*ssa.Call)
			if !ok {
				return
			}
			sc := staticCallee(cl.Common())
			if sc == nil || sc.String() != "(*bufio.Reader).Reset" || len(cl.Call.Args) != 2 {
				return
			}
			ro2 := NewResolver(p).Of(cl.Call.Args[0])
			same := false
			for _, a := range ro2.Alts() {
				if a.K == "call" && a.V == ssa.Value(mk) {
					same = true
				}
			}
			if !same {
				return
			}
			if c2 := cellOf(NewResolver(p), cl.Call.Args[1]); c2 == nil || c2 != fcell {
				bad = p.InstrPos(in)
			}
		})
		if bad != "" {
			return false, "the reader is re-pointed (Reset at " + bad + ") at another file than the one the cancellation goroutine closes: after that, cancellation no longer interrupts a pending read on an idle pipe"
		}
	}
	return fileClosedOnCancel(j, p, fn, fileArg, at, 0)
}

// fileClosedOnCancel: a goroutine started in fn before instruction at closes
// the file (a local variable of fn) when the worker context is cancelled.
// When the file is a parameter of fn the question is asked at every static
// call site of fn.
func fileClosedOnCancel(j *CtxJudge, p *Prog, fn *ssa.Function, fileArg ssa.Value, at ssa.Instruction, depth int) (bool, string) {
	r := NewResolver(p)
	if prm, isPrm := strip(fileArg).(*ssa.Parameter); isPrm && prm.Parent() == fn && depth < 3 {
		idx := -1
		for i, q := range fn.Params {
			if q == prm {
				idx = i
			}
		}
		n := 0
		for _, caller := range p.AllRepoFuncs() {
			if !p.InDaemon(caller) {
				continue
			}
			for _, ci := range callsIn(caller) {
				if staticCallee(ci.Common()) != fn || idx < 0 || idx >= len(ci.Common().Args) {
					continue
				}
				n++
				if ok, why := fileClosedOnCancel(j, p, caller, ci.Common().Args[idx], ci, depth+1); !ok {
					return false, why
				}
			}
		}
		if n == 0 {
			return false, "blocking read on a file parameter of a function with no static caller"
		}
		return true, ""
	}
	fileCell := cellOf(r, fileArg)
	fileOrg := r.Of(fileArg)
	sameFile := func(cr *Resolver, v ssa.Value) bool {
		if fileCell != nil && cellOf(cr, v) == fileCell {
			return true
		}
		o := cr.Of(v)
		return fileCell == nil && len(o.Alts()) == 1 && len(fileOrg.Alts()) == 1 && sameValue(o, fileOrg)
	}
	// closesOnDone: function body cf (interpreted with resolver cr) waits
	// for Done() of the worker context and then closes the file
	closesOnDone := func(cf *ssa.Function, cr *Resolver) bool {
		var doneRecv, closeCall ssa.Instruction
		allInstrs(cf, func(ci ssa.Instruction) {
			switch x := ci.(type) {
			case *ssa.UnOp:
				if x.Op == token.ARROW {
					if cx := doneRecvOf(x.X); cx != nil {
						if ok, _ := j.OK(cr, cx); ok {
							doneRecv = ci
						}
					}
				}
			case *ssa.Call:
				if sc := staticCallee(x.Common()); sc != nil && sc.String() == "(*os.File).Close" {
					if sameFile(cr, x.Call.Args[0]) {
						closeCall = ci
					}
				}
			}
		})
		if doneRecv == nil || closeCall == nil || !dominatesInstr(doneRecv, closeCall) {
			return false
		}
		// ... on every path: a close that is only the fall-back of another
		// attempt (a deadline, a flag) is not reached when that attempt
		// reports success
		if skip := searchAvoiding(cf, doneRecv, isReturn, func(in ssa.Instruction) bool { return in == closeCall }); skip != nil {
			return false
		}
		return true
	}
	// a goroutine that does so, started in this function (go func(){...}(),
	// go closer(ctx, file)) or in a repository helper called from it with
	// the file (closeWhenDone(ctx, file))
	var closer *ssa.Function
	var goIn ssa.Instruction
	var scan func(in *ssa.Function, cr *Resolver, lift ssa.Instruction, depth int)
	scan = func(in *ssa.Function, cr *Resolver, lift ssa.Instruction, depth int) {
		allInstrs(in, func(ins ssa.Instruction) {
			at0 := lift
			if at0 == nil {
				at0 = ins
			}
			switch g := ins.(type) {
			case *ssa.Go:
				if mc, ok := g.Call.Value.(*ssa.MakeClosure); ok {
					cf := mc.Fn.(*ssa.Function)
					ccr := NewResolver(p)
					for k, v := range cr.Env {
						ccr.Env[k] = v
					}
					if closesOnDone(cf, ccr) {
						closer, goIn = cf, at0
					}
				} else if sc := staticCallee(&g.Call); sc != nil && InRepo(sc) && sc.Blocks != nil {
					if closesOnDone(sc, cr.Bind(sc, g)) {
						closer, goIn = sc, at0
					}
				}
			case *ssa.Call:
				sc := staticCallee(g.Common())
				if sc == nil || !InRepo(sc) || sc.Blocks == nil || depth >= 2 {
					return
				}
				passes := false
				for _, a := range g.Call.Args {
					if sameFile(cr, a) {
						passes = true
					}
				}
				if passes {
					scan(sc, cr.Bind(sc, g), at0, depth+1)
				}
			}
		})
	}
	scan(fn, r, nil, 0)
	if closer == nil {
		return false, "blocking read on a file that no goroutine closes when the worker context is cancelled: an idle pipe keeps the worker blocked after cancellation"
	}
	if !dominatesInstr(goIn, at) {
		return false, "the goroutine that closes the file on cancellation is not started on every path before the read"
	}
	// the descriptor must stay in the runtime poller: (*os.File).Fd() puts
	// it into blocking mode, after which Close no longer interrupts a Read
	if fileCell != nil {
		if at := fdCalledOnCell(p, fileCell); at != "" {
			return false, "(*os.File).Fd is called on the file being read (" + at + "): Fd() switches the descriptor to blocking mode, so closing it on cancellation no longer wakes the pending read on an idle pipe"
		}
	}
	return true, ""
}

// idiom (f)
func idiomClosedOnCancel(j *CtxJudge, r *Resolver, s BSite, p *Prog) (bool, string) {
	fn := s.Fn
	call := s.In.(*ssa.Call)
	rd := call.Call.Args[0]
	// the reader may be a parameter of a helper holding the read loop: the
	// file, the closing goroutine and the dominance are then decided at
	// every static call site of the helper
	type rdctx struct {
		fn *ssa.Function
		r  *Resolver
		at ssa.Instruction
	}
	ctxs := []rdctx{{fn, r, call}}
	for depth := 0; depth < 3; depth++ {
		var next []rdctx
		expanded := false
		for _, cx := range ctxs {
			o := cx.r.Of(rd)
			isParam := false
			for _, a := range o.Alts() {
				if a.K == "param" {
					if prm, ok := a.V.(*ssa.Parameter); ok && prm.Parent() == cx.fn {
						isParam = true
					}
				}
			}
			if !isParam {
				next = append(next, cx)
				continue
			}
			n := 0
			for _, caller := range p.AllRepoFuncs() {
				if !p.InDaemon(caller) {
					continue
				}
				for _, ci := range callsIn(caller) {
					if staticCallee(ci.Common()) == cx.fn {
						n++
						next = append(next, rdctx{caller, cx.r.Bind(cx.fn, ci), ci})
						expanded = true
					}
				}
			}
			if n == 0 {
				return false, "blocking read on a reader parameter of a function with no static caller"
			}
		}
		ctxs = next
		if !expanded {
			break
		}
	}
	for _, cx := range ctxs {
		if ok, why := closedOnCancelAt(j, cx.r, p, cx.fn, rd, cx.at); !ok {
			return false, why
		}
	}
	// the read error must end the loop
	var errEx *ssa.Extract
	if refs := call.Referrers(); refs != nil {
		for _, u := range *refs {
			if ex, ok := u.(*ssa.Extract); ok && ex.Index == 1 {
				errEx = ex
			}
		}
	}
	if errEx == nil {
		return false, "the read error is discarded: after the file is closed on cancellation the loop never ends"
	}
	ended := false
	// every test of the read error (also through the variable it is stored
	// in): some path from a non-nil edge returns without reading again
	efl := &errFlow{p: p, seen: map[ssa.Value]bool{}}
	efl.follow(errEx, 0)
	for _, iff := range efl.Tested {
		b, ok := iff.Cond.(*ssa.BinOp)
		if !ok || !(isNilConst(b.Y) || isNilConst(b.X)) || iff.Block().Parent() != fn {
			continue
		}
		var first *ssa.BasicBlock
		switch b.Op {
		case token.NEQ:
			first = iff.Block().Succs[0]
		case token.EQL:
			first = iff.Block().Succs[1]
		default:
			continue
		}
		if len(first.Instrs) > 0 {
			start := first.Instrs[0]
			if isReturn(start) || searchAvoiding(fn, start, isReturn, func(in ssa.Instruction) bool { return in == call }) != nil {
				ended = true
			}
		}
	}
	if !ended {
		return false, "no read error ends the read loop: after the file is closed on cancellation the worker keeps looping"
	}
	return true, "idiom (f): a goroutine started before the read waits for Done() of the worker context and closes the file being read; a read error leaves the loop"
}

// lockHoldersDoNotBlock re-establishes, for idiom (h), that no critical
// section of the tracker or of the locked-map methods blocks.
func lockHoldersDoNotBlock(c *Check) {
	p := c.P
	_, eps := trackerEntryPoints(c)
	w := NewLockWalker(p)
	for _, ep := range eps {
		w.RunEntry(ep, ep.Name())
	}
	// health entry points
	if hp := p.RepoPkg("internal/health"); hp != nil {
		if ht := hp.Type("Health"); ht != nil {
			ms := p.SSA.MethodSets.MethodSet(types.NewPointer(ht.Type()))
			for i := 0; i < ms.Len(); i++ {
				if f := p.SSA.MethodValue(ms.At(i)); f != nil && f.Blocks != nil {
					w.RunEntry(f, "Health."+f.Name())
				}
			}
		}
	}
	bad := 0
	acq := 0
	for _, e := range w.Events {
		if e.Kind == "acquire" {
			acq++
		}
		if e.Kind == "reacquire" {
			bad++
			c.Bad("lock-holders-do-not-block", fmt.Sprintf("%s: %s acquired again in %s", e.EP, e.What, e.Fn), e.Pos, "a non-reentrant mutex is acquired while the same activation already holds it: the worker deadlocks on itself and never observes cancellation; stack "+strings.Join(e.Stack, " > "))
		}
		if e.Kind == "undecided" {
			bad++
			c.Unk("lock-holders-do-not-block", fmt.Sprintf("%s: %s in %s", e.EP, e.What, e.Fn), e.Pos, "unrecognised locking idiom")
		}
		if e.Kind == "block" && len(e.Held) > 0 {
			bad++
			c.Bad("lock-holders-do-not-block", fmt.Sprintf("%s: %s in %s", e.EP, e.What, e.Fn), e.Pos, "blocking operation while holding "+strings.Join(e.Held, ",")+": a worker waiting for this mutex cannot be cancelled")
		}
	}
	// lock order: two activations that take two locks in opposite order
	// block each other for ever (the processor's loop never gets back to
	// its select and never observes cancellation)
	edges := map[string]map[string]string{}
	for _, e := range w.Events {
		if e.Kind != "acquire" {
			continue
		}
		for _, h := range e.Held {
			if h == e.What {
				continue
			}
			if edges[h] == nil {
				edges[h] = map[string]string{}
			}
			if _, ok := edges[h][e.What]; !ok {
				edges[h][e.What] = e.Pos + " (" + e.EP + ")"
			}
		}
	}
	for a, m := range edges {
		for b2, pos := range m {
			if back, ok := edges[b2][a]; ok && a < b2 {
				bad++
				c.Bad("lock-holders-do-not-block", "lock order "+a+" <-> "+b2, pos, "the two locks are taken in opposite order by different deliveries ("+a+" then "+b2+" at "+pos+"; "+b2+" then "+a+" at "+back+"): they can deadlock, after which the worker is never cancelled")
			}
		}
	}
	if bad == 0 {
		c.OK("lock-holders-do-not-block", "tracker and health critical sections", "-", fmt.Sprintf("%d lock acquisitions walked, no blocking operation under any lock, lock order acyclic", acq))
	}
}

// fdCalledOnCell: does any use of the file variable (also through
// repository helpers it is passed to) call (*os.File).Fd?
func fdCalledOnCell(p *Prog, cell *ssa.Alloc) string {
	var vals []ssa.Value
	r := NewResolver(p)
	// loads of the cell in its function and in closures capturing it
	var fns []*ssa.Function
	fns = append(fns, cell.Parent())
	fns = append(fns, cell.Parent().AnonFuncs...)
	for _, fn := range fns {
		allInstrs(fn, func(in ssa.Instruction) {
			if u, ok := in.(*ssa.UnOp); ok && cellOf(r, u) == cell {
				vals = append(vals, u)
			}
		})
	}
	seen := map[ssa.Value]bool{}
	found := ""
	var follow func(v ssa.Value, depth int)
	follow = func(v ssa.Value, depth int) {
		if seen[v] || depth > 4 || found != "" {
			return
		}
		seen[v] = true
		refs := v.Referrers()
		if refs == nil {
			return
		}
		for _, u := range *refs {
			switch t := u.(type) {
			case ssa.CallInstruction:
				cc := t.Common()
				sc := staticCallee(cc)
				if sc == nil {
					continue
				}
				if sc.String() == "(*os.File).Fd" || sc.String() == "(*os.File).SyscallConn" {
					found = p.InstrPos(t)
					return
				}
				if InRepo(sc) && sc.Blocks != nil {
					for i, a := range cc.Args {
						if a == v && i < len(sc.Params) {
							follow(sc.Params[i], depth+1)
						}
					}
				}
			case *ssa.MakeInterface, *ssa.ChangeType, *ssa.Phi:
				follow(u.(ssa.Value), depth)
			}
		}
	}
	for _, v := range vals {
		follow(v, 0)
	}
	return found
}
