package main

import (
	"fmt"
	"go/constant"
	"go/token"
	"go/types"
	"sort"
	"strings"

	"golang.org/x/tools/go/ssa"
)

func init() { register("C07", "other", checkC07) }

func checkC07(c *Check) {
	p := c.P
	c.Explanation = "Trailing-delimiter taint: the string the pipe ingester hands to its callback is the result of bufio.Reader.ReadString(delim), which keeps the delimiter. The taint 'may end with the delimiter' is propagated forward through call edges (including the callback and interface dispatch), strings functions that keep the tail, struct fields, variable cells and the string channel to the audit processor; it must be removed by a sanitiser (TrimSuffix/TrimRight/Trim with the delimiter, TrimSpace, x[:len(x)-1], or the space-trimming auparse.ParseLogLine) before it reaches an intolerant sink: a pattern whose `$` cannot absorb the delimiter, an equality/length comparison of the record text, a numeric conversion, or an event field. Second rule: the message handed to the sshd processor derives from the record only through operations that keep internal spacing. Necessary and, given the sink table, sufficient for the framing clause."
	c.Rule("no-delimiter-at-intolerant-sink (sources: ReadString/ReadBytes results in ingesters/namedpipe; floor: >=1 source, >=2 sanitisers met: one per pipeline)")
	c.Rule("framing-primitive: records are read with the accumulating ReadString/ReadBytes (ReadSlice/ReadLine/Scanner are bounded by the buffer size)")
	c.Rule("audit-record-handed-on: the audit pipeline's callback sends the record it was given into the audit-line channel; the only alternative is cancellation (Done()), and it cannot return without having passed the hand-over")
	c.Rule("spacing-preserved: SshdLogEntry.Message <- record via {TrimSuffix/TrimLeft/TrimPrefix/TrimRight, Split/SplitN/Cut + Join on one separator constant, slicing}; PID <- element 0 of the same split")
	c.Trust("bufio.Reader.ReadString returns the data up to and including the delimiter", "auparse.ParseLogLine -> Parse trims surrounding white space (go-libaudit auparse.go)", "regexp: $ without (?m) is end-of-text; . and \\S exclude newline")
	// delimiter constants passed to the ingester
	ing := p.Method("ingesters/namedpipe", "NamedPipeIngester", "Ingest")
	if !c.Anchor("(*namedpipe.NamedPipeIngester).Ingest", ing != nil) {
		return
	}
	delims := map[rune]bool{}
	ncall := 0
	for _, fn := range p.AllRepoFuncs() {
		if !p.InDaemon(fn) {
			continue
		}
		for _, ci := range callsIn(fn) {
			if staticCallee(ci.Common()) != ing && !(ci.Common().IsInvoke() && ing.Object() != nil && isCalleeObj(ci.Common(), ing.Object())) {
				continue // (also reached through an interface the ingester implements)
			}
			ncall++
			for _, a := range ci.Common().Args {
				if k, ok := a.(*ssa.Const); ok && k.Value != nil && k.Value.Kind() == constant.Int && typeName(k.Type()) == "byte" {
					delims[rune(k.Int64())] = true
				}
			}
		}
	}
	c.Floor("calls of the pipe ingester with a constant delimiter", 2, ncall)
	if len(delims) != 1 {
		c.Unk("delimiter", "delimiter constants passed to Ingest", p.Pos(ing.Pos()), fmt.Sprintf("expected one delimiter constant, found %v", delims))
		return
	}
	var delim rune
	for d := range delims {
		delim = d
	}
	t := NewTaint(p, delim)
	nsrc := 0
	for _, fn := range p.AllRepoFuncs() {
		if FuncPkgPath(fn) != ModPath+"/ingesters/namedpipe" {
			continue
		}
		allInstrs(fn, func(in ssa.Instruction) {
			call, ok := in.(*ssa.Call)
			if !ok {
				return
			}
			sc := staticCallee(call.Common())
			if sc == nil {
				return
			}
			switch sc.String() {
			case "(*bufio.Reader).ReadSlice", "(*bufio.Reader).ReadLine", "(*bufio.Scanner).Scan":
				c.Bad("framing-primitive", "records read with "+sc.String()+" in "+fn.Name(), p.InstrPos(call), "this primitive returns at most one internal buffer: a record longer than the buffer is delivered in pieces, so the delimiter is no longer the only thing that frames records (the pieces parse differently from the record handed over directly)")
			}
			switch sc.String() {
			case "(*bufio.Reader).ReadString", "(*bufio.Reader).ReadBytes", "(*bufio.Reader).ReadSlice":
				if rr := call.Referrers(); rr != nil {
					for _, u := range *rr {
						if ex, ok := u.(*ssa.Extract); ok && ex.Index == 0 {
							nsrc++
							t.mark(ex, nil, sc.Name()+" result @"+p.InstrPos(call))
						}
					}
				}
			}
		})
	}
	c.Floor("framing reads (taint sources) in ingesters/namedpipe", 1, nsrc)
	t.Run()
	for f := range t.Fns {
		c.Fn(funcDisplayName(f))
	}
	sort.SliceStable(t.Hits, func(i, j int) bool {
		ki, kj := t.Hits[i].Kind, t.Hits[j].Kind
		if (ki == "regex") != (kj == "regex") {
			return ki == "regex"
		}
		return t.Hits[i].At.Pos() < t.Hits[j].At.Pos()
	})
	for _, h := range t.Hits {
		if !p.InDaemon(h.At.Parent()) {
			continue
		}
		o := Obl{Rule: "no-delimiter-at-intolerant-sink", Construct: fmt.Sprintf("%s sink in %s: %s", h.Kind, h.At.Parent().Name(), sinkKey(h)), Pos: p.InstrPos(h.At), Verdict: Violated,
			Fact:  h.Desc + " — a record delivered through the pipe is processed differently from the same record handed over directly",
			Entry: strings.Join(h.Path, " -> ")}
		c.Obls = append(c.Obls, o)
	}
	seenS := map[string]bool{}
	for _, s := range t.Sanit {
		if !seenS[s] {
			seenS[s] = true
			c.OK("no-delimiter-at-intolerant-sink", "sanitiser "+strings.SplitN(s, " at ", 2)[0]+" in the path of the record", strings.SplitN(s+" at -", " at ", 3)[1], "delimiter removed (or tolerated) before any sink")
		}
	}
	nreal := 0
	for s := range seenS {
		if !strings.HasPrefix(s, "element 0") {
			nreal++
		}
	}
	c.Floor("sanitisers met by the taint", 1, nreal)
	c.OK("no-delimiter-at-intolerant-sink", "taint closure", "-", fmt.Sprintf("%d tainted values in %d functions, %d tainted fields, string channel tainted: %v; %d sink hit(s)", len(t.why), len(t.Fns), len(t.fields), t.chanStr != nil, len(t.Hits)))
	c.Extra["tainted_functions"] = len(t.Fns)

	// Rule 2: spacing preserved
	spacingRule(c)
	// Rule 2b: the audit pipeline's callback hands every record on
	auditRecordHandedOn(c)
	// Rule 2c: a login parsed from a record that came through the pipe is
	// forwarded like one parsed from a record handed over directly: the
	// hand-over gives up only when the worker is shut down (rules of C05)
	nfw := importRules(c, "C05", checkC05, "forwarded-as-direct: ", "handoff-only-cancellation-gives-up", "handoff-always-after-write")
	c.Floor("imported forwarded-as-direct obligations", 6, nfw)
	// Rule 3: the record reaching the callback is the record as written
	// (framing loop of the pipe ingester; rules of C12)
	nr := importRules(c, "C12", checkC12, "record-as-written: ", "once-verbatim-in-order", "framing-primitive", "reader-outlives-loop")
	c.Floor("imported record-as-written obligations", 5, nr)
}

func sinkKey(h TaintHit) string {
	if ci, ok := h.At.(ssa.CallInstruction); ok {
		cc := ci.Common()
		if len(cc.Args) > 0 {
			if g := regexGlobalOf(cc.Args[0]); g != "" {
				return calleeName(cc) + " on " + g
			}
		}
		return calleeName(cc)
	}
	return h.At.String()
}

// spacingRule inspects how the syslog ingester derives (PID, Message).
func spacingRule(c *Check) {
	p := c.P
	// the function that builds sshd.SshdLogEntry values in ingesters/syslog
	var sites []*ssa.Store
	for _, fn := range p.AllRepoFuncs() {
		if FuncPkgPath(fn) != ModPath+"/ingesters/syslog" {
			continue
		}
		allInstrs(fn, func(in ssa.Instruction) {
			st, ok := in.(*ssa.Store)
			if !ok {
				return
			}
			fa, ok := st.Addr.(*ssa.FieldAddr)
			if !ok {
				return
			}
			if n := namedOf(fa.X.Type()); n != nil && n.Obj().Name() == "SshdLogEntry" {
				sites = append(sites, st)
			}
		})
	}
	c.Floor("stores building SshdLogEntry in ingesters/syslog", 2, len(sites))
	// nothing else in the daemon rewrites the entry on its way to the
	// processor (a decorator, a tracing wrapper, the wiring): the fields of
	// an SshdLogEntry are written only where the ingester parses the record
	for _, fn := range p.AllRepoFuncs() {
		if FuncPkgPath(fn) == ModPath+"/ingesters/syslog" || !p.InDaemon(fn) {
			continue
		}
		allInstrs(fn, func(in ssa.Instruction) {
			st, ok := in.(*ssa.Store)
			if !ok {
				return
			}
			fa, ok := st.Addr.(*ssa.FieldAddr)
			if !ok {
				return
			}
			if n := namedOf(fa.X.Type()); n != nil && n.Obj().Name() == "SshdLogEntry" && n.Obj().Pkg() != nil && strings.HasSuffix(n.Obj().Pkg().Path(), "/processors/sshd") {
				c.Bad("spacing-preserved", "SshdLogEntry."+fieldName(fa.X.Type(), fa.Field)+" rewritten in "+fn.Name(), p.InstrPos(st), "the parsed entry is modified on its way from the ingester to the sshd processor ("+trimOrg(NewResolver(p).Of(st.Val).String())+"): the message processed is no longer the message in the record (cut, masked or normalised), so fields extracted from it differ from the record's")
			}
		})
	}
	// the parse function gives up (returns an entry without PID and message)
	// only for a record that has no message part at all: the decision looks
	// at the number of fields and nothing else. A validity test on the PID
	// text or on the message drops records that the processor, handed the
	// same record directly, would have processed
	parseFns := map[*ssa.Function]bool{}
	for _, st := range sites {
		parseFns[st.Parent()] = true
	}
	for pf := range parseFns {
		pr := NewResolver(p)
		handled := func(in ssa.Instruction) bool {
			st, ok := in.(*ssa.Store)
			if !ok {
				return false
			}
			fa, ok := st.Addr.(*ssa.FieldAddr)
			if !ok {
				return false
			}
			n := namedOf(fa.X.Type())
			return n != nil && n.Obj().Name() == "SshdLogEntry"
		}
		ds, _ := dropDeciders(pf, handled, nil)
		leafOK := func(o *Org) bool {
			if o.K == "param" {
				return true // the whole record compared with a constant (an emptiness test)
			}
			if o.K != "call" {
				return false
			}
			switch o.Name {
			case "len", "strings.Contains", "strings.Index", "strings.IndexByte", "strings.IndexRune", "strings.Count":
				return true // tests of the record's shape: is there a separator, how many fields
			case "strings.Cut":
				return o.Idx == 2 // the "found" result
			}
			return false
		}
		okP := true
		for _, d := range ds {
			if ok, w := condOnly(pr, d.If.Cond, leafOK, 0); !ok {
				okP = false
				c.Bad("spacing-preserved", "records given up by "+pf.Name(), p.InstrPos(d.If), "the parse function can return an empty entry depending on "+w+" (not only on the shape of the record: the number of fields, the presence of the separator): such a record produces nothing through the pipe although the processor handed the same PID and message directly would process it")
			}
		}
		if okP {
			c.OK("spacing-preserved", "records given up by "+pf.Name(), p.Pos(pf.Pos()), fmt.Sprintf("%d deciding branch(es), each a test of the number of fields", len(ds)))
		}
	}
	seps := map[string]bool{}
	for _, st := range sites {
		fa := st.Addr.(*ssa.FieldAddr)
		field := fieldName(fa.X.Type(), fa.Field)
		fn := st.Parent()
		c.Fn(funcDisplayName(fn))
		r := NewResolver(p)
		ok, why := spacingChain(r, st.Val, field == "PID", seps, 0)
		name := "SshdLogEntry." + field + " in " + fn.Name()
		if ok {
			c.OK("spacing-preserved", name, p.InstrPos(st), why)
		} else {
			c.Bad("spacing-preserved", name, p.InstrPos(st), why)
		}
	}
	if len(seps) > 1 {
		var l []string
		for s := range seps {
			l = append(l, fmt.Sprintf("%q", s))
		}
		c.Bad("spacing-preserved", "separator constants used to split and re-join the record", "-", "the record is split and joined on different separators ("+strings.Join(l, ",")+"): internal spacing of the message changes")
	}
}

// spacingChain walks the derivation of a string back to the record.
func spacingChain(r *Resolver, v ssa.Value, wantFirst bool, seps map[string]bool, depth int) (bool, string) {
	if depth > 12 {
		return false, "derivation too deep"
	}
	v = strip(v)
	switch x := v.(type) {
	case *ssa.Parameter:
		return true, "derives from parameter " + x.Name()
	case *ssa.Phi:
		for _, e := range x.Edges {
			if ok, why := spacingChain(r, e, wantFirst, seps, depth+1); !ok {
				return false, why
			}
		}
		return true, "all alternatives preserve spacing"
	case *ssa.Const:
		return true, "constant"
	case *ssa.Slice:
		return spacingChain(r, x.X, wantFirst, seps, depth+1)
	case *ssa.UnOp:
		if x.Op == token.MUL {
			switch a := x.X.(type) {
			case *ssa.IndexAddr:
				// element of a split
				if wantFirst {
					if k, ok := a.Index.(*ssa.Const); !ok || k.Int64() != 0 {
						return false, "PID is not element 0 of the split record"
					}
				}
				return spacingChain(r, a.X, wantFirst, seps, depth+1)
			case *ssa.Alloc:
				o := r.loadCell(a, x)
				for _, alt := range o.Alts() {
					if alt.V == nil {
						continue
					}
					if ok, why := spacingChain(r, alt.V, wantFirst, seps, depth+1); !ok {
						return false, why
					}
				}
				return true, "variable"
			}
		}
	case *ssa.Index:
		return spacingChain(r, x.X, wantFirst, seps, depth+1)
	case *ssa.Extract:
		return spacingChain(r, x.Tuple, wantFirst, seps, depth+1)
	case *ssa.Call:
		sc := staticCallee(x.Common())
		if sc == nil {
			return false, "message passes through a dynamic call"
		}
		args := x.Call.Args
		switch sc.String() {
		case "strings.TrimLeft", "strings.TrimPrefix", "strings.TrimSuffix", "strings.TrimRight":
			return spacingChain(r, args[0], wantFirst, seps, depth+1)
		case "strings.Join":
			if s, ok := constStr(args[1]); ok {
				seps[s] = true
			} else {
				return false, "Join with a non-constant separator"
			}
			return spacingChain(r, args[0], wantFirst, seps, depth+1)
		case "strings.Split", "strings.SplitN", "strings.Cut", "strings.SplitAfterN":
			if s, ok := constStr(args[1]); ok {
				seps[s] = true
			} else {
				return false, "Split with a non-constant separator"
			}
			return spacingChain(r, args[0], wantFirst, seps, depth+1)
		case "strings.Fields", "strings.FieldsFunc":
			return false, "strings.Fields collapses runs of white space: the message's internal spacing is not preserved"
		case "strings.ReplaceAll", "strings.Replace", "strings.Map", "strings.ToLower", "strings.ToUpper", "strings.TrimSpace", "strings.Title":
			if sc.Name() == "TrimSpace" {
				return spacingChain(r, args[0], wantFirst, seps, depth+1)
			}
			return false, sc.String() + " rewrites the message text"
		}
		if strings.HasPrefix(sc.String(), "(*regexp.Regexp).Replace") {
			return false, "regexp replacement rewrites the message text"
		}
		if InRepo(sc) && sc.Blocks != nil {
			// repository helper: all its string results must preserve spacing of its parameters
			okAll := true
			why := ""
			allInstrs(sc, func(in ssa.Instruction) {
				if ret, ok := in.(*ssa.Return); ok {
					for _, res := range ret.Results {
						if isStringish(res.Type()) {
							if ok, w := spacingChain(NewResolver(r.P), res, false, seps, depth+1); !ok {
								okAll = false
								why = w
							}
						}
					}
				}
			})
			if !okAll {
				return false, why
			}
			for _, a := range args {
				if isStringish(a.Type()) {
					if ok, w := spacingChain(r, a, wantFirst, seps, depth+1); !ok {
						return false, w
					}
				}
			}
			return true, "through helper " + sc.Name()
		}
		return false, "message passes through " + sc.String() + ", which is not known to keep internal spacing"
	}
	return false, "derivation through " + v.String() + " not understood"
}

// auditRecordHandedOn: the callback of the audit pipeline (a function of
// ingesters/auditlog with a string parameter that is sent on a channel)
// delivers every record: the send is bare, or sits in a blocking select
// whose other cases only wait for cancellation, and no path through the
// function avoids it. A record given up for another reason (a timer, a
// default case, a full channel) is lost silently; handed over directly it
// would have been processed.
func auditRecordHandedOn(c *Check) {
	p := c.P
	n := 0
	for _, fn := range p.AllRepoFuncs() {
		if FuncPkgPath(fn) != ModPath+"/ingesters/auditlog" || fn.Blocks == nil || !p.InDaemon(fn) {
			continue
		}
		var lineP []*ssa.Parameter
		for _, prm := range fn.Params {
			if b, ok := prm.Type().Underlying().(*types.Basic); ok && b.Kind() == types.String {
				lineP = append(lineP, prm)
			}
		}
		if len(lineP) == 0 {
			continue
		}
		isLine := func(v ssa.Value) bool {
			for _, lp := range lineP {
				if strip(v) == ssa.Value(lp) {
					return true
				}
			}
			return false
		}
		var hos []ssa.Instruction
		rewritten := func(in ssa.Instruction, v ssa.Value) {
			if b, ok := v.Type().Underlying().(*types.Basic); ok && b.Kind() == types.String {
				c.Bad("audit-record-handed-on", "record sent in "+fn.Name(), p.InstrPos(in), "the text handed on is not the record the callback was given ("+trimOrg(NewResolver(p).Of(v).String())+"): the record is rewritten (cut, filtered, normalised) between the pipe and the parser, so the audit event assembled from it differs from the one the same record handed over directly produces")
				hos = append(hos, in)
			}
		}
		allInstrs(fn, func(in ssa.Instruction) {
			switch x := in.(type) {
			case *ssa.Send:
				if isLine(x.X) {
					hos = append(hos, in)
				} else {
					rewritten(in, x.X)
				}
			case *ssa.Select:
				for _, st := range x.States {
					if st.Dir == types.SendOnly && isLine(st.Send) {
						hos = append(hos, in)
					} else if st.Dir == types.SendOnly {
						rewritten(in, st.Send)
					}
				}
			}
		})
		if len(hos) == 0 {
			continue
		}
		c.Fn(funcDisplayName(fn))
		for _, h := range hos {
			n++
			name := "hand-over of the record in " + fn.Name()
			if sel, ok := h.(*ssa.Select); ok {
				nother := 0
				for _, st := range sel.States {
					if st.Dir == types.SendOnly {
						continue
					}
					if doneRecvOf(st.Chan) == nil {
						nother++
					}
				}
				c.Cond(nother == 0 && sel.Blocking, "audit-record-handed-on", name, p.InstrPos(h), "the select waits for the hand-over or Done() and nothing else", "the hand-over can be abandoned for a reason other than cancellation (a timer, another channel, a default case): the record is dropped silently while later records still flow, so an audit event loses a record that the same stream handed over directly would have kept")
			} else {
				c.OK("audit-record-handed-on", name, p.InstrPos(h), "plain send")
			}
			c.Cond(!inLoop(h), "audit-record-handed-on", name+": once", p.InstrPos(h), "not in a loop", "the record can be sent more than once")
		}
		isHO := func(in ssa.Instruction) bool {
			for _, h := range hos {
				if in == h {
					return true
				}
			}
			return false
		}
		skip := searchAvoiding(fn, nil, isReturn, isHO)
		pos := p.Pos(fn.Pos())
		if skip != nil {
			pos = p.InstrPos(skip)
		}
		c.Cond(skip == nil, "audit-record-handed-on", "paths through "+fn.Name(), pos, "every path from the entry to a return passes the hand-over", "the callback can return without having tried to hand the record on")
	}
	c.Floor("hand-overs of audit records in ingesters/auditlog", 1, n)
}
