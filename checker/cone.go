package main

import (
	"go/types"
	"sort"

	"golang.org/x/tools/go/callgraph"
	"golang.org/x/tools/go/ssa"
)

// Cone is the set of repository functions that may run as part of some
// root activations: static callees, closures created there, dynamic
// callees resolved by the call graph, and repository functions handed to
// dependency code as callbacks (function values, bound methods, objects
// passed as interfaces).
type Cone struct {
	Funcs map[*ssa.Function]bool
	Order []*ssa.Function
	Via   map[*ssa.Function]string // how each function entered the cone
	Spawn map[*ssa.Function]bool   // functions started with `go`
}

func (p *Prog) graph() *callgraph.Graph {
	if useCHA {
		return p.CHA()
	}
	return p.VTA()
}

// dynCallees resolves a call instruction through the selected call graph.
func (p *Prog) dynCallees(ins ssa.CallInstruction) []*ssa.Function {
	g := p.graph()
	n := g.Nodes[ins.Parent()]
	if n == nil {
		return nil
	}
	seen := map[*ssa.Function]bool{}
	var out []*ssa.Function
	for _, e := range n.Out {
		if e.Site == ins && !seen[e.Callee.Func] {
			seen[e.Callee.Func] = true
			out = append(out, e.Callee.Func)
		}
	}
	sort.Slice(out, func(i, j int) bool { return out[i].String() < out[j].String() })
	return out
}

// unwrapBound maps a bound-method or thunk wrapper to the method it calls.
func unwrapBound(f *ssa.Function) *ssa.Function {
	if f == nil || f.Synthetic == "" || f.Blocks == nil {
		return f
	}
	var target *ssa.Function
	n := 0
	allInstrs(f, func(in ssa.Instruction) {
		if ci, ok := in.(ssa.CallInstruction); ok {
			n++
			if sc := staticCallee(ci.Common()); sc != nil {
				target = sc
			}
		}
	})
	if n == 1 && target != nil {
		return target
	}
	return f
}

func (p *Prog) ConeFrom(roots []*ssa.Function) *Cone {
	c := &Cone{Funcs: map[*ssa.Function]bool{}, Via: map[*ssa.Function]string{}, Spawn: map[*ssa.Function]bool{}}
	var work []*ssa.Function
	add := func(f *ssa.Function, via string) {
		if f == nil {
			return
		}
		if f.Synthetic != "" && f.Blocks != nil && !InRepo(f) {
			// wrappers (bound method / thunks) have no package: unwrap
			if t := unwrapBound(f); t != f {
				f = t
			}
		}
		if !InRepo(f) || f.Blocks == nil || c.Funcs[f] {
			return
		}
		if !p.InDaemon(f) {
			return // test-support package, not linked into the daemon
		}
		c.Funcs[f] = true
		c.Via[f] = via
		c.Order = append(c.Order, f)
		work = append(work, f)
	}
	for _, r := range roots {
		add(r, "root")
	}
	for len(work) > 0 {
		fn := work[0]
		work = work[1:]
		name := funcDisplayName(fn)
		allInstrs(fn, func(in ssa.Instruction) {
			if mc, ok := in.(*ssa.MakeClosure); ok {
				add(mc.Fn.(*ssa.Function), "closure in "+name)
				return
			}
			ci, ok := in.(ssa.CallInstruction)
			if !ok {
				return
			}
			cc := ci.Common()
			_, isGo := in.(*ssa.Go)
			mark := func(f *ssa.Function) {
				if isGo && f != nil {
					c.Spawn[unwrapBound(f)] = true
					c.Spawn[f] = true
				}
			}
			if sc := staticCallee(cc); sc != nil {
				mark(sc)
				if InRepo(sc) || (sc.Synthetic != "" && InRepo(unwrapBound(sc))) {
					add(sc, "called by "+name)
					return
				}
				// dependency callee: bridge callbacks handed to it
				params := sc.Signature.Params()
				args := cc.Args
				off := 0
				if sc.Signature.Recv() != nil {
					off = 1
				}
				for i, a := range args {
					p.bridgeArg(a, func(f *ssa.Function, how string) { add(f, how+" passed to "+sc.String()+" by "+name) }, func() types.Type {
						j := i - off
						if j >= 0 && j < params.Len() {
							return params.At(j).Type()
						}
						if params.Len() > 0 && sc.Signature.Variadic() {
							return params.At(params.Len() - 1).Type()
						}
						return nil
					}())
				}
				return
			}
			if _, ok := cc.Value.(*ssa.Builtin); ok {
				return
			}
			for _, cal := range p.dynCallees(ci) {
				mark(cal)
				add(cal, "dynamic call in "+name)
			}
		})
	}
	sort.Slice(c.Order, func(i, j int) bool {
		if c.Order[i].Pos() != c.Order[j].Pos() {
			return c.Order[i].Pos() < c.Order[j].Pos()
		}
		return c.Order[i].String() < c.Order[j].String()
	})
	return c
}

// bridgeArg adds repository functions reachable from an argument given to
// dependency code: function values and methods of repository types passed
// as interfaces.
func (p *Prog) bridgeArg(a ssa.Value, add func(*ssa.Function, string), paramT types.Type) {
	v := a
	for {
		switch x := v.(type) {
		case *ssa.MakeInterface:
			v = x.X
			continue
		case *ssa.ChangeType:
			v = x.X
			continue
		case *ssa.ChangeInterface:
			v = x.X
			continue
		}
		break
	}
	switch x := v.(type) {
	case *ssa.MakeClosure:
		add(x.Fn.(*ssa.Function), "closure")
		return
	case *ssa.Function:
		add(x, "function value")
		return
	}
	// object of a repository type passed where an interface is expected
	if paramT == nil {
		return
	}
	iface, ok := paramT.Underlying().(*types.Interface)
	if !ok || iface.NumMethods() == 0 {
		return
	}
	n := namedOf(v.Type())
	if n == nil || n.Obj().Pkg() == nil {
		return
	}
	ms := p.SSA.MethodSets.MethodSet(v.Type())
	for i := 0; i < ms.Len(); i++ {
		sel := ms.At(i)
		for j := 0; j < iface.NumMethods(); j++ {
			if iface.Method(j).Name() == sel.Obj().Name() {
				if f := p.SSA.MethodValue(sel); f != nil {
					add(f, "method of "+n.Obj().Name()+" as "+types.TypeString(paramT, nil))
				}
			}
		}
	}
}
