package main

import (
	"fmt"
	"sort"
	"strings"

	"golang.org/x/tools/go/ssa"
)

// Analysis C: path-count dataflow. For two marker kinds (A, B) the set of
// reachable count pairs over the domain {0,1,>=2}x{0,1,2,>=3} is
// propagated through the CFG; callees are summarised the same way.

type PC struct{ A, B int }

type PCSet map[PC]bool

func (s PCSet) String() string {
	var l []string
	for k := range s {
		l = append(l, fmt.Sprintf("(%d,%d)", k.A, k.B))
	}
	sort.Strings(l)
	return strings.Join(l, " ")
}

func satA(n int) int {
	if n > 2 {
		return 2
	}
	return n
}

func satB(n int) int {
	if n > 3 {
		return 3
	}
	return n
}

func (s PCSet) plus(a, b int) PCSet {
	out := PCSet{}
	for k := range s {
		out[PC{satA(k.A + a), satB(k.B + b)}] = true
	}
	return out
}

func (s PCSet) cross(t PCSet) PCSet {
	out := PCSet{}
	for k := range s {
		for j := range t {
			out[PC{satA(k.A + j.A), satB(k.B + j.B)}] = true
		}
	}
	return out
}

func (s PCSet) union(t PCSet) (PCSet, bool) {
	changed := false
	for k := range t {
		if !s[k] {
			s[k] = true
			changed = true
		}
	}
	return s, changed
}

type PathCounter struct {
	P       *Prog
	IsA     func(ssa.Instruction) bool
	IsB     func(ssa.Instruction) bool
	memo    map[*ssa.Function]PCSet
	busy    map[*ssa.Function]bool
	Dynamic func(ci ssa.CallInstruction) (PCSet, bool) // summary for a dynamic call site (optional)
	Visited map[*ssa.Function]bool
	// CondEval optionally decides branch conditions (path sensitivity for
	// values that are fixed on the explored paths, e.g. phis of a join).
	CondEval func(v ssa.Value) (val bool, known bool)
}

func NewPathCounter(p *Prog, isA, isB func(ssa.Instruction) bool) *PathCounter {
	return &PathCounter{P: p, IsA: isA, IsB: isB, memo: map[*ssa.Function]PCSet{}, busy: map[*ssa.Function]bool{}, Visited: map[*ssa.Function]bool{}}
}

// Summary: count pairs over all entry-to-return paths of fn.
func (pc *PathCounter) Summary(fn *ssa.Function) PCSet {
	if s, ok := pc.memo[fn]; ok {
		return s
	}
	if pc.busy[fn] || fn.Blocks == nil {
		return PCSet{PC{0, 0}: true}
	}
	pc.busy[fn] = true
	pc.Visited[fn] = true
	s := pc.Region(fn, nil, nil)
	delete(pc.busy, fn)
	pc.memo[fn] = s
	return s
}

// Region: count pairs over paths from the start of block `from` (function
// entry when nil) to the end of block `to` (any return when nil).
func (pc *PathCounter) Region(fn *ssa.Function, from, to *ssa.BasicBlock) PCSet {
	in := map[*ssa.BasicBlock]PCSet{}
	start := from
	if start == nil {
		start = fn.Blocks[0]
	}
	in[start] = PCSet{PC{0, 0}: true}
	result := PCSet{}
	work := []*ssa.BasicBlock{start}
	for len(work) > 0 {
		b := work[0]
		work = work[1:]
		st := PCSet{}
		for k := range in[b] {
			st[k] = true
		}
		isRet := false
		for _, ins := range b.Instrs {
			st = pc.step(ins, st)
			if _, ok := ins.(*ssa.Return); ok {
				isRet = true
			}
		}
		if to != nil && b == to {
			result.union(st)
			continue
		}
		if to == nil && isRet {
			result.union(st)
		}
		succs := b.Succs
		if pc.CondEval != nil && len(b.Instrs) > 0 {
			if iff, ok := b.Instrs[len(b.Instrs)-1].(*ssa.If); ok {
				if v, known := pc.CondEval(iff.Cond); known {
					if v {
						succs = b.Succs[:1]
					} else {
						succs = b.Succs[1:2]
					}
				}
			}
		}
		for _, s := range succs {
			if in[s] == nil {
				in[s] = PCSet{}
			}
			if _, ch := in[s].union(st); ch {
				work = append(work, s)
			}
		}
	}
	return result
}

func (pc *PathCounter) step(ins ssa.Instruction, st PCSet) PCSet {
	a, b := 0, 0
	if pc.IsA(ins) {
		a = 1
	}
	if pc.IsB(ins) {
		b = 1
	}
	if a+b > 0 {
		st = st.plus(a, b)
	}
	ci, ok := ins.(ssa.CallInstruction)
	if !ok {
		return st
	}
	if _, isGo := ins.(*ssa.Go); isGo {
		return st
	}
	if sc := staticCallee(ci.Common()); sc != nil {
		if InRepo(sc) && sc.Blocks != nil {
			return st.cross(pc.Summary(sc))
		}
		return st
	}
	if pc.Dynamic != nil {
		if s, ok := pc.Dynamic(ci); ok {
			return st.cross(s)
		}
	}
	return st
}

// phiEdgeEval builds a condition evaluator for the paths that enter block
// join through predecessor index edge: phis of join take their edge value.
func phiEdgeEval(join *ssa.BasicBlock, edge int) func(ssa.Value) (bool, bool) {
	var val func(v ssa.Value, depth int) (ssa.Value, bool)
	val = func(v ssa.Value, depth int) (ssa.Value, bool) {
		if depth > 6 {
			return nil, false
		}
		switch x := v.(type) {
		case *ssa.Phi:
			if x.Block() == join && edge < len(x.Edges) {
				return val(x.Edges[edge], depth+1)
			}
			return nil, false
		case *ssa.Const, *ssa.Function:
			return v, true
		case *ssa.ChangeType:
			return val(x.X, depth+1)
		case *ssa.MakeClosure:
			return v, true
		}
		return nil, false
	}
	var eval func(v ssa.Value, depth int) (bool, bool)
	eval = func(v ssa.Value, depth int) (bool, bool) {
		if depth > 6 {
			return false, false
		}
		switch x := v.(type) {
		case *ssa.UnOp:
			if x.Op.String() == "!" {
				b, ok := eval(x.X, depth+1)
				return !b, ok
			}
		case *ssa.BinOp:
			if x.Op.String() != "==" && x.Op.String() != "!=" {
				return false, false
			}
			a, oka := val(x.X, 0)
			b, okb := val(x.Y, 0)
			if !oka || !okb {
				return false, false
			}
			eq, known := constEqual(a, b)
			if !known {
				return false, false
			}
			if x.Op.String() == "!=" {
				return !eq, true
			}
			return eq, true
		}
		if c, ok := val(v, 0); ok {
			if k, ok := c.(*ssa.Const); ok && k.Value != nil && k.Value.Kind().String() == "Bool" {
				return k.Value.String() == "true", true
			}
		}
		return false, false
	}
	return func(v ssa.Value) (bool, bool) { return eval(v, 0) }
}

func constEqual(a, b ssa.Value) (bool, bool) {
	ka, oka := a.(*ssa.Const)
	kb, okb := b.(*ssa.Const)
	switch {
	case oka && okb:
		if ka.Value == nil || kb.Value == nil {
			return ka.Value == nil && kb.Value == nil, true
		}
		return ka.Value.ExactString() == kb.Value.ExactString(), true
	case oka && ka.Value == nil:
		return false, true // nil vs function / closure
	case okb && kb.Value == nil:
		return false, true
	}
	if a == b {
		return true, true
	}
	return false, false
}
