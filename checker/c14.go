package main

import (
	"fmt"
	"go/constant"
	"go/token"
	"go/types"
	"strings"

	"golang.org/x/tools/go/ssa"
)

func init() { register("C14", "other", checkC14) }

func checkC14(c *Check) {
	c.Explanation = "Slot-routing and effect rules on the UserAction renderer and the stream callback: (1) type is the UserAction constant, component 'auditd', timestamp <- ae.Timestamp, auditId <- ae.Session, metadata.extra action/how/object <- ae.Summary.*, process_args <- ae.Process.Args stored exactly under len(ae.Process.Args) > 0; (2) the outcome is 'succeeded' only on the edge ae.Result == \"success\" and 'failed' on every other path; (3) the renderer is pure with respect to the stored login: every store and map update it performs targets memory created in the same activation (the new event, fresh maps), and the subjects map handed to the event is a fresh copy; (4) the stream callback hands the correlator the result of CoalesceMessages on its argument, after ResolveIDs on every path and behind the After filter. aucoalesce's summarisation itself is not decided."
	c.Rule("routing / process-args-iff-present / outcome-iff-success / renderer-pure / callback-pipeline")
	c.Trust("auditevent.NewAuditEvent/WithTarget write only the event they return (read in the module cache)", "aucoalesce.CoalesceMessages/ResolveIDs implement the summarisation (not decided)")
	t := NewTracker(c)
	if t == nil {
		return
	}
	nr := 0
	for fn := range t.Renderer {
		nr++
		renderer14(c, fn)
	}
	c.Floor("renderer functions", 1, nr)
	callbackPipeline(c)
	deliveredEventUnmodified(c, t)
	renderedEventEmittedAsRendered(c, t)
	// the record group is complete: every line of the stream is pushed to
	// the reassembler (rules of C15)
	importRules(c, "C03", checkC03, "identity-content-stable: ", "S7 login-event-read-only")
	loginEventNotRetained(c)
	ng := importRules(c, "C15", checkC15, "record-group-complete: ", "parse-or-stop", "push-parse-result")
	// ... and every record reaches the parser whole, whatever its length
	// (an EXECVE record can carry several kilobytes of arguments): the pipe
	// is read with an accumulating primitive (rules of C12)
	ng += importRules(c, "C12", checkC12, "record-group-complete: ", "framing-primitive", "once-verbatim-in-order")
	// ... and unmodified: the audit pipeline's callback hands on the record it was given (rule of C07)
	ng += importRules(c, "C07", checkC07, "record-group-complete: ", "audit-record-handed-on")
	c.Floor("imported record-group-complete obligations", 8, ng)
}

// renderedEventEmittedAsRendered: what the renderer returns is what is
// written: between the call of a renderer and the emit no function of the
// correlator stores into the rendered event (its fields, the maps hanging
// off it) or calls one of its mutating builders. Otherwise the same record
// group renders differently depending on the path it took (held and flushed,
// or emitted directly).
func renderedEventEmittedAsRendered(c *Check, t *Tracker) {
	p := c.P
	n := 0
	for _, fn := range p.AllRepoFuncs() {
		if fn.Blocks == nil || !strings.HasPrefix(FuncPkgPath(fn), ModPath+"/processors/auditd") {
			continue
		}
		for _, ci := range callsIn(fn) {
			cl, ok := ci.(*ssa.Call)
			if !ok {
				continue
			}
			sc := staticCallee(cl.Common())
			if sc == nil || !t.Renderer[sc] {
				continue
			}
			n++
			name := "result of " + sc.Name() + " in " + fn.Name()
			bad := ""
			seen := map[ssa.Value]bool{}
			var walk func(v ssa.Value, depth int)
			walk = func(v ssa.Value, depth int) {
				if v == nil || seen[v] || depth > 8 || bad != "" {
					return
				}
				seen[v] = true
				rr := v.Referrers()
				if rr == nil {
					return
				}
				for _, u := range *rr {
					switch x := u.(type) {
					case *ssa.FieldAddr:
						if x.X != v {
							continue
						}
						if fr := x.Referrers(); fr != nil {
							for _, fu := range *fr {
								switch y := fu.(type) {
								case *ssa.Store:
									if y.Addr == ssa.Value(x) {
										bad = "field " + fieldName(x.X.Type(), x.Field) + " is overwritten at " + p.InstrPos(y)
									}
								case *ssa.UnOp:
									// a map or pointer loaded from the event
									if _, isMap := y.Type().Underlying().(*types.Map); isMap {
										if mr := y.Referrers(); mr != nil {
											for _, mu := range *mr {
												if up, ok := mu.(*ssa.MapUpdate); ok && up.Map == ssa.Value(y) {
													bad = "map " + fieldName(x.X.Type(), x.Field) + " is updated at " + p.InstrPos(up)
												}
											}
										}
									}
								case *ssa.FieldAddr:
									walk(x, depth+1)
								}
							}
						}
					case *ssa.Phi, *ssa.ChangeType, *ssa.MakeInterface:
						walk(u.(ssa.Value), depth+1)
					case ssa.CallInstruction:
						cc := x.Common()
						if s2 := staticCallee(cc); s2 != nil && s2.Signature.Recv() != nil && len(cc.Args) > 0 && cc.Args[0] == v && strings.HasPrefix(s2.Name(), "With") {
							bad = "builder " + s2.Name() + " is applied at " + p.InstrPos(x)
						}
					}
				}
			}
			walk(cl, 0)
			c.Cond(bad == "", "renderer-pure", name+": emitted as rendered", p.InstrPos(cl), "the rendered event is not modified after rendering", "the rendered event is altered after the renderer returned ("+bad+"): an event that took this path (e.g. held and flushed) differs from the same event emitted directly, and no longer carries what the kernel recorded")
		}
	}
	c.Floor("call sites of the renderer", 2, n)
}

// deliveredEventUnmodified: the correlator renders (now, or later from the
// hold queue) the event it was delivered; no function of the tracker reached
// from the delivery stores into memory of that event (its fields, or the
// slices and maps hanging off it, also through a struct copy).
func deliveredEventUnmodified(c *Check, t *Tracker) {
	p := c.P
	n := 0
	for _, ep := range t.EPs {
		for _, prm := range ep.Params {
			pt, ok := prm.Type().(*types.Pointer)
			if !ok {
				continue
			}
			nt := namedOf(pt.Elem())
			if nt == nil || nt.Obj().Name() != "Event" || nt.Obj().Pkg() == nil || !strings.HasSuffix(nt.Obj().Pkg().Path(), "aucoalesce") {
				continue
			}
			n++
			at := storesIntoParam(p, ep, prm, 0)
			c.Cond(at == "", "delivered-event-unmodified", "delivery "+ep.Name()+": parameter "+prm.Name(), p.Pos(ep.Pos()), "no store into the delivered audit event (or storage shared with it) in the delivery's cone", "the delivered audit event is rewritten before it is rendered or held (store at "+at+"): the UserAction no longer carries what the kernel recorded (e.g. its process arguments)")
		}
	}
	c.Floor("deliveries taking an audit event", 1, n)
}

func renderer14(c *Check, fn *ssa.Function) {
	p := c.P
	c.Fn(funcDisplayName(fn))
	r := NewResolver(p)
	name := "renderer " + fn.Name()
	if len(fn.Params) != 2 {
		c.Unk("routing", name, p.Pos(fn.Pos()), "unexpected signature")
		return
	}
	ae := "P(" + fn.Params[1].Name() + ")"
	var ret *ssa.Return
	allInstrs(fn, func(in ssa.Instruction) {
		if rt, ok := in.(*ssa.Return); ok {
			ret = rt
		}
	})
	ev := ExtractEvent(p, r, ret.Results[0], ret)
	for _, u := range ev.Unknown {
		c.Unk("routing", name+": "+u, p.InstrPos(ret), "event construction not understood")
	}
	want := map[string]string{
		"component":             `C("auditd")`,
		"loggedAt":              ae + ".Timestamp",
		"metadata.auditId":      ae + ".Session",
		"metadata.extra.action": ae + ".Summary.Action",
		"metadata.extra.how":    ae + ".Summary.How",
		"metadata.extra.object": ae + ".Summary.Object",
	}
	for _, slot := range []string{"component", "loggedAt", "metadata.auditId", "metadata.extra.action", "metadata.extra.how", "metadata.extra.object"} {
		vals := ev.Effective(slot)
		got := []string{}
		ok := len(vals) > 0
		for _, v := range vals {
			s := trimOrg(v.Org.String())
			got = append(got, s)
			if s != want[slot] || !v.Must {
				ok = false
			}
		}
		c.Cond(ok, "routing", name+": "+slot, p.InstrPos(ret), "<- "+want[slot], fmt.Sprintf("slot %s of a UserAction is %v, expected %s on every path", slot, got, want[slot]))
	}
	// type constant
	tv := ev.EffectiveSrcs(p, "type")
	c.Cond(len(tv) == 1 && tv[0].Kind == "const" && tv[0].A == "UserAction", "routing", name+": type", p.InstrPos(ret), "= UserAction", fmt.Sprintf("event type is %v", tv))
	// process_args: present exactly when len(args) > 0
	pa := ev.Slots["metadata.extra.process_args"]
	okPA := len(pa) == 1 && trimOrg(pa[0].Org.String()) == ae+".Process.Args"
	whyPA := "process arguments are not recorded"
	if okPA {
		okPA = false
		whyPA = "process arguments are not stored exactly when the audit event has some"
		for _, g := range GuardsOf(pa[0].At) {
			a := atomsOf(g)
			b, ok := a.V.(*ssa.BinOp)
			if !ok {
				continue
			}
			lenArgs := func(v ssa.Value) bool {
				cl, ok := v.(*ssa.Call)
				if !ok {
					return false
				}
				bi, ok := cl.Call.Value.(*ssa.Builtin)
				return ok && bi.Name() == "len" && trimOrg(r.Of(cl.Call.Args[0]).String()) == ae+".Process.Args"
			}
			k, isK := intConstOf(b.Y)
			if lenArgs(b.X) && isK {
				if (b.Op == token.GTR && k == 0 && a.Pos) || (b.Op == token.NEQ && k == 0 && a.Pos) || (b.Op == token.GEQ && k == 1 && a.Pos) || (b.Op == token.EQL && k == 0 && !a.Pos) {
					// other guards may only be loop exits of the subjects copy
					extra := 0
					for _, g2 := range GuardsOf(pa[0].At) {
						a2 := atomsOf(g2)
						if a2.V == a.V {
							continue
						}
						if ex, ok := a2.V.(*ssa.Extract); ok {
							if _, isNext := ex.Tuple.(*ssa.Next); isNext {
								continue
							}
						}
						extra++
					}
					okPA = extra == 0
				}
			}
		}
	}
	c.Cond(okPA, "process-args-iff-present", name+": metadata.extra.process_args", p.InstrPos(ret), "stored exactly under len(ae.Process.Args) > 0", whyPA)
	// outcome
	oc := ev.Slots["outcome"]
	okOut := len(oc) == 1
	whyOut := "outcome is not selected from the two outcome constants"
	if okOut {
		okOut = false
		if phi, ok := oc[0].Org.V.(*ssa.Phi); ok || oc[0].Org.K == "phi" {
			_ = phi
		}
		// the outcome value: a choice among constants; examine each
		// alternative with the conditions selecting it (branches, helper
		// returns, entries of a read-only table keyed by the result)
		var v ssa.Value
		if len(ev.Ctors) == 1 {
			v = ev.Ctors[0].Call.Args[2]
		} else if oc[0].Org != nil {
			v = oc[0].Org.V
		}
		if v != nil {
			okOut = true
			nsucc := 0
			isResult := func(alt CAlt, x ssa.Value) bool {
				return trimOrg(r.Of(alt.Arg(x)).String()) == ae+".Result"
			}
			for _, alt := range condAlts(v, 0) {
				if alt.K == nil || alt.K.Value == nil || alt.K.Value.Kind() != constant.String {
					okOut = false
					whyOut = "outcome is computed (" + trimOrg(r.Of(v).String()) + ")"
					continue
				}
				s := constant.StringVal(alt.K.Value)
				isSuccessEdge := false
				for _, a := range alt.Conds {
					b, ok := a.V.(*ssa.BinOp)
					if !ok || b.Op != token.EQL {
						continue
					}
					if cs, isS := constStr(b.Y); isS && cs == "success" && isResult(alt, b.X) && a.Pos {
						isSuccessEdge = true
					}
					if cs, isS := constStr(b.X); isS && cs == "success" && isResult(alt, b.Y) && a.Pos {
						isSuccessEdge = true
					}
				}
				if alt.Key != nil && alt.KeyConst != nil && !alt.Miss && isResult(alt, alt.Key) {
					if ks, isS := constStr(alt.KeyConst); isS && ks == "success" {
						isSuccessEdge = true
					}
				}
				switch s {
				case "succeeded":
					nsucc++
					if !isSuccessEdge {
						okOut = false
						whyOut = "'succeeded' is chosen on a path that is not the edge ae.Result == \"success\": a result other than success (e.g. 'unknown', 'fail') is rendered as succeeded"
					}
				case "failed":
					if isSuccessEdge {
						okOut = false
						whyOut = "'failed' is chosen on the success edge"
					}
				default:
					okOut = false
					whyOut = "unexpected outcome constant \"" + s + "\" (a result outside the table is rendered with it)"
				}
			}
			if nsucc == 0 {
				okOut = false
				whyOut = "no path yields 'succeeded'"
			}
		}
	}
	c.Cond(okOut, "outcome-iff-success", name+": outcome", p.InstrPos(ret), "'succeeded' exactly on the edge ae.Result == \"success\", 'failed' on every other path", whyOut)
	// purity
	evAliases := map[ssa.Value]bool{}
	for _, ct := range ev.Ctors {
		evAliases[ct] = true
	}
	// With* results alias the event
	allInstrs(fn, func(in ssa.Instruction) {
		if cl, ok := in.(*ssa.Call); ok {
			if sc := staticCallee(cl.Common()); sc != nil && strings.Contains(sc.String(), "AuditEvent).With") && len(cl.Call.Args) > 0 {
				evAliases[cl] = true
			}
		}
	})
	rootOf := func(addr ssa.Value) ssa.Value {
		for {
			switch x := addr.(type) {
			case *ssa.FieldAddr:
				addr = x.X
			case *ssa.IndexAddr:
				addr = x.X
			default:
				return addr
			}
		}
	}
	freshMap := func(m ssa.Value, at ssa.Instruction) (bool, string) {
		m = strip(m)
		if _, ok := m.(*ssa.MakeMap); ok {
			return true, ""
		}
		ld, ok := m.(*ssa.UnOp)
		if !ok || ld.Op != token.MUL {
			return false, "map of unknown origin"
		}
		fa, ok := ld.X.(*ssa.FieldAddr)
		if !ok {
			if a, ok := ld.X.(*ssa.Alloc); ok {
				o := r.loadCell(a, ld)
				if mk, ok := o.V.(*ssa.MakeMap); ok && mk != nil {
					return true, ""
				}
			}
			return false, "map of unknown origin"
		}
		path := trimOrg(r.Of(fa).String())
		// a fresh map must have been stored into that very field in this activation, before
		okm := false
		allInstrs(fn, func(in ssa.Instruction) {
			st, ok := in.(*ssa.Store)
			if !ok {
				return
			}
			sfa, ok := st.Addr.(*ssa.FieldAddr)
			if !ok || trimOrg(r.Of(sfa).String()) != path {
				return
			}
			if _, ok := strip(st.Val).(*ssa.MakeMap); ok && dominatesInstr(st, at) {
				okm = true
			}
		})
		if okm {
			return true, ""
		}
		return false, "the map in field " + path + " was not created by this rendering (it aliases a map of the stored login or of the audit event)"
	}
	nstores := 0
	allInstrs(fn, func(in ssa.Instruction) {
		switch x := in.(type) {
		case *ssa.Store:
			root := rootOf(x.Addr)
			nstores++
			switch rt := root.(type) {
			case *ssa.Alloc:
				return
			case *ssa.Call:
				if evAliases[rt] {
					return
				}
			}
			c.Bad("renderer-pure", name+": store to "+trimOrg(r.Of(x.Addr).String()), p.InstrPos(in), "rendering an event writes memory that was not created by this rendering: emitting an event alters the stored login (or the audit event), so later events of the session differ")
		case *ssa.MapUpdate:
			nstores++
			if ok, why := freshMap(x.Map, in); !ok {
				c.Bad("renderer-pure", name+": update of map "+trimOrg(r.Of(x.Map).String()), p.InstrPos(in), why+": emitting an event alters the stored login, so later events of the session carry different identity content")
			}
		}
	})
	c.OK("renderer-pure", name+": stores and map updates", p.Pos(fn.Pos()), fmt.Sprintf("%d stores/updates examined; all others target memory created in this activation", nstores))
	// subjects is a fresh copy
	if len(ev.Ctors) == 1 {
		_, isMk := strip(ev.Ctors[0].Call.Args[3]).(*ssa.MakeMap)
		if hc, isCall := strip(ev.Ctors[0].Call.Args[3]).(*ssa.Call); isCall && !isMk {
			// a repository helper all of whose returns yield a map it made itself
			if sc := staticCallee(hc.Common()); sc != nil && InRepo(sc) && sc.Blocks != nil {
				isMk = true
				nret := 0
				allInstrs(sc, func(in ssa.Instruction) {
					if ret, isRet := in.(*ssa.Return); isRet {
						nret++
						if len(ret.Results) != 1 {
							isMk = false
						} else if _, fresh := strip(ret.Results[0]).(*ssa.MakeMap); !fresh {
							isMk = false
						}
					}
				})
				if nret == 0 {
					isMk = false
				}
			}
		}
		c.Cond(isMk, "renderer-pure", name+": subjects map handed to the event", p.InstrPos(ev.Ctors[0]), "a fresh map filled from the login's subjects", "the login's own subjects map is handed to the event: anything that later writes the event's subjects alters the stored login")
	}
	// no calls with side effects on the receiver other than the constructor helpers
	allInstrs(fn, func(in ssa.Instruction) {
		cl, ok := in.(ssa.CallInstruction)
		if !ok {
			return
		}
		sc := staticCallee(cl.Common())
		if sc == nil {
			if _, isB := cl.Common().Value.(*ssa.Builtin); !isB {
				c.Unk("renderer-pure", name+": dynamic call", p.InstrPos(in), "effects of a dynamic call in the renderer cannot be bounded")
			}
			return
		}
		if InRepo(sc) {
			// a repository helper: it must not write memory reachable from
			// its arguments, nor package-level state
			bad := ""
			for pi, prm := range sc.Params {
				if at := storesIntoParam(p, sc, prm, 0); at != "" {
					// allowed when the argument is memory created by this
					// rendering (the event under construction, a fresh map)
					fresh := false
					if pi < len(cl.Common().Args) {
						fresh = true
						for _, a := range r.Of(cl.Common().Args[pi]).Alts() {
							switch {
							case a.K == "alloc":
							case a.K == "call" && (strings.HasPrefix(a.Name, "github.com/metal-toolbox/auditevent.NewAuditEvent") || strings.Contains(a.Name, "auditevent.AuditEvent).With")):
							default:
								fresh = false
							}
						}
					}
					if !fresh {
						bad = "stores into memory reachable from its argument " + prm.Name() + " at " + at
					}
				}
			}
			allInstrs(sc, func(hi ssa.Instruction) {
				var addr ssa.Value
				switch y := hi.(type) {
				case *ssa.Store:
					addr = y.Addr
				case *ssa.MapUpdate:
					addr = y.Map
				case *ssa.Go:
					bad = "starts a goroutine"
				default:
					return
				}
				for addr != nil {
					switch b := addr.(type) {
					case *ssa.FieldAddr:
						addr = b.X
						continue
					case *ssa.IndexAddr:
						addr = b.X
						continue
					case *ssa.UnOp:
						addr = b.X
						continue
					case *ssa.Global:
						bad = "writes package-level state " + b.Name()
					}
					break
				}
			})
			if sc.Blocks == nil {
				bad = "has no body to analyse"
			}
			if bad == "" {
				c.OK("renderer-pure", name+": call of "+sc.Name(), p.InstrPos(in), "the helper writes only memory it creates")
			} else {
				c.Bad("renderer-pure", name+": call of "+sc.Name(), p.InstrPos(in), "helper "+sc.Name()+" "+bad+": rendering an event has an effect on stored state")
			}
		}
	})
}

// callbackPipeline: ReassemblyComplete-like method of the libaudit.Stream implementation.
func callbackPipeline(c *Check) {
	p := c.P
	// the function that calls aucoalesce.CoalesceMessages
	var fn *ssa.Function
	var co *ssa.Call
	for _, f := range p.AllRepoFuncs() {
		if !p.InDaemon(f) {
			continue
		}
		allInstrs(f, func(in ssa.Instruction) {
			if cl, ok := in.(*ssa.Call); ok {
				if sc := staticCallee(cl.Common()); sc != nil && strings.HasSuffix(sc.String(), "aucoalesce.CoalesceMessages") {
					fn, co = f, cl
				}
			}
		})
	}
	if !c.Anchor("call of aucoalesce.CoalesceMessages (stream callback)", co != nil) {
		return
	}
	c.Fn(funcDisplayName(fn))
	r := NewResolver(p)
	name := "stream callback " + fn.Name()
	// hand-over: invoke of the Auditor interface
	var hand *ssa.Call
	allInstrs(fn, func(in ssa.Instruction) {
		if cl, ok := in.(*ssa.Call); ok && cl.Common().IsInvoke() && cl.Common().Method.Name() == "AuditdEvent" {
			hand = cl
		}
	})
	if hand == nil {
		c.Bad("callback-pipeline", name, p.Pos(fn.Pos()), "the coalesced event is never handed to the correlator")
		return
	}
	arg := r.Of(hand.Call.Args[0])
	c.Cond(arg.K == "call" && arg.V == ssa.Value(co) && arg.Idx == 0, "callback-pipeline", name+": value handed to the correlator", p.InstrPos(hand), "result 0 of CoalesceMessages", "the correlator receives "+trimOrg(arg.String())+", not the coalesced event")
	ao := r.Of(co.Call.Args[0])
	c.Cond(ao.K == "param", "callback-pipeline", name+": messages coalesced", p.InstrPos(co), "the callback's own argument", "CoalesceMessages is applied to "+trimOrg(ao.String()))
	// ... in the order the reassembler delivered them: the record list is
	// not handed to anything (a sort, a filter, a helper) before it is
	// coalesced; the library summarises an event from the first record of
	// the group, so the order is part of the input
	if prm, isPrm := ao.V.(*ssa.Parameter); isPrm && ao.K == "param" {
		if rr := prm.Referrers(); rr != nil {
			for _, u := range *rr {
				ci, isCall := u.(ssa.CallInstruction)
				if !isCall || ci == ssa.CallInstruction(co) {
					if st, isSt := u.(*ssa.Store); isSt && st.Val == ssa.Value(prm) {
						continue // spilled for a closure: judged through its loads below
					}
					continue
				}
				if bi, isB := ci.Common().Value.(*ssa.Builtin); isB && (bi.Name() == "len" || bi.Name() == "cap") {
					continue
				}
				if reachesInstr(ci, co) || ci.Block() == co.Block() {
					c.Bad("callback-pipeline", name+": record list passed to "+calleeName(ci.Common())+" before it is coalesced", p.InstrPos(ci), "the list of records is handed to another function before CoalesceMessages (a sort, a filter, a rewrite): the event is summarised from the first record of the group, so a re-ordered or shortened list yields a different action, object or process arguments")
				}
			}
		}
		allInstrs(fn, func(in ssa.Instruction) {
			// element writes: msgs[i] = ...
			if st, ok := in.(*ssa.Store); ok {
				if ia, ok := st.Addr.(*ssa.IndexAddr); ok && strip(ia.X) == ssa.Value(prm) {
					c.Bad("callback-pipeline", name+": record list modified before it is coalesced", p.InstrPos(in), "an element of the record list is overwritten before CoalesceMessages")
				}
			}
		})
	}
	// ResolveIDs dominates the hand-over, applied to the same event
	res := false
	allInstrs(fn, func(in ssa.Instruction) {
		if cl, ok := in.(*ssa.Call); ok {
			if sc := staticCallee(cl.Common()); sc != nil && strings.HasSuffix(sc.String(), "aucoalesce.ResolveIDs") {
				if sameValue(r.Of(cl.Call.Args[0]), arg) && dominatesInstr(cl, hand) {
					res = true
				}
			}
		}
	})
	c.Cond(res, "callback-pipeline", name+": ResolveIDs before the hand-over", p.InstrPos(hand), "applied to the same event on every path", "IDs are not resolved on every path before the event reaches the correlator")
	// After filter
	filt := false
	for _, g := range GuardsOf(hand) {
		a := atomsOf(g)
		if cl, ok := a.V.(*ssa.Call); ok {
			if sc := staticCallee(cl.Common()); sc != nil && sc.String() == "(time.Time).Before" && !a.Pos {
				x := trimOrg(r.Of(cl.Call.Args[0]).String())
				y := trimOrg(r.Of(cl.Call.Args[1]).String())
				if strings.HasSuffix(x, ".Timestamp") && strings.HasSuffix(y, ".after") {
					filt = true
				}
			}
		}
	}
	c.Cond(filt, "callback-pipeline", name+": After filter", p.InstrPos(hand), "events before the configured time return before the hand-over", "the After filter does not guard the hand-over")
	// every successfully coalesced event is handed over, except through the filter on the configured (immutable) time
	var cerr0 ssa.Value
	if rr := co.Referrers(); rr != nil {
		for _, u := range *rr {
			if ex, ok := u.(*ssa.Extract); ok && ex.Index == 1 {
				cerr0 = ex
			}
		}
	}
	if cerr0 != nil {
		if _, nl, _ := errEdge(cerr0); nl != nil {
			isFilter := func(in ssa.Instruction) bool {
				iff, ok := in.(*ssa.If)
				if !ok {
					return false
				}
				a := atomsOf(Guard{If: iff, Cond: iff.Cond, True: true})
				cl, ok := a.V.(*ssa.Call)
				if !ok {
					return false
				}
				sc := staticCallee(cl.Common())
				return sc != nil && sc.String() == "(time.Time).Before" && strings.HasSuffix(trimOrg(r.Of(cl.Call.Args[1]).String()), ".after")
			}
			// a path that reports an error on the callback's error channel is
			// not a silent drop (whether every such report is kept is C15's
			// error-handoff rule)
			isErrReport := func(in ssa.Instruction) bool {
				switch x := in.(type) {
				case *ssa.Send:
					return isErrorType(x.X.Type())
				case *ssa.Select:
					for _, st := range x.States {
						if st.Dir == types.SendOnly && st.Send != nil && isErrorType(st.Send.Type()) {
							return true
						}
					}
				}
				return false
			}
			miss := blockReachesInstr(nl, isReturn, func(in ssa.Instruction) bool {
				return in == ssa.Instruction(hand) || isFilter(in) || isErrReport(in)
			})
			c.Cond(miss == nil, "callback-pipeline", name+": every coalesced event reaches the correlator", p.InstrPos(co), "the only way around the hand-over is the After filter", "a coalesced event can be dropped without being handed to the correlator and without an error (a path around the hand-over other than the After filter)")
		}
	}
	// the filter's bound is configuration: never written after the callback object is built
	nst, bad := 0, ""
	for _, f2 := range p.AllRepoFuncs() {
		allInstrs(f2, func(in ssa.Instruction) {
			st, ok := in.(*ssa.Store)
			if !ok {
				return
			}
			fa, ok := st.Addr.(*ssa.FieldAddr)
			if !ok || fieldName(fa.X.Type(), fa.Field) != "after" {
				return
			}
			if nt := namedOf(fa.X.Type()); nt == nil || nt.Obj().Name() != "reassemblerCB" {
				return
			}
			nst++
			a, isAlloc := fa.X.(*ssa.Alloc)
			if !(isAlloc && len(NewResolver(p).cellStores(a)) == 0) {
				bad = p.InstrPos(in)
			}
		})
	}
	c.Cond(bad == "" && nst >= 1, "callback-pipeline", name+": filter bound is immutable configuration", p.InstrPos(hand), "the bound is set only when the callback object is built", "the time bound of the filter is rewritten at run time ("+bad+"): events that arrive out of time order are silently skipped")
	// the callback does not rewrite the coalesced event before the hand-over
	nrew := 0
	allInstrs(fn, func(in ssa.Instruction) {
		var addr ssa.Value
		switch x := in.(type) {
		case *ssa.Store:
			addr = x.Addr
		case *ssa.MapUpdate:
			addr = x.Map
		default:
			return
		}
		cur := addr
		for {
			switch y := cur.(type) {
			case *ssa.FieldAddr:
				cur = y.X
				continue
			case *ssa.IndexAddr:
				cur = y.X
				continue
			case *ssa.UnOp:
				cur = y.X
				continue
			}
			break
		}
		if sameValue(r.Of(cur), arg) {
			nrew++
			c.Bad("callback-pipeline", name+": store into the coalesced event ("+trimOrg(r.Of(addr).String())+")", p.InstrPos(in), "the callback rewrites a field of the event before the correlator sees it: what the correlator filters on (session, type, PID) is no longer what the kernel recorded")
		}
	})
	// ... nor hands it to a repository helper that does
	for _, ci := range callsIn(fn) {
		sc := staticCallee(ci.Common())
		if sc == nil || !InRepo(sc) || sc.Blocks == nil {
			continue
		}
		for i, a := range ci.Common().Args {
			if i < len(sc.Params) && sameValue(r.Of(a), arg) {
				if at := storesIntoParam(p, sc, sc.Params[i], 0); at != "" {
					nrew++
					c.Bad("callback-pipeline", name+": helper "+sc.Name()+" rewrites the coalesced event", p.InstrPos(ci), "a helper called before the hand-over stores into the event ("+at+"): what the correlator filters on (session, type, PID) is no longer what the kernel recorded")
				}
			}
		}
	}
	if nrew == 0 {
		c.OK("callback-pipeline", name+": event handed over as coalesced", p.InstrPos(hand), "no store into the event between coalescing and the hand-over")
	}
	// coalesce error path does not hand over
	var cerr ssa.Value
	if rr := co.Referrers(); rr != nil {
		for _, u := range *rr {
			if ex, ok := u.(*ssa.Extract); ok && ex.Index == 1 {
				cerr = ex
			}
		}
	}
	if cerr != nil {
		nn, _, _ := errEdge(cerr)
		if nn != nil {
			bad := blockReachesInstr(nn, func(in ssa.Instruction) bool { return in == ssa.Instruction(hand) }, nil)
			c.Cond(bad == nil, "callback-pipeline", name+": coalesce failure", p.InstrPos(co), "no hand-over after a coalesce error", "an event is handed over although coalescing failed")
		}
	}
}

// storesIntoParam: does fn (or a repository callee or closure the value is
// passed to) store into memory reached from the root value (a parameter or
// a free variable)? Struct copies are followed: a store through a slice,
// map or pointer loaded from a copy of the pointee writes the shared
// storage. Returns a position, or "".
func storesIntoParam(p *Prog, fn *ssa.Function, root ssa.Value, depth int) string {
	if depth > 4 || fn == nil || fn.Blocks == nil {
		return ""
	}
	var derives func(v ssa.Value, seen map[ssa.Value]bool) bool
	// walk follows an address/value expression down to its base; derefs
	// counts the loads passed on the way; path is the field path between
	// the base and the load nearest to it (nil when it is not a pure field
	// path), and load that load.
	type walked struct {
		base   ssa.Value
		derefs int
		path   []int
		pure   bool
		load   *ssa.UnOp
	}
	walk := func(v ssa.Value) walked {
		w := walked{pure: true}
		cur := v
		for {
			switch y := cur.(type) {
			case *ssa.FieldAddr:
				w.path = append(w.path, y.Field)
				cur = y.X
				continue
			case *ssa.IndexAddr:
				w.pure = false
				cur = y.X
				continue
			case *ssa.Field:
				w.path = append(w.path, y.Field)
				cur = y.X
				continue
			case *ssa.Slice:
				cur = y.X
				continue
			case *ssa.ChangeType:
				cur = y.X
				continue
			case *ssa.Call:
				// append(base, ...) may return base's storage
				if bi, ok := y.Call.Value.(*ssa.Builtin); ok && bi.Name() == "append" && len(y.Call.Args) > 0 {
					cur = y.Call.Args[0]
					continue
				}
			case *ssa.UnOp:
				if y.Op == token.MUL {
					w.derefs++
					w.path, w.pure, w.load = nil, true, y
					cur = y.X
					continue
				}
			}
			w.base = cur
			return w
		}
	}
	samePath := func(a, b []int) bool {
		if len(a) != len(b) {
			return false
		}
		for i := range a {
			if a[i] != b[i] {
				return false
			}
		}
		return true
	}
	// allocShares: memory loaded from the local variable a at field path
	// (by the load instruction) is storage reachable from root. A store to
	// the same field that dominates the load replaces the copied value.
	allocShares := func(a *ssa.Alloc, path []int, pure bool, load *ssa.UnOp, seen map[ssa.Value]bool) bool {
		rr := a.Referrers()
		if rr == nil {
			return false
		}
		type fst struct {
			st *ssa.Store
		}
		var overwrites []*ssa.Store
		if pure && load != nil && len(path) > 0 {
			for _, blk := range a.Parent().Blocks {
				for _, in := range blk.Instrs {
					st, ok := in.(*ssa.Store)
					if !ok {
						continue
					}
					// address is a pure field path on a
					var sp []int
					cur := st.Addr
					okp := true
					for {
						if fa, isFA := cur.(*ssa.FieldAddr); isFA {
							sp = append(sp, fa.Field)
							cur = fa.X
							continue
						}
						break
					}
					if cur != ssa.Value(a) || !okp || !samePath(sp, path) {
						continue
					}
					overwrites = append(overwrites, st)
				}
			}
		}
		for _, st := range overwrites {
			if dominatesInstr(st, load) {
				// the loaded value is what was stored here (or by a later overwrite)
				for _, o := range overwrites {
					if derives(o.Val, seen) {
						return true
					}
				}
				return false
			}
		}
		for _, u := range *rr {
			if st, ok := u.(*ssa.Store); ok && st.Addr == ssa.Value(a) && derives(st.Val, seen) {
				return true
			}
		}
		for _, o := range overwrites {
			if derives(o.Val, seen) {
				return true
			}
		}
		return false
	}
	derives = func(v ssa.Value, seen map[ssa.Value]bool) bool {
		if seen[v] {
			return false
		}
		seen[v] = true
		w := walk(v)
		if w.base == root {
			return true
		}
		switch b := w.base.(type) {
		case *ssa.Alloc:
			return allocShares(b, w.path, w.pure, w.load, seen)
		case *ssa.Phi:
			for _, e := range b.Edges {
				if derives(e, seen) {
					return true
				}
			}
		}
		return false
	}
	// writesShared: a store through addr writes memory reachable from root
	writesShared := func(addr ssa.Value) bool {
		w := walk(addr)
		if w.base == root {
			switch root.Type().Underlying().(type) {
			case *types.Pointer, *types.Slice, *types.Map:
				return true
			}
			return w.derefs > 0
		}
		switch b := w.base.(type) {
		case *ssa.Alloc:
			if w.derefs == 0 {
				return false // the local variable itself
			}
			return allocShares(b, w.path, w.pure, w.load, map[ssa.Value]bool{})
		case *ssa.Phi:
			return derives(b, map[ssa.Value]bool{})
		}
		return false
	}
	found := ""
	allInstrs(fn, func(in ssa.Instruction) {
		switch x := in.(type) {
		case *ssa.Store:
			if writesShared(x.Addr) {
				found = p.InstrPos(in)
			}
		case *ssa.MapUpdate:
			if derives(x.Map, map[ssa.Value]bool{}) {
				found = p.InstrPos(in)
			}
		case *ssa.MakeClosure:
			cf, ok := x.Fn.(*ssa.Function)
			if !ok {
				return
			}
			for i, b := range x.Bindings {
				if i < len(cf.FreeVars) && derives(b, map[ssa.Value]bool{}) {
					if at := storesIntoParam(p, cf, cf.FreeVars[i], depth+1); at != "" {
						found = at
					}
				}
			}
		case ssa.CallInstruction:
			var callees []*ssa.Function
			if sc := staticCallee(x.Common()); sc != nil {
				callees = []*ssa.Function{sc}
			} else {
				callees = p.dynCallees(x)
			}
			args := x.Common().Args
			if x.Common().IsInvoke() {
				args = append([]ssa.Value{x.Common().Value}, args...)
			}
			for _, sc := range callees {
				if !InRepo(sc) || sc.Blocks == nil {
					continue
				}
				for i, a := range args {
					if i < len(sc.Params) && derives(a, map[ssa.Value]bool{}) {
						if at := storesIntoParam(p, sc, sc.Params[i], depth+1); at != "" {
							found = at
						}
					}
				}
			}
		}
	})
	return found
}

// holdsType: a value of type tp can hold (store) a value of a type accepted
// by match: directly, through pointers, slices, arrays, maps, the type
// arguments of a generic container, or the fields of repository structs.
// Channels, functions and interfaces are not storage.
func holdsType(tp types.Type, match func(*types.Named) bool, depth int) bool {
	if depth > 6 {
		return false
	}
	switch u := tp.(type) {
	case *types.Named:
		if match(u) {
			return true
		}
		if ta := u.TypeArgs(); ta != nil {
			for i := 0; i < ta.Len(); i++ {
				if holdsType(ta.At(i), match, depth+1) {
					return true
				}
			}
		}
		if u.Obj().Pkg() == nil || !strings.HasPrefix(u.Obj().Pkg().Path(), ModPath) {
			return false
		}
		if st, isStruct := u.Underlying().(*types.Struct); isStruct {
			for i := 0; i < st.NumFields(); i++ {
				if holdsType(st.Field(i).Type(), match, depth+1) {
					return true
				}
			}
			return false
		}
		return holdsType(u.Underlying(), match, depth+1)
	case *types.Pointer:
		return holdsType(u.Elem(), match, depth+1)
	case *types.Slice:
		return holdsType(u.Elem(), match, depth+1)
	case *types.Array:
		return holdsType(u.Elem(), match, depth+1)
	case *types.Map:
		return holdsType(u.Elem(), match, depth+1) || holdsType(u.Key(), match, depth+1)
	}
	return false
}

// loginEventNotRetained: the sshd side hands the login's event over and
// keeps no reference to it. A field of the long-lived sshd processor (or a
// package-level variable of its package) that can store events or logins
// lets a later line reach, and alter, the object the correlator renders
// every event of the session from.
func loginEventNotRetained(c *Check) {
	p := c.P
	pk := p.RepoPkg(pkgSshd)
	if !c.Anchor("package "+pkgSshd, pk != nil) {
		return
	}
	match := func(n *types.Named) bool {
		if n.Obj().Pkg() == nil {
			return false
		}
		switch {
		case n.Obj().Name() == "AuditEvent" && strings.HasSuffix(n.Obj().Pkg().Path(), "metal-toolbox/auditevent"):
			return true
		case n.Obj().Name() == "RemoteUserLogin" && strings.HasSuffix(n.Obj().Pkg().Path(), "/internal/common"):
			return true
		}
		return false
	}
	nf := 0
	scope := pk.Pkg.Scope()
	for _, name := range scope.Names() {
		switch o := scope.Lookup(name).(type) {
		case *types.TypeName:
			st, ok := o.Type().Underlying().(*types.Struct)
			if !ok {
				continue
			}
			for i := 0; i < st.NumFields(); i++ {
				nf++
				f := st.Field(i)
				c.Cond(!holdsType(f.Type(), match, 0), "login-event-not-retained", "field "+name+"."+f.Name(), p.Pos(f.Pos()), "cannot store an event or a login", "a field of a type of the sshd processor can keep events or logins ("+typeName(f.Type())+"): the event handed over with a login stays reachable from the sshd side, and a later line that alters it changes the identity content of the session's events")
			}
		case *types.Var:
			nf++
			c.Cond(!holdsType(o.Type(), match, 0), "login-event-not-retained", "package-level variable "+name, p.Pos(o.Pos()), "cannot store an event or a login", "a package-level variable of the sshd processor can keep events or logins ("+typeName(o.Type())+")")
		}
	}
	c.Floor("fields and variables of the sshd package examined", 10, nf)
}
