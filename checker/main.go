// amcheck decides the properties of /verif/properties.jsonl for the
// audito-maldito repository by static analysis of its current source.
package main

import (
	"encoding/json"
	"flag"
	"fmt"
	"os"
	"runtime/debug"
	"sort"
	"strings"

	"golang.org/x/tools/go/ssa"
)

type checkFn func(c *Check)

type propDef struct {
	Level string
	Run   checkFn
}

var registry = map[string]propDef{}

func register(id, level string, fn checkFn) { registry[id] = propDef{level, fn} }

var debugHooks []func(*Prog)

func main() {
	var (
		prop   = flag.String("p", "", "property id (C01..C20)")
		tier   = flag.String("tier", "quick", "quick|thorough")
		repo   = flag.String("repo", "/repo", "repository root")
		out    = flag.String("out", "/verif/evidence", "evidence directory")
		known  = flag.String("known", "/verif/known_findings.json", "known findings file")
		goarch = flag.String("goarch", "", "GOARCH of the analysed configuration")
		tags   = flag.String("tags", "", "build tags of the analysed configuration")
		dump   = flag.String("dump", "", "debug: dump SSA of functions whose name contains this")
		graph  = flag.String("graph", "vta", "call graph for cones: vta|cha")
		merge  = flag.String("merge", "", "JSON file whose content is recorded under coverage.thorough_extras")
	)
	events := flag.Bool("events", false, "debug: print event slots at every emit site")
	flag.Parse()
	if os.Getenv("AMDEBUG") != "" && len(debugHooks) > 0 && *events {
		p, err := Load(LoadOpts{Repo: *repo, GOARCH: *goarch, Tags: *tags})
		if err != nil {
			fmt.Println(err)
			os.Exit(2)
		}
		for _, h := range debugHooks {
			h(p)
		}
		return
	}
	if *events {
		p, err := Load(LoadOpts{Repo: *repo, GOARCH: *goarch, Tags: *tags})
		if err != nil {
			fmt.Println(err)
			os.Exit(2)
		}
		for _, es := range EmitSites(p) {
			fmt.Printf("== %s in %s\n", p.InstrPos(es.Call), funcDisplayName(es.Fn))
			ev := ExtractEvent(p, NewResolver(p), es.Event, es.Call)
			for _, n := range ev.Names() {
				var parts []string
				for _, c := range ev.EffectiveSrcs(p, n) {
					parts = append(parts, c.String())
				}
				fmt.Printf("   %-28s %s\n", n, strings.Join(parts, " | "))
			}
			for _, u := range ev.Unknown {
				fmt.Printf("   UNKNOWN %s\n", u)
			}
		}
		return
	}
	if *dump != "" {
		p, err := Load(LoadOpts{Repo: *repo, GOARCH: *goarch, Tags: *tags})
		if err != nil {
			fmt.Println(err)
			os.Exit(2)
		}
		for _, fn := range p.AllRepoFuncs() {
			if strings.Contains(fn.String(), *dump) {
				fn.WriteTo(os.Stdout)
			}
		}
		return
	}
	def, ok := registry[*prop]
	if !ok {
		ids := []string{}
		for k := range registry {
			ids = append(ids, k)
		}
		sort.Strings(ids)
		fmt.Printf("unknown property %q; have %v\n", *prop, ids)
		os.Exit(2)
	}
	cmdline := "/verif/run.sh " + *prop + " " + *tier
	p, err := Load(LoadOpts{Repo: *repo, GOARCH: *goarch, Tags: *tags})
	if err != nil {
		// A tree that does not load cannot be decided: fail closed.
		fmt.Printf("LOAD FAILURE: %v\n", err)
		fmt.Printf("VIOLATION property=%s replay=%s\n", *prop, "(load failure; rerun: "+cmdline+")")
		os.Exit(1)
	}
	useCHA = *graph == "cha"
	c := NewCheck(*prop, def.Level, *tier, p)
	func() {
		defer func() {
			if r := recover(); r != nil {
				c.Unk("checker-panic", fmt.Sprint(r), "-", string(debug.Stack()))
			}
		}()
		def.Run(c)
	}()
	if *merge != "" {
		if b, err := os.ReadFile(*merge); err == nil {
			var v any
			if json.Unmarshal(b, &v) == nil {
				c.Extra["thorough_extras"] = v
			} else {
				c.Extra["thorough_extras"] = string(b)
			}
		}
	}
	if s := os.Getenv("VERIF_SEED"); s != "" {
		c.Note("VERIF_SEED=%s given; the analysis makes no random choices", s)
	}
	os.Exit(c.Finish(*out, *known, cmdline))
}

var useCHA bool

var _ = ssa.NaiveForm
