package main

import (
	"fmt"
	"go/token"
	"go/types"
	"os"
	"sort"
	"strings"

	"golang.org/x/tools/go/ssa"
)

const pkgTracker = "processors/auditd/sessiontracker"

func init() { register("C03", "proof", checkC03) }

// trackerEntryPoints: exported methods of the tracker type plus the
// methods of the Auditor interface.
func trackerEntryPoints(c *Check) (*types.Named, []*ssa.Function) {
	p := c.P
	pk := p.RepoPkg(pkgTracker)
	if !c.Anchor("package "+pkgTracker, pk != nil) {
		return nil, nil
	}
	tt := pk.Type("sessionTracker")
	if !c.Anchor("type sessiontracker.sessionTracker", tt != nil) {
		return nil, nil
	}
	named := tt.Type().(*types.Named)
	want := map[string]bool{}
	if it := pk.Type("Auditor"); it != nil {
		if iface, ok := it.Type().Underlying().(*types.Interface); ok {
			for i := 0; i < iface.NumMethods(); i++ {
				want[iface.Method(i).Name()] = true
			}
		}
	}
	var eps []*ssa.Function
	ms := p.SSA.MethodSets.MethodSet(types.NewPointer(named))
	for i := 0; i < ms.Len(); i++ {
		m := ms.At(i).Obj()
		if m.Exported() || want[m.Name()] {
			if f := p.SSA.MethodValue(ms.At(i)); f != nil {
				eps = append(eps, f)
			}
		}
	}
	sort.Slice(eps, func(i, j int) bool { return eps[i].Name() < eps[j].Name() })
	return named, eps
}

func checkC03(c *Check) {
	p := c.P
	c.Explanation = "Lock-discipline proof obligations for the session tracker: S1 entry points discovered; S2 every shared access of an entry point's inlined cone holds one tracker-level mutex L, acquired at most once per activation (one critical section per delivery), same L for all entry points; S3 tracker state is not touched outside those cones; S4 every raw access to a GenericSyncMap's inner map holds that same map's mutex (covers the unlocked DeleteUnsafe by inlining it into its callers' lock context); S5 the held->acquired lock graph has no self-edge and no cycle; S6 no blocking operation runs under a lock. S2+S3 make each delivery a single critical section of L, hence every concurrent execution equals the serial execution in L-acquisition order; S2+S4 give data-race freedom; S5+S6 deadlock freedom."
	c.Rule("S1 entry-points: exported/interface methods of sessionTracker (floor 4)")
	c.Rule("S2 one-critical-section: every map operation, raw map access and user-field access in the inlined cone of an entry point has the tracker mutex L in its must-lockset; L is acquired at most once on any path (no second critical section); L identical across entry points")
	c.Rule("S3 no-outside-access: tracker map fields, user fields and unexported tracker methods are referenced only inside the entry-point cones (constructor stores excepted)")
	c.Rule("S4 map-discipline: each raw access to GenericSyncMap.m has <that map>.mtx in its must-lockset")
	c.Rule("S5 lock-order: held->acquired graph acyclic and without self-edge")
	c.Rule("S7 login-event-read-only: the correlator never writes through RemoteUserLogin.Source (the event object is shared with the sshd worker that produced it and that may still be encoding it; the tracker mutex does not cover that worker)")
	c.Rule("S6 no-blocking-under-lock: no send/receive/blocking select/sleep/Wait with a non-empty lockset")
	c.Trust("Go memory model: sync.Mutex Unlock happens-before the next Lock", "go/ssa v0.29.0 construction, go/types", "go-libaudit invokes stream callbacks outside its own lock (reassembler.go callback())", "dependency code called under a lock (auditevent encoder, zap, fmt) does not call back into the repository (checked in the thorough tier through the call graph)")
	c.Assume("no reflection/unsafe/linkname in repository packages (scanned on every run)", "panics are not recovered inside the cone (a panic under a deferred unlock releases the lock)")

	named, eps := trackerEntryPoints(c)
	if named == nil {
		return
	}
	c.Floor("S1 tracker entry points", 4, len(eps))
	w := NewLockWalker(p)
	w.SharedT[ModPath+"/"+pkgTracker+".user"] = true
	perEP := map[string][]LEvent{}
	for _, ep := range eps {
		before := len(w.Events)
		w.RunEntry(ep, ep.Name())
		perEP[ep.Name()] = w.Events[before:]
		c.OK("S1 entry-point", "sessionTracker."+ep.Name(), p.Pos(ep.Pos()), "exported or Auditor-interface method of the tracker type")
	}
	for f := range w.Visited {
		c.Fn(funcDisplayName(f))
	}

	// S2: determine L per entry point
	nEmit := 0
	Ls := map[string]string{}
	for _, ep := range eps {
		evs := perEP[ep.Name()]
		var cand map[string]bool
		nacc := 0
		for _, e := range evs {
			if e.Kind != "mapop" && e.Kind != "rawmap" && e.Kind != "field" {
				continue
			}
			nacc++
			h := map[string]bool{}
			for _, l := range e.Held {
				if isTrackerLevelLock(l) {
					h[l] = true
				}
			}
			if cand == nil {
				cand = h
			} else {
				for k := range cand {
					if !h[k] {
						delete(cand, k)
					}
				}
			}
		}
		var L string
		for k := range cand {
			if L == "" || k < L {
				L = k
			}
		}
		Ls[ep.Name()] = L
		if nacc == 0 {
			// an accessor that touches no shared state: every field of the
			// tracker it reads is set once, when the tracker is built
			constOnly := true
			what := ""
			for f := range w.Visited {
				_ = f
			}
			allInstrs(ep, func(in ssa.Instruction) {
				fa, ok := in.(*ssa.FieldAddr)
				if !ok {
					return
				}
				nt := namedOf(fa.X.Type())
				if nt == nil || nt.Obj() != named.Obj() {
					return
				}
				if !p.fieldOnlyInitialised(nt, fa.Field) {
					constOnly = false
					what = fieldName(fa.X.Type(), fa.Field)
				}
				// a field that refers to shared mutable state (a map, a
				// pointer, a slice, a channel, an interface) hands that state
				// out: not a plain accessor
				if ft := deref(fa.Type()); ft != nil {
					if !plainValueType(ft, 0) {
						constOnly = false
						what = fieldName(fa.X.Type(), fa.Field) + " (refers to shared state)"
					}
				}
			})
			hasCalls := false
			for _, ci := range callsIn(ep) {
				if sc := staticCallee(ci.Common()); sc != nil && InRepo(sc) {
					hasCalls = true
				}
			}
			if constOnly && !hasCalls {
				c.OK("S2 one-critical-section", "sessionTracker."+ep.Name(), p.Pos(ep.Pos()), "read-only accessor of fields fixed at construction: no shared state touched, no lock needed")
				delete(Ls, ep.Name())
				continue
			}
			c.Unk("S2 one-critical-section", "sessionTracker."+ep.Name(), p.Pos(ep.Pos()), "entry point performs no recognised shared access but reads "+what+" or calls repository code: cone not understood")
			continue
		}
		for _, e := range evs {
			switch e.Kind {
			case "mapop", "rawmap", "field":
				construct := fmt.Sprintf("%s: %s %s %s in %s", ep.Name(), e.Kind, e.What, e.Detail, e.Fn)
				if L != "" && contains(e.Held, L) {
					c.OK("S2 one-critical-section", construct, e.Pos, "held "+strings.Join(e.Held, ",")+" via "+strings.Join(e.Stack, " > "))
				} else {
					o := Obl{Rule: "S2 one-critical-section", Construct: construct, Pos: e.Pos, Verdict: Violated,
						Fact:  "shared tracker state accessed without a tracker-level mutex held continuously by this delivery (held: [" + strings.Join(e.Held, ",") + "]); a concurrent delivery can interleave between this access and the others of the same entry point",
						Entry: strings.Join(e.Stack, " > ")}
					c.Obls = append(c.Obls, o)
				}
			case "call-ext":
				if e.What != "(*github.com/metal-toolbox/auditevent.EventWriter).Write" {
					continue
				}
				nEmit++
				construct := fmt.Sprintf("%s: emit (EventWriter.Write) in %s", ep.Name(), e.Fn)
				if L != "" && contains(e.Held, L) {
					c.OK("S2 emit-inside-critical-section", construct, e.Pos, "held "+strings.Join(e.Held, ","))
				} else {
					o := Obl{Rule: "S2 emit-inside-critical-section", Construct: construct, Pos: e.Pos, Verdict: Violated,
						Fact:  "an event is written outside the delivery's critical section (held: [" + strings.Join(e.Held, ",") + "]): a concurrent delivery can emit events of the same session in between, so the emitted order equals no sequential order of the deliveries",
						Entry: strings.Join(e.Stack, " > ")}
					c.Obls = append(c.Obls, o)
				}
			case "acquire":
				if e.Detail == "shared" && (e.What == L || isTrackerLevelLock(e.What)) {
					c.Bad("S2 one-critical-section", fmt.Sprintf("%s: %s taken in shared (read) mode in %s", ep.Name(), e.What, e.Fn), e.Pos, "deliveries that hold the tracker mutex in shared mode run concurrently with each other: a delivery that stores a session, binds a login or writes events is not a critical section any more, and the emitted order equals no sequential order of the deliveries")
				}
			case "secondcs":
				if e.What == L || isTrackerLevelLock(e.What) {
					c.Bad("S2 one-critical-section", fmt.Sprintf("%s: second acquisition of %s in %s", ep.Name(), e.What, e.Fn), e.Pos, "the delivery is split into two critical sections of "+e.What+" (lock acquired again on a path that already acquired and released it)")
				}
			case "undecided":
				c.Unk("S2 lock-walk", fmt.Sprintf("%s: %s in %s", ep.Name(), e.What, e.Fn), e.Pos, "unrecognised locking idiom; stack "+strings.Join(e.Stack, " > "))
			}
		}
		// L acquired exactly by this activation (not inherited): there is an acquire event of L
		if L != "" {
			n := 0
			for _, e := range evs {
				if e.Kind == "acquire" && e.What == L {
					n++
				}
			}
			c.Cond(n >= 1, "S2 L-acquired-by-delivery", "sessionTracker."+ep.Name()+" acquires "+L, p.Pos(ep.Pos()), fmt.Sprintf("%d acquisition site(s), at most one per path", n), "no acquisition of L found")
		}
	}
	c.Floor("S2 emit sites inside tracker cones", 3, nEmit)
	// every emit site of the package lies in a cone
	for _, es := range EmitSites(p) {
		if FuncPkgPath(es.Fn) == ModPath+"/"+pkgTracker && !w.Visited[es.Fn] {
			c.Bad("S2 emit-inside-critical-section", "emit in "+funcDisplayName(es.Fn)+" outside every entry-point cone", p.InstrPos(es.Call), "event written by a function that no locked entry point reaches")
		}
	}
	// same L
	uniq := map[string]bool{}
	for _, l := range Ls {
		uniq[l] = true
	}
	ll := []string{}
	for k := range uniq {
		ll = append(ll, k)
	}
	sort.Strings(ll)
	c.Cond(len(uniq) == 1 && ll[0] != "", "S2 same-L", "all entry points use one tracker-level mutex", "-", "L = "+strings.Join(ll, ","), "entry points do not share one tracker-level mutex: "+fmt.Sprint(Ls))

	// S4 map discipline
	nraw := 0
	for _, e := range w.Events {
		if e.Kind != "rawmap" {
			continue
		}
		nraw++
		need := e.What + ".mtx"
		construct := fmt.Sprintf("%s: raw %s.%s in %s", e.EP, e.What, e.Detail, e.Fn)
		if contains(e.Held, need) {
			c.OK("S4 map-discipline", construct, e.Pos, "held "+need)
		} else {
			o := Obl{Rule: "S4 map-discipline", Construct: construct, Pos: e.Pos, Verdict: Violated,
				Fact: "inner map accessed without " + need + " (held: [" + strings.Join(e.Held, ",") + "])", Entry: strings.Join(e.Stack, " > ")}
			c.Obls = append(c.Obls, o)
		}
	}
	c.Floor("S4 raw map accesses in tracker cones", 10, nraw)

	// S5 lock order
	if os.Getenv("AMDEBUG") == "locks" {
		for _, e := range w.Events {
			if e.Kind == "acquire" || e.Kind == "reacquire" || e.Kind == "release" || e.Kind == "undecided" {
				fmt.Println("LOCKEV", e.EP, e.Kind, e.What, e.Pos, e.Held, strings.Join(e.Stack, ">"))
			}
		}
	}
	edges := map[string]map[string]string{}
	for _, e := range w.Events {
		switch e.Kind {
		case "reacquire":
			o := Obl{Rule: "S5 lock-order", Construct: fmt.Sprintf("%s: self-edge %s in %s", e.EP, e.What, e.Fn), Pos: e.Pos, Verdict: Violated,
				Fact: "non-reentrant mutex " + e.What + " acquired while already held" + map[bool]string{true: " (on a path reaching this call, e.g. the first visit of a callback run under the lock)", false: ""}[e.Detail == "may"] + ": the delivery deadlocks on itself", Entry: strings.Join(e.Stack, " > ")}
			c.Obls = append(c.Obls, o)
		case "acquire":
			for _, h := range e.Held {
				if edges[h] == nil {
					edges[h] = map[string]string{}
				}
				if _, ok := edges[h][e.What]; !ok {
					edges[h][e.What] = e.Pos + " (" + e.EP + ")"
				}
			}
		}
	}
	var edgeList []string
	for a, m := range edges {
		for b, pos := range m {
			edgeList = append(edgeList, a+" -> "+b+" @ "+pos)
		}
	}
	sort.Strings(edgeList)
	c.Extra["lock_order_edges"] = edgeList
	if cyc := findCycle(edges); cyc != nil {
		c.Bad("S5 lock-order", "cycle "+strings.Join(cyc, " -> "), "-", "two deliveries acquiring these locks in opposite order can deadlock")
	} else {
		c.OK("S5 lock-order", "held->acquired graph", "-", fmt.Sprintf("%d edge(s), acyclic: %s", len(edgeList), strings.Join(edgeList, "; ")))
	}

	// S6 blocking under lock
	nblk := 0
	for _, e := range w.Events {
		if e.Kind != "block" {
			continue
		}
		nblk++
		construct := fmt.Sprintf("%s: %s in %s", e.EP, e.What, e.Fn)
		if len(e.Held) == 0 {
			c.OK("S6 no-blocking-under-lock", construct, e.Pos, "no lock held")
		} else {
			o := Obl{Rule: "S6 no-blocking-under-lock", Construct: construct, Pos: e.Pos, Verdict: Violated,
				Fact: "blocking operation executed while holding [" + strings.Join(e.Held, ",") + "]", Entry: strings.Join(e.Stack, " > ")}
			c.Obls = append(c.Obls, o)
		}
	}
	c.OK("S6 no-blocking-under-lock", "scan of all cones", "-", fmt.Sprintf("%d blocking operation(s) found in the cones of the entry points", nblk))

	// S3 no outside access
	checkNoOutsideAccess(c, named, w)
	// S7 the event handed over with a login stays the producer's
	loginEventReadOnly(c)
	// the deliveries reach the tracker in stream order: the reassembler's
	// callback hands every event over itself, synchronously (rules of C15 on
	// the callback: no queue or second goroutine between the two)
	nd := importRules(c, "C15", checkC15, "deliveries-in-stream-order: ", "event-reaches-correlator")
	c.Floor("imported deliveries-in-stream-order obligations", 2, nd)

	// informational: who calls the entry points
	callers := map[string][]string{}
	g := p.VTA()
	for _, ep := range eps {
		if n := g.Nodes[ep]; n != nil {
			for _, in := range n.In {
				if InRepo(in.Caller.Func) {
					callers[ep.Name()] = append(callers[ep.Name()], funcDisplayName(in.Caller.Func))
				}
			}
		}
	}
	c.Extra["entry_point_callers"] = callers

	if c.Tier == "thorough" {
		reentryCheck(c, w)
	}
}

func isTrackerLevelLock(l string) bool {
	// recv.<field>: exactly one selection from the receiver
	if !strings.HasPrefix(l, "recv.") {
		return false
	}
	return strings.Count(l, ".") == 1
}

func contains(xs []string, s string) bool {
	for _, x := range xs {
		if x == s {
			return true
		}
	}
	return false
}

func findCycle(edges map[string]map[string]string) []string {
	color := map[string]int{}
	var stack []string
	var cyc []string
	var dfs func(n string) bool
	dfs = func(n string) bool {
		color[n] = 1
		stack = append(stack, n)
		var succ []string
		for m := range edges[n] {
			succ = append(succ, m)
		}
		sort.Strings(succ)
		for _, m := range succ {
			if color[m] == 1 {
				for i, s := range stack {
					if s == m {
						cyc = append(append([]string{}, stack[i:]...), m)
					}
				}
				return true
			}
			if color[m] == 0 && dfs(m) {
				return true
			}
		}
		stack = stack[:len(stack)-1]
		color[n] = 2
		return false
	}
	var nodes []string
	for n := range edges {
		nodes = append(nodes, n)
	}
	sort.Strings(nodes)
	for _, n := range nodes {
		if color[n] == 0 && dfs(n) {
			return cyc
		}
	}
	return nil
}

// checkNoOutsideAccess (S3): every function that touches tracker maps,
// user fields or calls unexported tracker/user methods is inside a cone.
func checkNoOutsideAccess(c *Check, tracker *types.Named, w *LockWalker) {
	p := c.P
	pk := p.RepoPkg(pkgTracker)
	userT := pk.Type("user")
	if !c.Anchor("type sessiontracker.user", userT != nil) {
		return
	}
	n := 0
	for _, fn := range p.AllRepoFuncs() {
		if w.Visited[fn] {
			continue
		}
		allInstrs(fn, func(in ssa.Instruction) {
			switch x := in.(type) {
			case *ssa.FieldAddr:
				nt := namedOf(x.X.Type())
				if nt == nil {
					return
				}
				if nt.Obj() == tracker.Obj() || nt.Obj() == userT.Object() {
					fname := fieldName(x.X.Type(), x.Field)
					// constructor initialisation of a fresh object is fine
					if a, ok := x.X.(*ssa.Alloc); ok && len(NewResolver(p).cellStores(a)) == 0 {
						stores, other := 0, 0
						if rr := x.Referrers(); rr != nil {
							for _, u := range *rr {
								if st, ok := u.(*ssa.Store); ok && st.Addr == x {
									stores++
								} else {
									other++
								}
							}
						}
						if other == 0 {
							c.OK("S3 no-outside-access", fmt.Sprintf("%s initialises %s.%s of a fresh object", funcDisplayName(fn), nt.Obj().Name(), fname), p.InstrPos(in), "store into an unpublished allocation")
							n++
							return
						}
					}
					if nt.Obj() == tracker.Obj() && (fname == "eventWriter" || fname == "l") {
						return // immutable after construction, checked below
					}
					c.Bad("S3 no-outside-access", fmt.Sprintf("%s touches %s.%s", funcDisplayName(fn), nt.Obj().Name(), fname), p.InstrPos(in), "tracker state accessed by a function that is not in the cone of a locked entry point")
				}
			case ssa.CallInstruction:
				sc := staticCallee(x.Common())
				if sc == nil || sc.Signature.Recv() == nil {
					return
				}
				rt := namedOf(sc.Signature.Recv().Type())
				if rt == nil {
					return
				}
				if (rt.Obj() == tracker.Obj() || rt.Obj() == userT.Object()) && !token.IsExported(sc.Name()) {
					c.Bad("S3 no-outside-access", fmt.Sprintf("%s calls %s", funcDisplayName(fn), funcDisplayName(sc)), p.InstrPos(in), "unexported tracker method called from outside the locked entry points")
				}
			}
		})
	}
	// immutable fields: no store to sessionTracker fields outside fresh objects
	for _, fn := range p.AllRepoFuncs() {
		allInstrs(fn, func(in ssa.Instruction) {
			st, ok := in.(*ssa.Store)
			if !ok {
				return
			}
			fa, ok := st.Addr.(*ssa.FieldAddr)
			if !ok {
				return
			}
			nt := namedOf(fa.X.Type())
			if nt == nil || nt.Obj() != tracker.Obj() {
				return
			}
			if a, ok := fa.X.(*ssa.Alloc); ok && len(NewResolver(p).cellStores(a)) == 0 {
				return
			}
			c.Bad("S3 tracker-fields-immutable", fmt.Sprintf("%s stores sessionTracker.%s", funcDisplayName(fn), fieldName(fa.X.Type(), fa.Field)), p.InstrPos(in), "a tracker field (map pointer, writer, mutex) is reassigned after construction")
		})
	}
	c.OK("S3 no-outside-access", "scan of all repository functions outside the cones", "-", fmt.Sprintf("%d fresh-object initialisations, no other access", n))
}

// reentryCheck (thorough, VTA graph only): dependency functions called
// while a lock is held must not reach, through the call graph, a
// repository function that acquires a mutex (the tracker entry points and
// the locked-map methods): that would be a re-entrant delivery.
// Under CHA every io.Closer.Close() resolves to (*Reassembler).Close and
// every error.Error() to every Error method of the program, so the
// question is only meaningful on the type-flow (VTA) graph.
func reentryCheck(c *Check, w *LockWalker) {
	p := c.P
	if useCHA {
		c.Note("re-entry check skipped under the CHA graph (see DESIGN.md, C03 S6)")
		return
	}
	g := p.VTA()
	lockers := map[*ssa.Function]bool{}
	for _, fn := range p.AllRepoFuncs() {
		allInstrs(fn, func(in ssa.Instruction) {
			if ci, ok := in.(ssa.CallInstruction); ok && w.isLock(ci.Common()) {
				lockers[fn] = true
			}
		})
	}
	n := 0
	var names []string
	byName := map[string]*ssa.Function{}
	for f := range w.extFns {
		names = append(names, f.String())
		byName[f.String()] = f
	}
	sort.Strings(names)
	for _, name := range names {
		f := byName[name]
		held := w.ExtCalls[name]
		if len(held) == 0 {
			continue
		}
		n++
		seen := map[*ssa.Function]bool{f: true}
		parent := map[*ssa.Function]*ssa.Function{}
		work := []*ssa.Function{f}
		var hit *ssa.Function
		for len(work) > 0 && hit == nil {
			x := work[0]
			work = work[1:]
			node := g.Nodes[x]
			if node == nil {
				continue
			}
			for _, e := range node.Out {
				cal := e.Callee.Func
				if seen[cal] {
					continue
				}
				seen[cal] = true
				parent[cal] = x
				if lockers[cal] {
					hit = cal
					break
				}
				work = append(work, cal)
			}
		}
		if hit != nil {
			var path []string
			for x := hit; x != nil; x = parent[x] {
				path = append([]string{funcDisplayName(x)}, path...)
			}
			if len(path) > 8 {
				path = append(path[:4], append([]string{"..."}, path[len(path)-3:]...)...)
			}
			c.Bad("S6 no-reentry-from-dependencies", name+" (called holding "+strings.Join(held, ",")+")", "-", "call graph reaches a lock-acquiring repository function: "+strings.Join(path, " > "))
		} else {
			c.OK("S6 no-reentry-from-dependencies", name, "-", fmt.Sprintf("explored %d functions of the dependency cone (VTA), none acquires a repository mutex; held %s", len(seen), strings.Join(held, ",")))
		}
	}
	c.Extra["lock_acquiring_repo_functions"] = len(lockers)
	c.Floor("S6 dependency calls under a lock examined", 3, n)
}

// Error()/String()/Unwrap()/MarshalJSON-like leaf methods of repository
// value types may be reached from fmt/json/zap through interface
// dispatch; they take no locks (checked) and so cannot re-enter.
func isValueMethodOfErrorOrStringer(f *ssa.Function) bool {
	if f.Signature.Recv() == nil {
		return false
	}
	switch f.Name() {
	case "Error", "String", "Unwrap":
	default:
		return false
	}
	leaf := true
	allInstrs(f, func(in ssa.Instruction) {
		if ci, ok := in.(ssa.CallInstruction); ok {
			if sc := staticCallee(ci.Common()); sc != nil && InRepo(sc) {
				leaf = false
			}
			if ci.Common().IsInvoke() {
				leaf = false
			}
		}
		switch in.(type) {
		case *ssa.Send, *ssa.Select, *ssa.Go:
			leaf = false
		}
	})
	return leaf
}

// loginEventReadOnly (S7): a RemoteUserLogin carries a pointer to the
// UserLogin event built by the sshd worker. That worker is outside the
// tracker's mutex; the correlator side (packages processors/auditd/...)
// may read the event but must not write it: no store, map update or
// mutating builder call whose target is reached through the Source field.
func loginEventReadOnly(c *Check) {
	p := c.P
	// viaSource: the address (or map, or receiver) v is reached through the
	// Source pointer of a RemoteUserLogin. copied reports that the path went
	// through a by-value copy of the event (src := *login.Source): plain
	// fields of the copy are the copy's own, but its maps, slices and
	// pointers are still the original's.
	var viaSource func(v ssa.Value, depth int) (hit, copied bool)
	viaSource = func(v ssa.Value, depth int) (bool, bool) {
		cur := v
		copied := false
		for i := 0; i < 14 && cur != nil; i++ {
			switch x := cur.(type) {
			case *ssa.FieldAddr:
				if nt := namedOf(x.X.Type()); nt != nil && nt.Obj().Name() == "RemoteUserLogin" && fieldName(x.X.Type(), x.Field) == "Source" {
					return true, copied
				}
				cur = x.X
			case *ssa.Field:
				if nt := namedOf(x.X.Type()); nt != nil && nt.Obj().Name() == "RemoteUserLogin" && fieldName(x.X.Type(), x.Field) == "Source" {
					return true, copied
				}
				cur = x.X
			case *ssa.IndexAddr:
				cur = x.X
			case *ssa.UnOp:
				cur = x.X
			case *ssa.ChangeType:
				cur = x.X
			case *ssa.Alloc:
				// a local copy: what was stored into it as a whole
				if depth > 2 || x.Referrers() == nil {
					return false, false
				}
				for _, u := range *x.Referrers() {
					if st, ok := u.(*ssa.Store); ok && st.Addr == ssa.Value(x) {
						if h, _ := viaSource(st.Val, depth+1); h {
							return true, true
						}
					}
				}
				return false, false
			default:
				return false, false
			}
		}
		return false, false
	}
	refType := func(t types.Type) bool {
		switch t.Underlying().(type) {
		case *types.Map, *types.Slice, *types.Pointer:
			return true
		}
		return false
	}
	nread, nfn := 0, 0
	for _, fn := range p.AllRepoFuncs() {
		pk := FuncPkgPath(fn)
		if !(strings.HasPrefix(pk, ModPath+"/processors/auditd") || pk == ModPath+"/internal/common") || fn.Blocks == nil {
			continue
		}
		nfn++
		allInstrs(fn, func(in ssa.Instruction) {
			switch x := in.(type) {
			case *ssa.Store:
				if _, isAlloc := x.Addr.(*ssa.Alloc); isAlloc {
					return
				}
				if fa, ok := x.Addr.(*ssa.FieldAddr); ok {
					// a direct field of a by-value copy is the copy's own
					if h, cp := viaSource(fa.X, 0); h {
						if _, baseIsCopy := fa.X.(*ssa.Alloc); cp && baseIsCopy {
							return
						}
						c.Bad("S7 login-event-read-only", "store in "+fn.Name(), p.InstrPos(in), "a field of the event handed over with the login (RemoteUserLogin.Source) is written on the correlator's side: the sshd worker that built the event may still be encoding it, the tracker mutex does not cover that worker, and every event of the session is rendered from this object")
					}
					return
				}
				if h, _ := viaSource(x.Addr, 0); h {
					c.Bad("S7 login-event-read-only", "store in "+fn.Name(), p.InstrPos(in), "the event handed over with the login (RemoteUserLogin.Source) is written on the correlator's side")
				}
			case *ssa.MapUpdate:
				if h, cp := viaSource(x.Map, 0); h {
					why := "a map of the event handed over with the login (RemoteUserLogin.Source) is updated on the correlator's side while the sshd worker that built the event may still be encoding it: concurrent map write and iteration"
					if cp {
						why = "a map reached through a by-value copy of the login's event (RemoteUserLogin.Source) is updated: the copy shares its maps with the original, so the stored login's identity content changes (and the sshd worker may still be encoding it)"
					}
					c.Bad("S7 login-event-read-only", "map update in "+fn.Name(), p.InstrPos(in), why)
				}
			case ssa.CallInstruction:
				cc := x.Common()
				sc := staticCallee(cc)
				if len(cc.Args) == 0 {
					return
				}
				h, cp := viaSource(cc.Args[0], 0)
				if !h {
					return
				}
				if sc == nil || sc.Signature.Recv() == nil {
					nread++
					return
				}
				if !cp && (strings.HasPrefix(sc.Name(), "With") || strings.HasPrefix(sc.Name(), "Set") || strings.HasPrefix(sc.Name(), "Add")) {
					c.Bad("S7 login-event-read-only", "call of "+sc.Name()+" in "+fn.Name(), p.InstrPos(in), "a mutating method is called on the event handed over with the login (RemoteUserLogin.Source)")
				}
			case *ssa.UnOp:
				if x.Op == token.MUL {
					if h, _ := viaSource(x.X, 0); h {
						nread++
					}
				}
			}
		})
	}
	_ = refType
	c.OK("S7 login-event-read-only", "correlator packages processors/auditd/... and internal/common", "-", fmt.Sprintf("%d functions scanned, %d read(s) through RemoteUserLogin.Source, no write", nfn, nread))
	c.Floor("reads through RemoteUserLogin.Source in the correlator (the rule has something to look at)", 1, nread)
}

// plainValueType: values of the type carry no reference to mutable state
// (basic types, and structs/arrays of such; time.Time counts as plain).
func plainValueType(t types.Type, depth int) bool {
	if depth > 4 {
		return false
	}
	if typeName(t) == "time.Time" || typeName(t) == "time.Duration" {
		return true
	}
	switch u := t.Underlying().(type) {
	case *types.Basic:
		return u.Kind() != types.UnsafePointer
	case *types.Struct:
		for i := 0; i < u.NumFields(); i++ {
			if !plainValueType(u.Field(i).Type(), depth+1) {
				return false
			}
		}
		return true
	case *types.Array:
		return plainValueType(u.Elem(), depth+1)
	}
	return false
}
