package main

import (
	"fmt"
	"go/constant"
	"go/token"
	"go/types"
	"sort"
	"strings"

	"golang.org/x/tools/go/ssa"
)

// Tracker facts: one context-sensitive walk of the four tracker entry
// points (the lock walker inlines callees and callbacks, binding closure
// parameters to the map internals they come from) records every
// correlation-relevant operation with operands resolved in context.

type TFact struct {
	Kind   string // mapop emit bind flush append clear return userstore
	EP     string
	Fn     *ssa.Function
	Ins    ssa.Instruction
	R      *Resolver
	Guards []GAtom
	Held   []string
	Stack  []string
	Frames []ssa.Instruction // call chain from the entry point (call instructions, outermost first)
	Map    string            // mapop: recv.<field>
	Method string
	Key    *Org
	Val    *Org
	U      *Org // user object
	E      *Org // audit event
	Login  *Org
	Cb     *ssa.Function // mapop: callback closure
	Field  string        // userstore
	Ret    string        // return: nil / nonnil / maybe, or bool const
}

func (f TFact) Pos(p *Prog) string { return p.InstrPos(f.Ins) }

type Tracker struct {
	P        *Prog
	Named    *types.Named
	UserT    *types.Named
	EPs      []*ssa.Function
	Facts    []TFact
	W        *LockWalker
	BindFns  map[*ssa.Function]bool // functions storing user.login / user.hasRUL
	Renderer map[*ssa.Function]bool // user methods returning *AuditEvent
	FlushFns map[*ssa.Function]bool // user methods that emit elements of cached
	LoginT   int64
	CredDisp int64
	SessMap  string // recv.<field holding session objects>
	RulMap   string // recv.<field holding parked logins>
}

func auparseConst(p *Prog, name string) (int64, bool) {
	tp := p.TypesPkg("github.com/elastic/go-libaudit/v2/auparse")
	if tp == nil {
		return 0, false
	}
	c, ok := tp.Scope().Lookup(name).(*types.Const)
	if !ok {
		return 0, false
	}
	v, ok := constant.Int64Val(c.Val())
	return v, ok
}

func pathRecv(o *Org) string { return trimOrg(pathName(o)) }

// NewTracker walks the entry points and collects the facts.
func NewTracker(c *Check) *Tracker {
	p := c.P
	named, eps := trackerEntryPoints(c)
	if named == nil {
		return nil
	}
	pk := p.RepoPkg(pkgTracker)
	ut := pk.Type("user")
	if !c.Anchor("type sessiontracker.user", ut != nil) {
		return nil
	}
	t := &Tracker{P: p, Named: named, UserT: ut.Type().(*types.Named), EPs: eps, BindFns: map[*ssa.Function]bool{}, Renderer: map[*ssa.Function]bool{}, FlushFns: map[*ssa.Function]bool{}}
	if st, ok := named.Underlying().(*types.Struct); ok {
		for i := 0; i < st.NumFields(); i++ {
			ft := typeName(st.Field(i).Type())
			if strings.Contains(ft, "GenericSyncMap[") {
				if strings.HasSuffix(ft, "user]") {
					t.SessMap = "recv." + st.Field(i).Name()
				} else if strings.Contains(ft, "RemoteUserLogin]") {
					t.RulMap = "recv." + st.Field(i).Name()
				}
			}
		}
	}
	if !c.Anchor("tracker fields: map of session objects and map of parked logins", t.SessMap != "" && t.RulMap != "") {
		return nil
	}
	var ok1, ok2 bool
	t.LoginT, ok1 = auparseConst(p, "AUDIT_LOGIN")
	t.CredDisp, ok2 = auparseConst(p, "AUDIT_CRED_DISP")
	if !c.Anchor("auparse.AUDIT_LOGIN / AUDIT_CRED_DISP", ok1 && ok2) {
		return nil
	}
	wobj := p.ExtObj("github.com/metal-toolbox/auditevent", "EventWriter", "Write")
	// role discovery inside the package
	for _, fn := range p.AllRepoFuncs() {
		if FuncPkgPath(fn) != ModPath+"/"+pkgTracker {
			continue
		}
		allInstrs(fn, func(in ssa.Instruction) {
			if st, ok := in.(*ssa.Store); ok {
				if fa, ok := st.Addr.(*ssa.FieldAddr); ok {
					if n := namedOf(fa.X.Type()); n != nil && n.Obj() == t.UserT.Obj() {
						fname := fieldName(fa.X.Type(), fa.Field)
						if fname == "login" || fname == "hasRUL" {
							if a, isAlloc := fa.X.(*ssa.Alloc); isAlloc && len(NewResolver(p).cellStores(a)) == 0 {
								// initialisation of a fresh object is judged at the store site (userstore fact)
								return
							}
							t.BindFns[fn] = true
						}
					}
				}
			}
		})
		if fn.Signature.Recv() != nil {
			if n := namedOf(fn.Signature.Recv().Type()); n != nil && n.Obj() == t.UserT.Obj() {
				if fn.Signature.Results().Len() == 1 && typeName(fn.Signature.Results().At(0).Type()) == "*auditevent.AuditEvent" {
					t.Renderer[fn] = true
				}
				emits := false
				allInstrs(fn, func(in ssa.Instruction) {
					if cl, ok := in.(*ssa.Call); ok && isCalleeObj(cl.Common(), wobj) {
						emits = true
					}
				})
				if emits {
					t.FlushFns[fn] = true
				}
			}
		}
	}
	w := NewLockWalker(p)
	t.W = w
	w.SharedT[ModPath+"/"+pkgTracker+".user"] = true
	w.Visit = func(v *VisitCtx) {
		base := TFact{EP: v.EP, Fn: v.Fn, Ins: v.Ins, R: v.R, Guards: v.Guards, Held: v.Held, Stack: append([]string{}, v.Stack...), Frames: v.Frames}
		switch x := v.Ins.(type) {
		case ssa.CallInstruction:
			cc := x.Common()
			sc := staticCallee(cc)
			if sc == nil {
				// the event writer reached through an interface
				if isCalleeObj(cc, wobj) && len(cc.Args) >= 1 {
					f := base
					f.Kind = "emit"
					if rc, ok := strip(cc.Args[len(cc.Args)-1]).(*ssa.Call); ok {
						if rs := staticCallee(rc.Common()); rs != nil && t.Renderer[rs] && len(rc.Call.Args) == 2 {
							f.U, f.E = freshCtor(v.R.Of(rc.Call.Args[0])), v.R.Of(rc.Call.Args[1])
						}
					}
					t.Facts = append(t.Facts, f)
				}
				return
			}
			args := cc.Args
			if name, ok := w.mapMethod(sc); ok && len(args) > 0 {
				f := base
				f.Kind, f.Method = "mapop", name
				f.Map = pathRecv(v.R.Of(args[0]))
				switch name {
				case "Store":
					f.Key, f.Val = v.R.Of(args[1]), freshCtor(v.R.Of(args[2]))
				case "Load", "Has", "Delete", "DeleteUnsafe":
					f.Key = v.R.Of(args[1])
				case "WithLockedValueDo":
					f.Key = v.R.Of(args[1])
					if mc, ok := args[2].(*ssa.MakeClosure); ok {
						f.Cb = unwrapBound(mc.Fn.(*ssa.Function))
					}
				case "Iterate":
					if mc, ok := args[1].(*ssa.MakeClosure); ok {
						f.Cb = unwrapBound(mc.Fn.(*ssa.Function))
					}
				}
				t.Facts = append(t.Facts, f)
				return
			}
			if isCalleeObj(cc, wobj) && len(args) >= 1 {
				f := base
				f.Kind = "emit"
				if rc, ok := strip(args[len(args)-1]).(*ssa.Call); ok {
					if rs := staticCallee(rc.Common()); rs != nil && t.Renderer[rs] && len(rc.Call.Args) == 2 {
						f.U, f.E = freshCtor(v.R.Of(rc.Call.Args[0])), v.R.Of(rc.Call.Args[1])
					}
				}
				t.Facts = append(t.Facts, f)
				return
			}
			if t.BindFns[sc] && len(args) >= 2 {
				f := base
				f.Kind = "bind"
				f.U, f.Login = freshCtor(v.R.Of(args[0])), t.normLookup(v.R, v.R.Of(args[1]))
				t.Facts = append(t.Facts, f)
				return
			}
			if t.FlushFns[sc] && len(args) >= 1 {
				f := base
				f.Kind = "flush"
				f.U = freshCtor(v.R.Of(args[0]))
				t.Facts = append(t.Facts, f)
			}
		case *ssa.Store:
			fa, ok := x.Addr.(*ssa.FieldAddr)
			if !ok {
				return
			}
			n := namedOf(fa.X.Type())
			if n == nil || n.Obj() != t.UserT.Obj() {
				return
			}
			fname := fieldName(fa.X.Type(), fa.Field)
			f := base
			f.U = freshCtor(v.R.Of(fa.X))
			f.Field = fname
			f.Val = v.R.Of(x.Val)
			f.Kind = "userstore"
			if fname == "cached" {
				if ap, ok := strip(x.Val).(*ssa.Call); ok {
					if bi, ok := ap.Call.Value.(*ssa.Builtin); ok && bi.Name() == "append" && len(ap.Call.Args) == 2 {
						f.Kind = "append"
						f.E = appendedElem(v.R, ap.Call.Args[1])
					}
				} else if isNilConst(x.Val) {
					f.Kind = "clear"
				}
			}
			t.Facts = append(t.Facts, f)
		case *ssa.Return:
			f := base
			f.Kind = "return"
			if len(x.Results) == 1 {
				res := x.Results[0]
				if typeName(res.Type()) == "error" {
					f.Ret = nilKind(v.R, res, x)
				} else if k, ok := res.(*ssa.Const); ok && k.Value != nil && k.Value.Kind() == constant.Bool {
					f.Ret = k.Value.String()
				} else if typeName(res.Type()) == "bool" {
					f.Ret = "bool?"
				}
			}
			t.Facts = append(t.Facts, f)
		}
	}
	for _, ep := range eps {
		w.RunEntry(ep, ep.Name())
	}
	for f := range w.Visited {
		c.Fn(funcDisplayName(f))
	}
	return t
}

// appendedElem: the single element appended through a varargs slice.
func appendedElem(r *Resolver, v ssa.Value) *Org {
	sl, ok := v.(*ssa.Slice)
	if !ok {
		return r.Of(v)
	}
	var elems []*Org
	if rr := sl.X.Referrers(); rr != nil {
		for _, u := range *rr {
			if ia, ok := u.(*ssa.IndexAddr); ok {
				if ir := ia.Referrers(); ir != nil {
					for _, su := range *ir {
						if st, ok := su.(*ssa.Store); ok && st.Addr == ia {
							elems = append(elems, r.Of(st.Val))
						}
					}
				}
			}
		}
	}
	if len(elems) == 1 {
		return elems[0]
	}
	return &Org{K: "unknown", V: v}
}

func (t *Tracker) Of(kind string) []TFact {
	var out []TFact
	for _, f := range t.Facts {
		if f.Kind == kind {
			out = append(out, f)
		}
	}
	return out
}

// ---- guard queries ----------------------------------------------------

// guardTypeIs: some guard states <ev>.Type == k (pos) for an event origin.
func guardEventType(gs []GAtom, k int64) (pos bool, found bool, ev *Org) {
	for _, g := range gs {
		if g.Op == "value" && g.X != nil && g.X.K == "binop" && (g.X.Name == "==" || g.X.Name == "!=") && len(g.X.Sub) == 2 {
			// a flag computed earlier: flag := ev.Type == K
			g = GAtom{Pos: g.Pos, V: g.V, Op: g.X.Name, X: g.X.Sub[0], Y: g.X.Sub[1], R: g.R}
		}
		if g.Op != "==" && g.Op != "!=" {
			continue
		}
		var fld, cst *Org
		switch {
		case g.X.K == "field" && g.X.Name == "Type" && g.Y.K == "const":
			fld, cst = g.X, g.Y
		case g.Y.K == "field" && g.Y.Name == "Type" && g.X.K == "const":
			fld, cst = g.Y, g.X
		default:
			continue
		}
		n, ok := cst.ConstInt()
		if !ok || n != k {
			continue
		}
		eq := (g.Op == "==") == g.Pos
		return eq, true, fld.Sub[0]
	}
	return false, false, nil
}

// guardHasRUL: a guard on the bound flag of user u (through the accessor
// method or a direct field load). Returns (value, found).
func (t *Tracker) guardHasRUL(gs []GAtom, u *Org) (bool, bool) {
	for _, g := range gs {
		var subj *Org
		switch g.Op {
		case "call":
			cl, ok := g.V.(*ssa.Call)
			if !ok {
				continue
			}
			sc := staticCallee(cl.Common())
			if sc == nil || !isFieldGetter(sc, "hasRUL") || len(cl.Call.Args) != 1 {
				continue
			}
			subj = g.R.Of(cl.Call.Args[0])
		case "value":
			if g.X.K == "field" && g.X.Name == "hasRUL" {
				subj = g.X.Sub[0]
			}
		}
		if subj == nil {
			continue
		}
		if sameValue(subj, u) || trimOrg(subj.String()) == trimOrg(u.String()) {
			return g.Pos, true
		}
	}
	return false, false
}

// isFieldGetter: fn returns exactly the named field of its receiver.
func isFieldGetter(fn *ssa.Function, field string) bool {
	if fn.Blocks == nil || len(fn.Params) != 1 {
		return false
	}
	ok := false
	n := 0
	r := NewResolver(nil)
	allInstrs(fn, func(in ssa.Instruction) {
		if ret, isRet := in.(*ssa.Return); isRet {
			n++
			if len(ret.Results) == 1 {
				o := r.Of(ret.Results[0])
				if o.K == "field" && o.Name == field && o.Sub[0].K == "param" {
					ok = true
				}
			}
		}
	})
	return ok && n == 1
}

func sameOrg(a, b *Org) bool {
	if a == nil || b == nil {
		return false
	}
	return sameValue(a, b) || trimOrg(a.String()) == trimOrg(b.String())
}

// tied: event e belongs to the session object u in this context.
func (t *Tracker) tied(f TFact, u, e *Org) (bool, string) {
	sessMap := t.SessMap
	if u == nil || e == nil {
		return false, "operands not understood"
	}
	// (iii) e is an element of u's own queue
	if e.K == "index" && e.Sub[0].K == "field" && e.Sub[0].Name == "cached" && sameOrg(e.Sub[0].Sub[0], u) {
		return true, "event is an element of the same object's hold queue"
	}
	if e.K == "range" && e.Name == "value" && e.Sub[0].K == "field" && e.Sub[0].Name == "cached" && sameOrg(e.Sub[0].Sub[0], u) {
		return true, "event ranges over the same object's hold queue"
	}
	sess := &Org{K: "field", Name: "Session", Sub: []*Org{e}}
	// (i) u is the value looked up under e.Session in the sessions map
	if u.K == "lookup" && pathRecv(u.Sub[0]) == sessMap+".m" && trimOrg(u.Sub[1].String()) == trimOrg(sess.String()) {
		return true, "object is the sessions-map entry under the event's own session ID"
	}
	// (ii) u is a fresh object stored under e.Session in this activation
	if u.K == "alloc" {
		for _, m := range t.Of("mapop") {
			if m.EP == f.EP && m.Method == "Store" && m.Map == sessMap && sameOrg(m.Val, u) && trimOrg(m.Key.String()) == trimOrg(sess.String()) {
				return true, "object is the fresh entry stored under the event's own session ID"
			}
		}
	}
	return false, fmt.Sprintf("object %s and event %s are not related through the event's session ID", trimOrg(pathName(u)), trimOrg(pathName(e)))
}

func stackStr(f TFact) string { return strings.Join(f.Stack, " > ") }

func sortFacts(fs []TFact) {
	sort.SliceStable(fs, func(i, j int) bool { return fs[i].Ins.Pos() < fs[j].Ins.Pos() })
}

var _ = token.ADD

// LiftTo: the instruction of fn at which the fact happens: the fact's own
// instruction when it was recorded in fn, else the call instruction in fn
// on the fact's call chain. nil when fn is not on the chain.
func (f TFact) LiftTo(fn *ssa.Function) ssa.Instruction {
	if f.Fn == fn {
		return f.Ins
	}
	for i := len(f.Frames) - 1; i >= 0; i-- {
		if f.Frames[i].Parent() == fn {
			return f.Frames[i]
		}
	}
	return nil
}

// Within: the fact was recorded in fn or in a function reached from fn.
func (f TFact) Within(fn *ssa.Function) bool { return f.LiftTo(fn) != nil }

// happensBefore: on every path of the walk on which fact b happens, fact a
// happened before it: in the deepest function their call chains share, a's
// instruction dominates b's.
func happensBefore(a, b TFact) bool {
	k := 0
	for k < len(a.Frames) && k < len(b.Frames) && a.Frames[k] == b.Frames[k] {
		k++
	}
	ai, bi := a.Ins, b.Ins
	if k < len(a.Frames) {
		ai = a.Frames[k]
	}
	if k < len(b.Frames) {
		bi = b.Frames[k]
	}
	if ai == nil || bi == nil || ai == bi || ai.Parent() != bi.Parent() {
		return false
	}
	return dominatesInstr(ai, bi)
}

// Before: whenever fact b happens, fact a has happened earlier in the same
// activation (dominance in the deepest function their call chains share,
// and a is unavoidable inside the call that contains it).
func (t *Tracker) Before(a, b TFact) bool {
	if a.EP != b.EP || !happensBefore(a, b) {
		return false
	}
	k := 0
	for k < len(a.Frames) && k < len(b.Frames) && a.Frames[k] == b.Frames[k] {
		k++
	}
	if k >= len(a.Frames) {
		return true // a was recorded in the shared function itself
	}
	return t.unavoidableBelow(a, a.Frames[k].Parent())
}

// unavoidableBelow: in every function strictly below fn on the fact's call
// chain (down to the fact's own function) the step towards the fact is on
// every path from the function's entry to a return: when the call in fn
// returns normally, the fact has happened.
func (t *Tracker) unavoidableBelow(f TFact, fn *ssa.Function) bool {
	start := -1
	for i := len(f.Frames) - 1; i >= 0; i-- {
		if f.Frames[i].Parent() == fn {
			start = i
			break
		}
	}
	if start < 0 {
		return f.Fn == fn
	}
	for j := start + 1; j <= len(f.Frames); j++ {
		var step ssa.Instruction
		if j == len(f.Frames) {
			step = f.Ins
		} else {
			step = f.Frames[j]
		}
		g := step.Parent()
		if searchAvoiding(g, nil, isReturn, func(in ssa.Instruction) bool { return in == step }) != nil {
			return false
		}
	}
	return true
}

// normLookup: result 0 of the locked map's Load(key) is the entry stored
// under key, like the value a WithLockedValueDo callback receives: both are
// rendered as lookup{map.m, key}.
func (t *Tracker) normLookup(r *Resolver, o *Org) *Org {
	if o == nil || o.K != "call" || o.Idx != 0 {
		return o
	}
	cl, ok := o.V.(*ssa.Call)
	if !ok {
		return o
	}
	sc := staticCallee(cl.Common())
	if sc == nil {
		return o
	}
	if name, isM := t.W.mapMethod(sc); !isM || name != "Load" || len(cl.Call.Args) != 2 {
		return o
	}
	inner := &Org{K: "field", Name: "m", Sub: []*Org{r.Of(cl.Call.Args[0])}}
	return &Org{K: "lookup", V: cl, Sub: []*Org{inner, r.Of(cl.Call.Args[1])}}
}

// freshCtor: the result of a repository constructor function every return of
// which yields one and the same struct literal allocated in that function is
// a fresh object of the calling activation: it is rendered as that
// allocation (so that the literal's field initialisations, which are facts of
// the constructor's frame, refer to the same object). A function that can
// return anything else (an object taken from a pool, a parameter) stays a
// call origin and is not treated as fresh.
func freshCtor(o *Org) *Org {
	if o == nil || o.K != "call" || o.Idx > 0 {
		return o
	}
	call, ok := o.V.(*ssa.Call)
	if !ok {
		return o
	}
	sc := staticCallee(call.Common())
	if sc == nil || !InRepo(sc) || sc.Blocks == nil || sc.Signature.Results().Len() != 1 {
		return o
	}
	var lit *ssa.Alloc
	okAll := true
	allInstrs(sc, func(in ssa.Instruction) {
		ret, isRet := in.(*ssa.Return)
		if !isRet || ret.Block() == sc.Recover {
			return
		}
		a, isA := strip(ret.Results[0]).(*ssa.Alloc)
		if !isA || !a.Heap || (lit != nil && lit != a) || a.Parent() != sc {
			okAll = false
			return
		}
		lit = a
	})
	if !okAll || lit == nil {
		return o
	}
	// the literal must not be stored anywhere by the constructor (a pool, a registry)
	if refs := lit.Referrers(); refs != nil {
		for _, u := range *refs {
			switch x := u.(type) {
			case *ssa.FieldAddr, *ssa.Return, *ssa.DebugRef:
			case *ssa.Store:
				if x.Val == ssa.Value(lit) {
					return o
				}
			default:
				return o
			}
		}
	}
	return &Org{K: "alloc", V: lit, Name: typeName(deref(lit.Type()))}
}

// isZeroOrg: the origin is the zero value of its type (false, nil, 0, "",
// an all-zero struct).
func isZeroOrg(o *Org) bool {
	if o == nil {
		return false
	}
	switch o.K {
	case "zero":
		return true
	case "const":
		switch o.Name {
		case "false", "nil", "zero", "0", "\"\"":
			return true
		}
		if k, ok := o.V.(*ssa.Const); ok && k.Value == nil {
			return true
		}
	}
	return false
}

// sessionValuesNonNil: every Store into the sessions map stores a value that
// is not nil (a fresh object, or an object known non-nil): a nil test of a
// value taken from that map is dead code.
func (t *Tracker) sessionValuesNonNil() bool {
	n := 0
	for _, f := range t.Of("mapop") {
		if f.Map != t.SessMap || f.Method != "Store" {
			continue
		}
		n++
		if f.Val == nil {
			return false
		}
		for _, a := range f.Val.Alts() {
			if nilKindOrg(f.R, a, f.Ins) != NonNil {
				return false
			}
		}
	}
	return n > 0
}
