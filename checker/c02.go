package main

import (
	"fmt"
	"go/token"
	"strings"

	"golang.org/x/tools/go/ssa"
)

func init() { register("C02", "other", checkC02) }

// ascendingFromZero: idx enumerates 0,1,2,... up to len(slice)-1 (the two
// loop shapes go/ssa produces for `for i := range s` and `for i:=0;i<len(s);i++`).
func ascendingFromZero(r *Resolver, idx ssa.Value, slice *Org) (bool, string) {
	var phi *ssa.Phi
	var cur ssa.Value // the value compared with the bound and used as index
	switch x := idx.(type) {
	case *ssa.BinOp: // range form: idx = phi + 1, phi = [-1, idx]
		p, ok := x.X.(*ssa.Phi)
		k, okk := x.Y.(*ssa.Const)
		if x.Op != token.ADD || !ok || !okk || k.Int64() != 1 {
			return false, "index is not a unit-step counter"
		}
		phi, cur = p, x
		init := false
		back := false
		for _, e := range p.Edges {
			if c, ok := e.(*ssa.Const); ok && c.Value != nil && c.Int64() == -1 {
				init = true
			} else if e == ssa.Value(x) {
				back = true
			} else {
				return false, "loop counter has an unexpected definition"
			}
		}
		if !init || !back {
			return false, "loop does not start at element 0"
		}
	case *ssa.Phi: // three-clause form: phi = [0, phi+1]
		phi, cur = x, x
		init, back := false, false
		for _, e := range x.Edges {
			if c, ok := e.(*ssa.Const); ok && c.Value != nil {
				if c.Int64() == 0 {
					init = true
				} else {
					return false, fmt.Sprintf("loop starts at element %d, not 0", c.Int64())
				}
			} else if b, ok := e.(*ssa.BinOp); ok && b.Op == token.ADD && b.X == ssa.Value(x) {
				if k, ok := b.Y.(*ssa.Const); ok && k.Int64() == 1 {
					back = true
				} else {
					return false, "loop step is not +1"
				}
			} else {
				return false, "loop counter is not an ascending unit-step counter (" + e.String() + ")"
			}
		}
		if !init || !back {
			return false, "loop does not enumerate from 0 upwards"
		}
	default:
		return false, "element index is not a loop counter"
	}
	// bound: cur < len(slice)
	bounded := false
	if rr := cur.Referrers(); rr != nil {
		for _, u := range *rr {
			b, ok := u.(*ssa.BinOp)
			if !ok || b.Op != token.LSS || b.X != cur {
				continue
			}
			if lc, ok := b.Y.(*ssa.Call); ok {
				if bi, ok := lc.Call.Value.(*ssa.Builtin); ok && bi.Name() == "len" && sameOrg(r.Of(lc.Call.Args[0]), slice) {
					bounded = true
				}
			}
		}
	}
	_ = phi
	if !bounded {
		return false, "loop bound is not len() of the queue itself: the tail may be skipped"
	}
	return true, "ascending from 0 to len(queue)-1"
}

func checkC02(c *Check) {
	c.Explanation = "Path-count and ordering rules on the functions that hold, flush or emit audit events (facts collected on the inlined tracker cones): (1) in the callback run for an event of a known session every nil-returning path performs exactly one of {append the event to the hold queue, emit it}; (2) the append happens only while unbound, the emit only while bound; (3) the flush of the queue dominates the emit of the delivered event; (4) the flush visits the whole queue in ascending index order from 0, emits once per element, leaves the loop on the first write error with that error, and empties the queue on the nil path; (5) every bind made while scanning sessions is followed in the same callback by a flush of the same object, the scan stops only after a bind (a full sweep otherwise), and the login is parked only when no bind happened; (6) opening a session either takes the parked login of that very PID (delete + bind + emit) or holds the LOGIN event. Each rule is a necessary condition of 'exactly once, in order'."
	c.Rule("event-reaches-correlation: the delivery entry point returns without handing the event to a handler only on tests of the event's Session (imported by C04, C09)")
	c.Rule("release-only-on-end: a session is removed during a delivery only on evidence of its credential-disposal record")
	c.Rule("exactly-one-of / hold-iff-unbound / flush-before-emit / flush-shape / bind-implies-flush / scan-stops-only-after-bind / park-only-if-unbound / open-session-path")
	c.Trust("GenericSyncMap.Iterate stops when the callback returns false (checked structurally in C16/C18)", "order of deliveries themselves is the reassembler's; atomicity of a delivery is C03")
	t := NewTracker(c)
	if t == nil {
		return
	}
	p := c.P
	mapContract(c)
	queuePrivate(c, t)
	sessionEventReachesCorrelation(c, t)
	// a failed release ends the processor: a flush that stopped half-way is
	// never run again on the same queue (rules of C15)
	nf := importRules(c, "C15", checkC15, "failed-release-stops: ", "no-error-dropped", "error-handoff-keeps-first-error", "processor-returns-received-error")
	nf += importRules(c, "C15", checkC15, "", "event-reaches-correlator")
	c.Floor("imported failed-release-stops obligations", 20, nf)
	// a login and the LOGIN record it matches meet: each delivery is one
	// critical section (C03), and a session's age is its arrival time, so
	// that held events are not discarded by the cleanup before the staleness
	// window has passed (C16)
	na := importRules(c, "C03", checkC03, "delivery-is-atomic: ", "S2 one-critical-section")
	na += importRules(c, "C16", checkC16, "held-until-stale: ", "age-sources", "cleanup-guard-exact")
	c.Floor("imported delivery-is-atomic / held-until-stale obligations", 5, na)
	// "both halves reach the daemon" includes the hand-over of the login
	// from the sshd worker: it gives up only when the worker is shut down
	// (rules of C05)
	nh := importRules(c, "C05", checkC05, "login-reaches-correlator: ", "handoff-only-cancellation-gives-up", "handoff-always-after-write")
	c.Floor("imported login-reaches-correlator obligations", 6, nh)
	isDelivered := func(e *Org) bool { return e != nil && e.K != "index" && e.K != "range" }
	// what is held is the delivered event itself (the pointer the tracker was
	// given), not a copy or a projection of it: the renderer and the
	// end-of-session test read the held events, and a copy that leaves a
	// field behind (the record type) silently changes both
	nhold := 0
	for _, f := range t.Of("append") {
		if f.EP != "AuditdEvent" || f.E == nil {
			continue
		}
		nhold++
		okE := f.E.K == "param"
		c.Cond(okE, "hold-keeps-event", fmt.Sprintf("event held in %s (%s)", f.Fn.Name(), f.EP), f.Pos(p), "the delivered event", "what is appended to the hold queue is "+trimOrg(f.E.String())+", not the delivered event: a copy or projection of the event is held, so fields that the renderer or the end-of-session test read later (record type, result, process) can be missing from the held events")
	}
	c.Floor("holds of a delivered event", 2, nhold)

	// 1-3: callbacks of lookups keyed by the event's session
	ncb := 0
	for _, m := range t.Of("mapop") {
		if m.Map != t.SessMap || m.Method != "WithLockedValueDo" || m.Cb == nil || m.EP != "AuditdEvent" {
			continue
		}
		ncb++
		cb := m.Cb
		name := "session callback " + cb.Name()
		var emits, appends, flushes []TFact
		inCb := func(f TFact) bool {
			if f.Fn == cb {
				return true
			}
			for _, s := range f.Stack {
				if s == funcDisplayName(cb) {
					return true
				}
			}
			return false
		}
		for _, f := range t.Facts {
			if !inCb(f) || f.EP != m.EP {
				continue
			}
			switch f.Kind {
			case "emit":
				if isDelivered(f.E) {
					emits = append(emits, f)
				}
			case "append":
				appends = append(appends, f)
			case "flush":
				flushes = append(flushes, f)
			}
		}
		isA := func(in ssa.Instruction) bool {
			for _, f := range emits {
				if f.Ins == in {
					return true
				}
			}
			return false
		}
		isB := func(in ssa.Instruction) bool {
			for _, f := range appends {
				if f.Ins == in {
					return true
				}
			}
			return false
		}
		pc := NewPathCounter(p, isA, isB)
		// a nil test of the session object handed to the callback is dead:
		// every value stored into the sessions map is a non-nil object
		// (checked on the Store facts), so the paths under "u == nil" do not
		// exist
		if t.sessionValuesNonNil() && len(cb.Params) > 0 {
			up := cb.Params[len(cb.Params)-1]
			pc.CondEval = func(v ssa.Value) (bool, bool) {
				neg := false
				for {
					if u, ok := v.(*ssa.UnOp); ok && u.Op == token.NOT {
						v, neg = u.X, !neg
						continue
					}
					break
				}
				b, ok := v.(*ssa.BinOp)
				if !ok || (b.Op != token.EQL && b.Op != token.NEQ) {
					return false, false
				}
				if (b.X == ssa.Value(up) && isNilConst(b.Y)) || (b.Y == ssa.Value(up) && isNilConst(b.X)) {
					return (b.Op == token.NEQ) != neg, true
				}
				return false, false
			}
		}
		r := NewResolver(p)
		nret := 0
		for _, b := range cb.Blocks {
			if len(b.Instrs) == 0 || b == cb.Recover {
				continue
			}
			ret, ok := b.Instrs[len(b.Instrs)-1].(*ssa.Return)
			if !ok || len(ret.Results) != 1 {
				continue
			}
			// single exit: the callback assigns its result to a variable
			// and returns it once; judge each incoming edge of that value
			res0 := ret.Results[0]
			if _, isLoad := res0.(*ssa.UnOp); isLoad {
				if u := fsUnique(res0, ret, nil); u != nil {
					res0 = u // spilled because of defer
				}
			}
			if phi, isPhi := res0.(*ssa.Phi); isPhi && (phi.Block() == b || phi.Block().Dominates(b)) {
				tail := PCSet{}
				if phi.Block() != b {
					tail = pc.Region(cb, phi.Block(), b)
				}
				tailClean := true
				for k := range tail {
					if k.A != 0 || k.B != 0 {
						tailClean = false
					}
				}
				if tailClean {
					for i, e := range phi.Edges {
						pred := phi.Block().Preds[i]
						nret++
						set := pc.Region(cb, nil, pred)
						kind := MaybeNil
						if len(pred.Instrs) > 0 {
							kind = nilKind(r, e, pred.Instrs[len(pred.Instrs)-1])
						}
						bad := ""
						for k := range set {
							if k.A > 1 || k.B > 1 {
								bad = fmt.Sprintf("the delivered event is emitted %d and held %d times on some path", k.A, k.B)
							}
							if kind != NonNil && k.A+k.B != 1 {
								bad = fmt.Sprintf("a path returning without error emits the delivered event %d time(s) and holds it %d time(s): the event is lost or duplicated", k.A, k.B)
							}
						}
						c.Cond(bad == "", "exactly-one-of", fmt.Sprintf("%s: return (%s error) via %s", name, kind, p.InstrPos(pred.Instrs[len(pred.Instrs)-1])), p.InstrPos(ret), "count pairs (emit,hold) "+set.String(), bad)
					}
					continue
				}
			}
			nret++
			set := pc.Region(cb, nil, b)
			kind := nilKind(r, ret.Results[0], ret)
			bad := ""
			for k := range set {
				if k.A > 1 || k.B > 1 {
					bad = fmt.Sprintf("the delivered event is emitted %d and held %d times on some path", k.A, k.B)
				}
				if kind != NonNil && k.A+k.B != 1 {
					bad = fmt.Sprintf("a path returning without error emits the delivered event %d time(s) and holds it %d time(s): the event is lost or duplicated", k.A, k.B)
				}
			}
			c.Cond(bad == "", "exactly-one-of", fmt.Sprintf("%s: return (%s error)", name, kind), p.InstrPos(ret), "count pairs (emit,hold) "+set.String(), bad)
		}
		c.Floor("returns of the session callback", 2, nret)
		for _, f := range appends {
			v, found := t.guardHasRUL(f.Guards, f.U)
			c.Cond(found && !v, "hold-iff-unbound", name+": append", f.Pos(p), "only while the object has no login", "the event is held although the session may already be bound (it would never be released)")
		}
		for _, f := range emits {
			v, found := t.guardHasRUL(f.Guards, f.U)
			c.Cond(found && v, "hold-iff-unbound", name+": emit", f.Pos(p), "only while the object has a login", "the delivered event is emitted on a path where the session is not known to be bound")
			dom := false
			for _, fl := range flushes {
				if sameOrg(fl.U, f.U) && t.Before(fl, f) {
					dom = true
				}
			}
			c.Cond(dom, "flush-before-emit", name+": emit", f.Pos(p), "a flush of the same object's queue dominates the emit", "the delivered event can be written before (or without) the events held earlier: order is not preserved")
		}
	}
	c.Floor("session-lookup callbacks in AuditdEvent", 1, ncb)

	// 4. flush shape
	nfl := 0
	for fn := range t.FlushFns {
		nfl++
		flushShape(c, t, fn)
	}
	c.Floor("flush functions", 1, nfl)

	// 5. bind implies flush; scan stops only after bind; park only if unbound
	for _, m := range t.Of("mapop") {
		if m.Map != t.SessMap || m.Method != "Iterate" || m.Cb == nil || m.EP != "RemoteLogin" {
			continue
		}
		cb := m.Cb
		name := "login scan callback " + cb.Name()
		var binds, flushes []TFact
		for _, f := range t.Facts {
			if f.Within(cb) && f.EP == m.EP {
				if f.Kind == "bind" {
					binds = append(binds, f)
				}
				if f.Kind == "flush" {
					flushes = append(flushes, f)
				}
			}
		}
		// "find, then act": the scan only looks the session up (it stores
		// the match into result variables of its function), and the bind,
		// the flush and the parking follow the call of that finder
		scope := cb                   // the function inside which a bind must be followed by the flush
		var anchors []ssa.Instruction // in cb: where the matching session is taken (bind, or store of the match)
		finder := false
		if len(binds) == 0 {
			fnd := m.Fn // the function running the scan
			var scopeFn *ssa.Function
			for _, ep := range t.EPs {
				if ep.Name() == m.EP {
					scopeFn = ep
				}
			}
			for _, f := range t.Facts {
				if f.EP != m.EP || f.Kind != "bind" || f.U == nil || f.U.K != "call" {
					continue
				}
				cl, ok := f.U.V.(*ssa.Call)
				if !ok || staticCallee(cl.Common()) != fnd || f.U.Idx < 0 {
					continue
				}
				// the result variable of the finder and its stores in the scan callback
				var cell *ssa.Alloc
				allInstrs(fnd, func(in ssa.Instruction) {
					if ret, isRet := in.(*ssa.Return); isRet && f.U.Idx < len(ret.Results) && ret.Block() != fnd.Recover {
						if ld, isLd := ret.Results[f.U.Idx].(*ssa.UnOp); isLd {
							if a, isA := ld.X.(*ssa.Alloc); isA {
								cell = a
							}
						}
					}
				})
				if cell == nil {
					continue
				}
				for _, st := range NewResolver(p).cellStores(cell) {
					if st.Parent() == cb && !isNilConst(st.Val) {
						anchors = append(anchors, st)
					}
				}
				binds = append(binds, f)
				finder = true
			}
			if finder && scopeFn != nil {
				scope = scopeFn
				for _, f := range t.Facts {
					if f.EP == m.EP && f.Kind == "flush" && f.Within(scope) {
						flushes = append(flushes, f)
					}
				}
			}
		} else {
			for _, b := range binds {
				if bl := b.LiftTo(cb); bl != nil && (b.Fn == cb || t.unavoidableBelow(b, cb)) {
					anchors = append(anchors, bl)
				}
			}
		}
		c.Floor("bind sites in the login scan", 1, len(binds))
		// flush facts of object u, lifted to function fn
		isFlushOfIn := func(u *Org, fn *ssa.Function) func(ssa.Instruction) bool {
			return func(in ssa.Instruction) bool {
				for _, fl := range flushes {
					if !sameOrg(fl.U, u) {
						continue
					}
					if l := fl.LiftTo(fn); l != nil && l == in && (fl.Fn == fn || t.unavoidableBelow(fl, fn)) {
						return true
					}
				}
				return false
			}
		}
		for _, b := range binds {
			// from the bind to the end of its function, then of each caller up
			// to the scope: every path flushes the same object's queue
			cur, fn, level := b.Ins, b.Fn, len(b.Frames)
			var miss ssa.Instruction
			for {
				miss = searchAvoiding(fn, cur, isReturn, isFlushOfIn(b.U, fn))
				if miss == nil || fn == scope || level == 0 {
					break
				}
				level--
				cur = b.Frames[level]
				fn = cur.Parent()
			}
			c.Cond(miss == nil, "bind-implies-flush", name+": bind", b.Pos(p), "every path from the bind to the end of the delivery flushes the same object's queue (under the same lock)", "after a login is bound the events held for its session may stay in the queue: they are never emitted")
		}
		// returns of the scan callback
		for _, rf := range t.Of("return") {
			if rf.Fn != cb || rf.EP != m.EP {
				continue
			}
			afterBind := false
			for _, an := range anchors {
				if an != rf.Ins && dominatesInstr(an, rf.Ins) {
					afterBind = true
				}
			}
			what := "the login was bound"
			if finder {
				what = "the matching session was taken"
			}
			switch rf.Ret {
			case "false":
				c.Cond(afterBind, "scan-stops-only-after-bind", name+": return false", rf.Pos(p), "the scan stops only after "+what, "the scan of open sessions can stop before the matching session was examined: a late login is parked although its session is open, and the held events are never released")
			case "true":
				c.Cond(!afterBind, "scan-stops-after-bind", name+": return true", rf.Pos(p), "continues only while unbound", "the scan continues after a match: the same login can be bound to a second session")
			default:
				// return !flag, the flag being a local variable set to true
				// only where the matching session is taken: the scan stops
				// exactly when it was
				okFlag := false
				if ret, isRet := rf.Ins.(*ssa.Return); isRet && len(ret.Results) == 1 {
					if not, isNot := ret.Results[0].(*ssa.UnOp); isNot && not.Op == token.NOT {
						if cell := cellOf(NewResolver(p), not.X); cell != nil {
							okFlag = true
							nTrue := 0
							for _, st := range NewResolver(p).cellStores(cell) {
								k, isC := st.Val.(*ssa.Const)
								if !isC || k.Value == nil {
									okFlag = false
									continue
								}
								if k.Value.String() != "true" {
									continue
								}
								nTrue++
								dom := false
								for _, an := range anchors {
									if an.Parent() == st.Parent() && (dominatesInstr(an, st) || dominatesInstr(st, an)) {
										dom = true
									}
								}
								if !dom {
									okFlag = false
								}
							}
							if nTrue == 0 {
								okFlag = false
							}
						}
					}
				}
				if okFlag {
					c.OK("scan-stops-only-after-bind", name+": return !flag", rf.Pos(p), "the callback returns the negation of a flag that is set exactly where the matching session is taken")
				} else {
					c.Unk("scan-stops-only-after-bind", name+": computed return", rf.Pos(p), "the callback's result is computed; cannot decide when the scan stops")
				}
			}
		}
		// flag idiom: found := true on the bind path, parking guarded by !found
		var flag *ssa.Alloc
		fr := NewResolver(p)
		for _, bl := range anchors {
			allInstrs(cb, func(in ssa.Instruction) {
				st, ok := in.(*ssa.Store)
				if !ok || bl == nil {
					return
				}
				k, isC := st.Val.(*ssa.Const)
				if !isC || k.Value == nil || k.Value.String() != "true" {
					return
				}
				o := fr.Of(st.Addr)
				if o.K == "cell" && (dominatesInstr(bl, st) || dominatesInstr(st, bl)) {
					flag = o.V.(*ssa.Alloc)
				}
			})
		}
		for _, s := range t.Of("mapop") {
			if s.EP != "RemoteLogin" || s.Map != t.RulMap || s.Method != "Store" {
				continue
			}
			ok := false
			// the variables that say "a session matched": the boolean flag,
			// or the variable the matching session itself is stored into
			matchCells := map[*ssa.Alloc]bool{}
			for _, an := range anchors {
				if st, isSt := an.(*ssa.Store); isSt {
					if a, isA := st.Addr.(*ssa.Alloc); isA {
						matchCells[a] = true
					} else if fv, isFV := st.Addr.(*ssa.FreeVar); isFV {
						if o := fr.Of(fv); o.K == "cell" {
							matchCells[o.V.(*ssa.Alloc)] = true
						}
					}
				}
			}
			viaMatchCell := false
			for _, g := range s.Guards {
				fc := flagCellOf(g)
				if fc == nil {
					continue
				}
				if _, isBin := g.V.(*ssa.BinOp); isBin {
					// nil test of the matched object: parked only when it is nil
					isNil := (g.Op == "==") == g.Pos
					if isNil && matchCells[fc] {
						ok, viaMatchCell = true, true
					}
					continue
				}
				if g.Pos {
					continue
				}
				if flag != nil && fc == flag {
					ok = true
				}
			}
			if viaMatchCell {
				c.OK("park-only-if-unbound", "parking the login in "+s.Fn.Name(), s.Pos(p), "parked only when the finder returned no matching session")
				continue
			}
			// the flag must only be set on the bind path
			if ok && flag != nil {
				for _, st := range fr.cellStores(flag) {
					if k, isC := st.Val.(*ssa.Const); isC && k.Value != nil && k.Value.String() == "true" {
						dom := false
						for _, bl := range anchors {
							if bl.Parent() == st.Parent() && (dominatesInstr(bl, st) || dominatesInstr(st, bl)) {
								dom = true
							}
						}
						if !dom {
							ok = false
						}
					}
				}
			}
			c.Cond(ok, "park-only-if-unbound", "parking the login in "+s.Fn.Name(), s.Pos(p), "guarded by the flag that is set exactly on the bind path", "the login can be parked although it was bound to an open session (or is not parked when no session matched): a later LOGIN record with that PID would take it again, or the login is lost")
		}
	}

	// none lost up to the disposal record: sessions are released only at their end
	releaseOnlyOnEnd(c, t)

	// 6. open-session path
	for _, s := range t.Of("mapop") {
		if s.Map != t.SessMap || s.Method != "Store" {
			continue
		}
		name := fmt.Sprintf("open session in %s (%s)", s.Fn.Name(), s.EP)
		nb, ne, na, nd := 0, 0, 0, 0
		var bindF, delF *TFact
		for i := range t.Facts {
			f := t.Facts[i]
			if f.EP != s.EP || !inFnOrHelper(f, s.Fn) || !samePath(f, s) {
				continue
			}
			switch f.Kind {
			case "bind":
				if sameOrg(f.U, s.Val) {
					nb++
					bindF = &t.Facts[i]
				}
			case "emit":
				if sameOrg(f.U, s.Val) {
					ne++
				}
			case "mapop":
				if f.Map == t.RulMap && (f.Method == "DeleteUnsafe" || f.Method == "Delete") {
					nd++
					delF = &t.Facts[i]
				}
			}
		}
		for _, f := range t.Of("append") {
			if f.EP == s.EP && sameOrg(f.U, s.Val) && inFnOrHelper(f, s.Fn) && samePath(f, s) {
				na++
			}
		}
		switch {
		case nb == 1 && ne == 1 && nd == 1 && na == 0:
			// login taken from the parked map under the deleted key
			ok := bindF.Login.K == "lookup" && pathRecv(bindF.Login.Sub[0]) == t.RulMap+".m" && trimOrg(bindF.Login.Sub[1].String()) == trimOrg(delF.Key.String())
			c.Cond(ok, "open-session-path", name+": takes the parked login", s.Pos(p), "bind of the parked login under key "+shortU(delF.Key)+", which is deleted, then the LOGIN event is emitted", "the parked login is bound but not consumed under the same key (it could be bound again), or another login is bound")
		case na == 1 && nb == 0 && ne == 0:
			c.OK("open-session-path", name+": holds the LOGIN event", s.Pos(p), "the event is appended to the new object's queue; nothing is emitted")
		default:
			c.Bad("open-session-path", name, s.Pos(p), fmt.Sprintf("a new session performs %d bind(s), %d emit(s), %d hold(s), %d parked-login deletion(s): neither 'take the parked login and emit' nor 'hold the LOGIN event'", nb, ne, na, nd))
		}
	}
}

func flushShape(c *Check, t *Tracker, fn *ssa.Function) {
	p := c.P
	r := NewResolver(p)
	name := "flush function " + fn.Name()
	wobj := p.ExtObj("github.com/metal-toolbox/auditevent", "EventWriter", "Write")
	var writes []*ssa.Call
	var clears []*ssa.Store
	allInstrs(fn, func(in ssa.Instruction) {
		if cl, ok := in.(*ssa.Call); ok && isCalleeObj(cl.Common(), wobj) {
			writes = append(writes, cl)
		}
		if st, ok := in.(*ssa.Store); ok {
			if fa, ok := st.Addr.(*ssa.FieldAddr); ok && fieldName(fa.X.Type(), fa.Field) == "cached" {
				clears = append(clears, st)
			}
		}
	})
	if len(writes) != 1 {
		c.Bad("flush-shape", name, p.Pos(fn.Pos()), fmt.Sprintf("%d emit sites in the flush (expected one, in the loop)", len(writes)))
		return
	}
	w := writes[0]
	// the element emitted
	var elem ssa.Value
	if rc, ok := strip(w.Call.Args[len(w.Call.Args)-1]).(*ssa.Call); ok && len(rc.Call.Args) == 2 {
		elem = rc.Call.Args[1]
	}
	okIdx, why := false, "emitted value is not an element of the queue"
	if ld, ok := elem.(*ssa.UnOp); ok && ld.Op == token.MUL {
		if ia, ok := ld.X.(*ssa.IndexAddr); ok {
			sl := r.Of(ia.X)
			if sl.K == "field" && sl.Name == "cached" && sl.Sub[0].K == "param" {
				okIdx, why = ascendingFromZero(r, ia.Index, sl)
			}
		}
	}
	c.Cond(okIdx && inLoop(w), "flush-shape: whole queue in order", name, p.InstrPos(w), why, "held events are not all released in the order they were held: "+why)
	// first error leaves the loop with that error
	nn, _, _ := errEdge(w)
	okErr := nn != nil && !reachesFromBlock(nn, w)
	if okErr {
		// and returns that error
		okErr = false
		for _, b := range fn.Blocks {
			if ret, ok := b.Instrs[len(b.Instrs)-1].(*ssa.Return); ok && (b == nn || nn.Dominates(b)) {
				if len(ret.Results) == 1 && (ret.Results[0] == ssa.Value(w) || nilKind(r, ret.Results[0], ret) == NonNil) {
					okErr = true
				}
			}
		}
	}
	c.Cond(okErr, "flush-shape: first error stops", name, p.InstrPos(w), "the non-nil edge of the write leaves the loop and returns a non-nil error", "a failed write does not stop the flush with that error: later writes can mask it and the failed event is lost silently")
	// queue emptied on every nil path that went through the loop; not emptied before the loop ends
	okClear := len(clears) >= 1
	whyC := "the queue is never emptied: the same events are emitted again at the next flush"
	for _, st := range clears {
		k, isNil := st.Val.(*ssa.Const)
		if !(isNil && k.Value == nil) {
			if _, isMk := st.Val.(*ssa.MakeSlice); !isMk {
				if sl, isSl := st.Val.(*ssa.Slice); !(isSl && isZeroLenSlice(sl)) {
					okClear = false
					whyC = "the queue is overwritten with something that is not empty"
				}
			}
		}
		if reachesInstr(st, w) {
			okClear = false
			whyC = "the queue is emptied while it is still being flushed"
		}
	}
	if okClear {
		// every nil return reachable after a successful write passes a clear
		_, nl, _ := errEdge(w)
		isClear := func(in ssa.Instruction) bool {
			for _, st := range clears {
				if st == in {
					return true
				}
			}
			return false
		}
		if nl != nil {
			if miss := blockReachesInstr(nl, func(in ssa.Instruction) bool {
				ret, ok := in.(*ssa.Return)
				return ok && nilKind(r, ret.Results[0], ret) != NonNil
			}, func(in ssa.Instruction) bool { return isClear(in) }); miss != nil {
				okClear = false
				whyC = "a successful flush can return without emptying the queue: the events are emitted again later"
			}
		}
	}
	c.Cond(okClear, "flush-shape: queue emptied after success", name, p.Pos(fn.Pos()), "emptied after the loop on the nil path, never before", whyC)
	_ = strings.Join
}

func isZeroLenSlice(s *ssa.Slice) bool {
	if s.High == nil {
		return false
	}
	k, ok := s.High.(*ssa.Const)
	return ok && k.Value != nil && k.Int64() == 0
}

// queuePrivate: the hold queue of a session object is storage of that
// object alone. Every store to the queue field is nil, or append(<the same
// object's queue>, ...); every read of the field is used only for len/cap,
// indexing, ranging, or as the base of such an append. Otherwise two
// sessions can share one backing array and overwrite each other's held
// events.
func queuePrivate(c *Check, t *Tracker) {
	p := c.P
	n := 0
	for _, fn := range p.AllRepoFuncs() {
		if !p.InDaemon(fn) || fn.Blocks == nil {
			continue
		}
		r := NewResolver(p)
		allInstrs(fn, func(in ssa.Instruction) {
			fa, ok := in.(*ssa.FieldAddr)
			if !ok {
				return
			}
			nt := namedOf(fa.X.Type())
			if nt == nil || nt.Obj() != t.UserT.Obj() || fieldName(fa.X.Type(), fa.Field) != "cached" {
				return
			}
			owner := r.Of(fa.X)
			rr := fa.Referrers()
			if rr == nil {
				return
			}
			for _, u := range *rr {
				switch x := u.(type) {
				case *ssa.Store:
					if x.Addr != ssa.Value(fa) {
						n++
						c.Bad("queue-private", "address of the hold queue stored in "+fn.Name(), p.InstrPos(x), "the address of a session's hold queue is stored: the queue can be changed from outside the object")
						continue
					}
					n++
					construct := "store to the hold queue in " + fn.Name()
					if isNilConst(x.Val) {
						c.OK("queue-private", construct, p.InstrPos(x), "emptied (nil)")
						continue
					}
					if ap, ok := strip(x.Val).(*ssa.Call); ok {
						if bi, ok := ap.Call.Value.(*ssa.Builtin); ok && bi.Name() == "append" && len(ap.Call.Args) == 2 {
							base := r.Of(ap.Call.Args[0])
							good := base.K == "field" && base.Name == "cached" && sameOrg(base.Sub[0], owner)
							c.Cond(good, "queue-private", construct, p.InstrPos(x), "append to the same object's own queue", "the queue is rebuilt on storage that is not the object's own queue ("+trimOrg(base.String())+"): sessions pending at the same time share one backing array, so held events of one overwrite those of another (lost, duplicated and attributed to the wrong session)")
							continue
						}
					}
					if sl, ok := strip(x.Val).(*ssa.Slice); ok {
						base := r.Of(sl.X)
						good := base.K == "field" && base.Name == "cached" && sameOrg(base.Sub[0], owner)
						c.Cond(good, "queue-private", construct, p.InstrPos(x), "re-slice of the same object's own queue", "the queue is set to a slice of other storage ("+trimOrg(base.String())+")")
						// ... and a re-slice only ever empties the queue: cutting it
						// (dropping elements from either end) loses held events that
						// were never emitted, possibly the session's end record
						empties := sl.Low == nil && sl.High != nil && isIntConst(sl.High) && sl.High.(*ssa.Const).Int64() == 0
						c.Cond(empties, "hold-keeps-queue", construct, p.InstrPos(x), "the re-slice empties the queue ([:0])", "the queue is cut to a part of itself: held events are dropped without having been emitted (none may be lost), and the dropped part may contain the session's credential-disposal record, without which a late login does not release the session")
						continue
					}
					if mk, ok := strip(x.Val).(*ssa.MakeSlice); ok {
						_ = mk
						c.OK("queue-private", construct, p.InstrPos(x), "fresh slice")
						continue
					}
					c.Bad("queue-private", construct, p.InstrPos(x), "the queue is set to "+trimOrg(r.Of(x.Val).String())+", which is not fresh storage nor the object's own queue: two sessions may share one backing array")
				case *ssa.UnOp:
					if x.Op != token.MUL {
						continue
					}
					ur := x.Referrers()
					if ur == nil {
						continue
					}
					for _, uu := range *ur {
						n++
						construct := "use of the hold queue in " + fn.Name()
						okUse, what := false, ""
						switch y := uu.(type) {
						case *ssa.IndexAddr, *ssa.Index, *ssa.Range, *ssa.DebugRef:
							okUse, what = true, "indexed / ranged"
						case *ssa.Call:
							if bi, ok := y.Call.Value.(*ssa.Builtin); ok {
								switch bi.Name() {
								case "len", "cap":
									okUse, what = true, bi.Name()
								case "append":
									if y.Call.Args[0] == ssa.Value(x) {
										okUse, what = true, "base of an append (its destination is checked as a store)"
										// the append's result must only be stored back into a queue field
										if ar := y.Referrers(); ar != nil {
											for _, au := range *ar {
												if st, ok := au.(*ssa.Store); ok {
													if fa2, ok := st.Addr.(*ssa.FieldAddr); ok && fieldName(fa2.X.Type(), fa2.Field) == "cached" && sameOrg(r.Of(fa2.X), owner) {
														continue
													}
												}
												if _, ok := au.(*ssa.DebugRef); ok {
													continue
												}
												okUse, what = false, "the grown queue is kept somewhere other than the same object's queue field"
											}
										}
									} else {
										what = "the queue's elements are appended to another slice"
										okUse = true // copies elements, does not share storage
									}
								}
							}
							if !okUse && what == "" {
								what = "the queue is passed to " + calleeName(y.Common())
								// a repository function that only reads its parameter
								if sc := staticCallee(y.Common()); sc != nil && InRepo(sc) && sc.Blocks != nil {
									for ai, av := range y.Call.Args {
										if av == ssa.Value(x) && ai < len(sc.Params) && readsSliceOnly(sc.Params[ai]) {
											okUse, what = true, "passed to "+sc.Name()+", which only reads it (len, index, range)"
										}
									}
								}
							}
						case *ssa.Slice:
							what = "a slice of the queue's storage is taken"
							okUse = true
							if sr := y.Referrers(); sr != nil {
								for _, su := range *sr {
									if st, ok := su.(*ssa.Store); ok {
										if fa2, ok := st.Addr.(*ssa.FieldAddr); ok && fieldName(fa2.X.Type(), fa2.Field) == "cached" && sameOrg(r.Of(fa2.X), owner) {
											continue
										}
									}
									if _, ok := su.(*ssa.DebugRef); ok {
										continue
									}
									okUse = false
								}
							}
							if okUse {
								what = "re-sliced into the same object's queue field"
							}
						default:
							what = fmt.Sprintf("the queue value flows into %T", uu)
						}
						if okUse {
							c.OK("queue-private", construct, p.InstrPos(uu), what)
						} else {
							c.Bad("queue-private", construct, p.InstrPos(uu), what+": the backing array of this session's hold queue becomes reachable from outside the object, so another session can end up holding its events in the same storage")
						}
					}
				}
			}
		})
	}
	c.Floor("uses of the hold-queue field examined", 6, n)
}

// inFnOrHelper: the fact was recorded in fn or in a function called (in this
// walk) from fn.
func inFnOrHelper(f TFact, fn *ssa.Function) bool {
	if f.Fn == fn {
		return true
	}
	name := funcDisplayName(fn)
	for i, s := range f.Stack {
		if s != name {
			continue
		}
		// reached from fn by plain calls, not through a callback of the
		// locked map (a callback is a code path of its own with its own rules)
		for _, t := range f.Stack[i+1:] {
			if strings.Contains(t, "GenericSyncMap") {
				return false
			}
		}
		return true
	}
	return false
}

// flagCellOf: the local boolean variable a guard atom tests: a load of the
// variable, or result i of a repository function all of whose returns give
// the value of one such variable (the flag handed out of a helper).
func flagCellOf(g GAtom) *ssa.Alloc {
	switch v := g.V.(type) {
	case *ssa.UnOp:
		if g.Op != "value" {
			return nil
		}
		return cellOf(g.R, v)
	case *ssa.Extract:
		cl, ok := v.Tuple.(*ssa.Call)
		if !ok {
			return nil
		}
		return returnedCell(g.R.P, cl, v.Index)
	case *ssa.Call:
		return returnedCell(g.R.P, v, 0)
	case *ssa.BinOp:
		// x == nil / x != nil on a result of a finder function
		var other ssa.Value
		switch {
		case isNilConst(v.Y):
			other = v.X
		case isNilConst(v.X):
			other = v.Y
		default:
			return nil
		}
		switch o := other.(type) {
		case *ssa.Extract:
			if cl, ok := o.Tuple.(*ssa.Call); ok {
				return returnedCell(g.R.P, cl, o.Index)
			}
		case *ssa.Call:
			return returnedCell(g.R.P, o, 0)
		}
	}
	return nil
}

func returnedCell(p *Prog, cl *ssa.Call, idx int) *ssa.Alloc {
	sc := staticCallee(cl.Common())
	if sc == nil || !InRepo(sc) || sc.Blocks == nil {
		return nil
	}
	var cell *ssa.Alloc
	okAll := true
	r := NewResolver(p)
	allInstrs(sc, func(in ssa.Instruction) {
		ret, isRet := in.(*ssa.Return)
		if !isRet || idx >= len(ret.Results) {
			return
		}
		u, isU := ret.Results[idx].(*ssa.UnOp)
		if !isU {
			okAll = false
			return
		}
		a := cellOf(r, u)
		if a == nil || (cell != nil && a != cell) {
			okAll = false
			return
		}
		cell = a
	})
	if !okAll {
		return nil
	}
	return cell
}

// samePath: some path of s's function passes both facts (one reaches the
// other); facts on different branches that each return do not belong to the
// same code path.
func samePath(f, s TFact) bool {
	fl := f.LiftTo(s.Fn)
	if fl == nil {
		return f.Fn == s.Fn
	}
	if fl == s.Ins {
		return true
	}
	return reachesInstr(fl, s.Ins) || reachesInstr(s.Ins, fl)
}

// readsSliceOnly: the slice parameter is used only for len/cap, indexing and
// ranging inside its function (it is not stored, appended to, re-sliced into
// something kept, returned or passed on).
func readsSliceOnly(prm *ssa.Parameter) bool {
	rr := prm.Referrers()
	if rr == nil {
		return true
	}
	for _, u := range *rr {
		switch y := u.(type) {
		case *ssa.IndexAddr:
			// element loads only
			if ir := y.Referrers(); ir != nil {
				for _, iu := range *ir {
					if ld, ok := iu.(*ssa.UnOp); ok && ld.Op == token.MUL {
						continue
					}
					if _, ok := iu.(*ssa.DebugRef); ok {
						continue
					}
					return false
				}
			}
		case *ssa.Index, *ssa.Range, *ssa.DebugRef:
		case *ssa.Call:
			bi, ok := y.Call.Value.(*ssa.Builtin)
			if !ok || (bi.Name() != "len" && bi.Name() != "cap") {
				return false
			}
		default:
			return false
		}
	}
	return true
}
