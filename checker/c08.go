package main

import (
	"fmt"
	"strings"

	"golang.org/x/tools/go/ssa"
)

func init() { register("C08", "other", checkC08) }

// importRules runs another property's rule function on a scratch check
// and copies the obligations of the named rules (prefix-matched).
// importCache: the obligations of a property's rule function, computed once
// per process (several properties reuse the same rules).
var importCache = map[string]*Check{}

func importRules(c *Check, from string, fn checkFn, prefix string, rules ...string) int {
	sub := importCache[from]
	if sub == nil {
		sub = NewCheck(from, "other", c.Tier, c.P)
		importCache[from] = sub // registered first: a cyclic import sees the (still empty) check instead of recursing for ever
		fn(sub)
	}
	n := 0
	for _, o := range sub.Obls {
		keep := o.Rule == "anchor" || o.Rule == "floor"
		for _, r := range rules {
			if strings.HasPrefix(o.Rule, r) {
				keep = true
			}
		}
		if !keep {
			continue
		}
		if o.Rule == "floor" && o.Verdict == Discharged {
			continue
		}
		o.Rule = prefix + o.Rule
		c.Obls = append(c.Obls, o)
		n++
	}
	for f := range sub.Analysed {
		c.Analysed[f] = true
	}
	return n
}

func checkC08(c *Check) {
	p := c.P
	c.Explanation = "Wiring rules for fail-stop: (1) every call of a pipeline worker (Ingest, Read) in package cmd sits in a closure started by (*errgroup.Group).Go of the group returned by errgroup.WithContext; (2) each worker closure returns the worker's error and the named-pipe check's error; (3) the context given to each worker and to the sshd processor is the group context, the group's parent is RunNamedPipe's parameter, and main passes the result of signal.NotifyContext for SIGINT and SIGTERM; (4) RunNamedPipe returns the error of eg.Wait(), mainWithError returns it, and main turns a non-nil error into a fatal exit; (5) each failure cause of the statement surfaces as a non-nil error of its worker: read errors incl. end-of-stream (rules of C12), parse and correlator errors (rules of C15), event write errors of every sshd form and their propagation through the syslog ingester; (6) no worker can be left blocked when the group context is cancelled (all blocking-site rules of C13, plus the HTTP server pair ListenAndServe/Shutdown). The bound on the exit time and the behaviour of the built binary under load are not decided beyond (6)."
	c.Rule("workers-under-errgroup / worker-error-returned / group-context-threaded / signal-context / wait-error-to-exit-status / failure-causes-surface / no-worker-left-blocked")
	c.Trust("errgroup.Group: Wait returns the first non-nil error and the group context is cancelled by it", "log.Fatal* exits with status 1", "signal.NotifyContext cancels its context on the listed signals")
	ws := findWorkers(c)
	var pipe, aux []Worker
	for _, w := range ws {
		if w.Pipe {
			pipe = append(pipe, w)
		} else {
			aux = append(aux, w)
		}
	}
	c.Floor("pipeline workers started through the error group", 3, len(pipe))
	j := &CtxJudge{P: p}
	// 1. every Ingest/Read call in cmd is inside a worker closure; the group comes from WithContext
	workerFn := map[*ssa.Function]bool{}
	for _, w := range ws {
		workerFn[w.Fn] = true
	}
	// functions extracted from a worker closure: statically called, only
	// from worker code, never started with go
	for changed := true; changed; {
		changed = false
		for _, fn := range p.AllRepoFuncs() {
			if FuncPkgPath(fn) != ModPath+"/cmd" || workerFn[fn] {
				continue
			}
			sites := staticCallers(p, fn)
			if len(sites) == 0 {
				continue
			}
			all := true
			for _, s := range sites {
				_, isGo := s.(*ssa.Go)
				_, isDefer := s.(*ssa.Defer)
				if !workerFn[s.Parent()] || isGo || isDefer {
					all = false
				}
			}
			if all {
				workerFn[fn] = true
				changed = true
			}
		}
	}
	for _, fn := range p.AllRepoFuncs() {
		if FuncPkgPath(fn) != ModPath+"/cmd" {
			continue
		}
		c.Fn(funcDisplayName(fn))
		for _, ci := range callsIn(fn) {
			sc := staticCallee(ci.Common())
			if sc == nil || !InRepo(sc) || sc.Signature.Recv() == nil || !(sc.Name() == "Ingest" || sc.Name() == "Read") {
				continue
			}
			name := "call of " + funcDisplayName(sc) + " in " + fn.Name()
			_, isGo := ci.(*ssa.Go)
			c.Cond(workerFn[fn] && !isGo, "workers-under-errgroup", name, p.InstrPos(ci), "inside a closure started by (*errgroup.Group).Go", "a pipeline worker is started outside the error group (bare goroutine or inline call): its failure neither cancels the others nor reaches the exit status")
		}
		allInstrs(fn, func(in ssa.Instruction) {
			if g, ok := in.(*ssa.Go); ok {
				c.Bad("workers-under-errgroup", "bare go statement in "+fn.Name(), p.InstrPos(g), "a goroutine is started in package cmd outside the error group")
			}
		})
	}
	for _, w := range ws {
		r := NewResolver(p)
		g := r.Of(w.Site.Common().Args[0])
		ok := g.K == "call" && g.Name == "golang.org/x/sync/errgroup.WithContext" && g.Idx == 0
		if !ok && g.K == "param" {
			// helper taking the group as parameter: every caller passes the WithContext group
			ok = true
			fn := w.Site.Parent()
			idx := -1
			for i, q := range fn.Params {
				if ssa.Value(q) == g.V {
					idx = i
				}
			}
			for _, caller := range p.AllRepoFuncs() {
				for _, ci := range callsIn(caller) {
					if staticCallee(ci.Common()) == fn && idx >= 0 {
						a := NewResolver(p).Of(ci.Common().Args[idx])
						if !(a.K == "call" && a.Name == "golang.org/x/sync/errgroup.WithContext" && a.Idx == 0) {
							ok = false
						}
					}
				}
			}
		}
		c.Cond(ok, "workers-under-errgroup", "group of worker "+w.Label, p.InstrPos(w.Site), "the group returned by errgroup.WithContext", "worker is added to a group that is not the one created by errgroup.WithContext ("+trimOrg(g.String())+")")
	}
	// 2. worker closure returns the worker's error; named pipe check error returned
	for _, w := range ws {
		nerr := 0
		var bodyCalls []ssa.CallInstruction
		inBody := map[*ssa.Function]bool{}
		for _, bf := range cmdBody(p, w.Fn) {
			inBody[bf] = true
			bodyCalls = append(bodyCalls, callsIn(bf)...)
		}
		// reachesWorkerResult: the error value flows to the return of its
		// function and, when that is a helper of the worker, from every call
		// of the helper on to the worker closure's own result
		var reachesWorkerResult func(ev ssa.Value, fn *ssa.Function, depth int) bool
		reachesWorkerResult = func(ev ssa.Value, fn *ssa.Function, depth int) bool {
			fl := &errFlow{p: p, seen: map[ssa.Value]bool{}}
			fl.follow(ev, 0)
			if len(fl.Returned) == 0 || depth > 4 {
				return false
			}
			if fn == w.Fn {
				return true
			}
			sites := staticCallers(p, fn)
			if len(sites) == 0 {
				return false
			}
			// call sites inside this worker (a helper shared by several
			// workers is judged per worker)
			n := 0
			for _, s := range sites {
				if !inBody[s.Parent()] {
					continue
				}
				n++
				sv, ok := s.(ssa.Value)
				if !ok || !reachesWorkerResult(sv, s.Parent(), depth+1) {
					return false
				}
			}
			return n > 0
		}
		for _, ci := range bodyCalls {
			cc := ci.Common()
			if sc := staticCallee(cc); sc != nil && inBody[sc] {
				continue // a helper of this worker: its own calls are examined
			}
			sig := cc.Signature()
			if sig == nil || sig.Results().Len() == 0 || !isErrorType(sig.Results().At(sig.Results().Len()-1).Type()) {
				continue
			}
			callee := calleeName(cc)
			if strings.HasPrefix(callee, "fmt.") || strings.Contains(callee, "zap.") {
				continue
			}
			if !w.Pipe && !strings.Contains(callee, "net/http.Server") {
				continue // auxiliary metric collectors: their transient errors are not failure causes of the statement
			}
			v, isV := ci.(ssa.Value)
			if !isV {
				continue
			}
			nerr++
			var ev ssa.Value = v
			if sig.Results().Len() > 1 {
				ev = nil
				if rr := v.Referrers(); rr != nil {
					for _, u := range *rr {
						if ex, ok := u.(*ssa.Extract); ok && ex.Index == sig.Results().Len()-1 {
							ev = ex
						}
					}
				}
			}
			c.Cond(ev != nil && reachesWorkerResult(ev, ci.Parent(), 0), "worker-error-returned", "worker "+w.Label+": error of "+strings.TrimPrefix(callee, "invoke "), p.InstrPos(ci), "flows to the closure's return value (and so to eg.Wait)", "the error is not returned from the worker closure: the failure neither cancels the other workers nor reaches the exit status")
		}
		if w.Pipe {
			c.Floor("error-returning calls in worker "+w.Label, 1, nerr)
		}
	}
	// 3. group context threaded
	run := p.Func("cmd", "RunNamedPipe")
	if !c.Anchor("cmd.RunNamedPipe", run != nil) {
		return
	}
	for _, w := range pipe {
		r := NewResolver(p)
		var bodyCalls []ssa.CallInstruction
		for _, bf := range cmdBody(p, w.Fn) {
			bodyCalls = append(bodyCalls, callsIn(bf)...)
		}
		for _, ci := range bodyCalls {
			for i, a := range ci.Common().Args {
				if !isContextType(a.Type()) {
					continue
				}
				ok, why := j.OK(r, a)
				name := fmt.Sprintf("worker %s: context argument #%d of %s", w.Label, i, calleeName(ci.Common()))
				c.Cond(ok, "group-context-threaded", name, p.InstrPos(ci), why, why+": cancelling the group (after another worker failed) does not stop this worker")
			}
		}
	}
	// the group's parent context and the signal context
	rr := NewResolver(p)
	var wc *ssa.Call
	allInstrs(run, func(in ssa.Instruction) {
		if cl, ok := in.(*ssa.Call); ok {
			if sc := staticCallee(cl.Common()); sc != nil && sc.String() == "golang.org/x/sync/errgroup.WithContext" {
				wc = cl
			}
		}
	})
	if wc == nil {
		c.Bad("signal-context", "errgroup.WithContext in RunNamedPipe", p.Pos(run.Pos()), "no error group with a derived context")
	} else {
		po := rr.Of(wc.Call.Args[0])
		c.Cond(po.K == "param", "signal-context", "parent of the group context", p.InstrPos(wc), "RunNamedPipe's context parameter", "the group context derives from "+trimOrg(po.String())+", not from the caller's (signal) context")
	}
	mainFn := p.Func("", "mainWithError")
	mainMain := p.Func("", "main")
	if c.Anchor("main.mainWithError / main.main", mainFn != nil && mainMain != nil) {
		c.Fn(funcDisplayName(mainFn))
		c.Fn(funcDisplayName(mainMain))
		mr := NewResolver(p)
		var rc *ssa.Call
		allInstrs(mainFn, func(in ssa.Instruction) {
			if cl, ok := in.(*ssa.Call); ok && staticCallee(cl.Common()) == run {
				rc = cl
			}
		})
		if rc == nil {
			c.Bad("signal-context", "call of RunNamedPipe in main", p.Pos(mainFn.Pos()), "main does not run the daemon")
		} else {
			co := mr.Of(rc.Call.Args[0])
			okSig := false
			why := "context is " + trimOrg(co.String())
			if co.K == "call" && co.Name == "os/signal.NotifyContext" && co.Idx == 0 {
				nc := co.V.(*ssa.Call)
				sigs := map[string]bool{}
				if sl, ok := nc.Call.Args[1].(*ssa.Slice); ok {
					if refs := sl.X.Referrers(); refs != nil {
						for _, u := range *refs {
							if ia, ok := u.(*ssa.IndexAddr); ok {
								if ir := ia.Referrers(); ir != nil {
									for _, su := range *ir {
										if st, ok := su.(*ssa.Store); ok {
											sigs[trimOrg(mr.Of(st.Val).String())] = true
										}
									}
								}
							}
						}
					}
				}
				hasInt, hasTerm := false, false
				for s := range sigs {
					if strings.Contains(s, "os.Interrupt") || s == "C(2)" {
						hasInt = true
					}
					if s == "C(15)" {
						hasTerm = true
					}
				}
				okSig = hasInt && hasTerm
				why = fmt.Sprintf("signals %v", sigs)
			}
			c.Cond(okSig, "signal-context", "context passed to RunNamedPipe", p.InstrPos(rc), "signal.NotifyContext for SIGINT and SIGTERM", "the daemon's root context is not cancelled by SIGTERM and SIGINT ("+why+")")
			// 4. error to exit status
			fl := &errFlow{p: p, seen: map[ssa.Value]bool{}}
			fl.follow(rc, 0)
			c.Cond(len(fl.Returned) > 0, "wait-error-to-exit-status", "mainWithError returns RunNamedPipe's error", p.InstrPos(rc), "returned", "the daemon's error is dropped in mainWithError")
		}
		var mc *ssa.Call
		allInstrs(mainMain, func(in ssa.Instruction) {
			if cl, ok := in.(*ssa.Call); ok && staticCallee(cl.Common()) == mainFn {
				mc = cl
			}
		})
		okExit := false
		if mc != nil {
			nn, _, _ := errEdge(mc)
			if nn != nil {
				for _, in := range nn.Instrs {
					if cl, ok := in.(ssa.CallInstruction); ok {
						n := calleeName(cl.Common())
						if strings.HasPrefix(n, "log.Fatal") || n == "os.Exit" || strings.HasPrefix(n, "log.Panic") {
							okExit = true
						}
					}
					if _, ok := in.(*ssa.Panic); ok {
						okExit = true
					}
				}
			}
		}
		c.Cond(okExit, "wait-error-to-exit-status", "main exits non-zero on error", p.Pos(mainMain.Pos()), "non-nil error leads to log.Fatal*/os.Exit", "a non-nil error from the daemon does not lead to a non-zero exit status")
	}
	// RunNamedPipe returns eg.Wait's error
	var wait *ssa.Call
	// in RunNamedPipe or in a function of its package it is split into
	for _, bf := range cmdBody(p, run) {
		allInstrs(bf, func(in ssa.Instruction) {
			if cl, ok := in.(*ssa.Call); ok {
				if sc := staticCallee(cl.Common()); sc != nil && sc.String() == "(*golang.org/x/sync/errgroup.Group).Wait" {
					wait = cl
				}
			}
		})
	}
	if wait == nil {
		c.Bad("wait-error-to-exit-status", "eg.Wait() in RunNamedPipe", p.Pos(run.Pos()), "the daemon does not wait for its workers")
	} else {
		r := NewResolver(p)
		nn, _, _ := errEdge(wait)
		ok := false
		why := "the result of eg.Wait() is not tested"
		if nn != nil {
			ok, why = returnsOnEdge(r, wait.Parent(), nn, wait, false)
		} else {
			fl := &errFlow{p: p, seen: map[ssa.Value]bool{}}
			fl.follow(wait, 0)
			ok = len(fl.Returned) > 0
		}
		// a helper holding the Wait: its result must in turn be RunNamedPipe's
		for hf := wait.Parent(); ok && hf != run; {
			sites := staticCallers(p, hf)
			if len(sites) != 1 {
				ok, why = false, "the function waiting for the workers is not called exactly once"
				break
			}
			sv, isVal := sites[0].(ssa.Value)
			if !isVal {
				ok, why = false, "the result of the function waiting for the workers is dropped"
				break
			}
			if hn, _, _ := errEdge(sv); hn != nil {
				ok, why = returnsOnEdge(r, sites[0].Parent(), hn, sv, false)
			} else {
				fl := &errFlow{p: p, seen: map[ssa.Value]bool{}}
				fl.follow(sv, 0)
				if len(fl.Returned) == 0 {
					ok, why = false, "the result of the function waiting for the workers is dropped"
				}
			}
			hf = sites[0].Parent()
		}
		c.Cond(ok, "wait-error-to-exit-status", "RunNamedPipe returns eg.Wait()'s error", p.InstrPos(wait), "the first worker error becomes RunNamedPipe's result", "the workers' error is dropped: "+why)
		// every worker is started before Wait
		for _, w := range ws {
			if w.Site.Parent() == run {
				c.Cond(dominatesInstr(w.Site, wait) || reachesInstr(w.Site, wait), "wait-error-to-exit-status", "worker "+w.Label+" is awaited", p.InstrPos(w.Site), "started before eg.Wait()", "worker started after the group is awaited")
			}
		}
	}
	// 5. failure causes surface
	n := importRules(c, "C12", checkC12, "failure-cause: pipe read/callback error -> ", "read-error-ends-delivery", "callback-error-returned-unchanged")
	n += importRules(c, "C15", checkC15, "failure-cause: audit line/correlator error -> ", "no-error-dropped", "parse-error-identifies-line", "processor-returns-received-error", "error-handoff-keeps-first-error")
	n += importRules(c, "C06", checkC06, "failure-cause: sshd line error -> ", "line-error-returned")
	c.Floor("imported failure-cause obligations (C12, C15, C06 rules)", 22, n)
	nw := 0
	for _, es := range EmitSites(p) {
		if FuncPkgPath(es.Fn) != ModPath+"/"+pkgSshd {
			continue
		}
		nw++
		fl := &errFlow{p: p, seen: map[ssa.Value]bool{}}
		fl.follow(es.Call, 0)
		c.Cond(len(fl.Returned) > 0, "failure-cause: event write error -> returned", "emit in "+es.Fn.Name()+" "+describeEmit(p, es), p.InstrPos(es.Call), "the write error flows to the entry function's result", "an event write error of the sshd pipeline is not returned: the daemon keeps running although events cannot be written")
	}
	c.Floor("sshd emit sites", 20, nw)
	// propagation through the dispatcher and the syslog ingester
	for _, fn := range []*ssa.Function{p.Func(pkgSshd, "ProcessEntry"), p.Method(pkgSshd, "SshdProcessorer", "ProcessSshdLogEntry"), p.Method("ingesters/syslog", "SyslogIngester", "Process"), p.Method("ingesters/syslog", "SyslogIngester", "Ingest"), p.Method("ingesters/auditlog", "AuditLogIngester", "Ingest")} {
		if fn == nil {
			continue
		}
		c.Fn(funcDisplayName(fn))
		for _, ci := range callsIn(fn) {
			cc := ci.Common()
			sig := cc.Signature()
			if sig == nil || sig.Results().Len() != 1 || !isErrorType(sig.Results().At(0).Type()) {
				continue
			}
			if strings.HasPrefix(calleeName(cc), "fmt.") {
				continue
			}
			v, ok := ci.(ssa.Value)
			if !ok {
				continue
			}
			fl := &errFlow{p: p, seen: map[ssa.Value]bool{}}
			fl.follow(v, 0)
			c.Cond(len(fl.Returned) > 0, "failure-cause: error propagated", "error of "+strings.TrimPrefix(calleeName(cc), "invoke ")+" in "+fn.Name(), p.InstrPos(ci), "returned to the caller", "the error is dropped on its way to the worker")
		}
	}
	// 6. no worker left blocked
	total := 0
	for _, w := range pipe {
		cone := p.ConeFrom([]*ssa.Function{w.Fn})
		total += blockingRules(c, j, w.Label, cone, true)
	}
	c.Floor("blocking sites in the pipeline workers' cones", 12, total)
	lockHoldersDoNotBlock(c)
	// HTTP / metrics workers
	for _, w := range aux {
		cone := p.ConeFrom([]*ssa.Function{w.Fn})
		for _, fn := range cone.Order {
			r := NewResolver(p)
			for _, s := range blockingSites(fn) {
				construct := fmt.Sprintf("%s: %s in %s", w.Label, s.Desc, funcDisplayName(fn))
				if s.Kind == "lock" {
					continue
				}
				if strings.Contains(s.Desc, "ListenAndServe") {
					ok, why := serverShutdownPair(p, j, s, ws)
					c.Cond(ok, "no-worker-left-blocked", construct, p.InstrPos(s.In), why, why)
					continue
				}
				ok, fact := matchIdiom(c, j, r, s, cone)
				c.Cond(ok, "no-worker-left-blocked", construct, p.InstrPos(s.In), fact, fact)
			}
		}
	}
}

// serverShutdownPair: idiom (g): a sibling worker waits for the group
// context and shuts the same server down.
func serverShutdownPair(p *Prog, j *CtxJudge, s BSite, ws []Worker) (bool, string) {
	ls := s.In.(*ssa.Call)
	r := NewResolver(p)
	srv := r.Of(ls.Call.Args[0])
	for _, w := range ws {
		wr := NewResolver(p)
		var done, shut ssa.Instruction
		allInstrs(w.Fn, func(in ssa.Instruction) {
			switch x := in.(type) {
			case *ssa.UnOp:
				if cx := doneRecvOf(x.X); cx != nil {
					if ok, _ := j.OK(wr, cx); ok {
						done = in
					}
				}
			case *ssa.Call:
				if sc := staticCallee(x.Common()); sc != nil && sc.String() == "(*net/http.Server).Shutdown" {
					if sameValue(wr.Of(x.Call.Args[0]), srv) || trimOrg(wr.Of(x.Call.Args[0]).String()) == trimOrg(srv.String()) {
						shut = in
					}
				}
			}
		})
		if done != nil && shut != nil && dominatesInstr(done, shut) {
			return true, "idiom (g): worker " + w.Label + " waits for Done() of the group context and shuts this server down, which makes ListenAndServe return"
		}
	}
	return false, "ListenAndServe without a sibling worker that shuts the server down when the group context is cancelled: the daemon cannot exit while the HTTP server runs"
}
