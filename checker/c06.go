package main

import (
	"fmt"
	"go/token"
	"regexp/syntax"
	"sort"
	"strings"

	"golang.org/x/tools/go/ssa"
)

func init() { register("C06", "other", checkC06) }

// The output format the property describes: which event slot carries
// which field of the message (field = named capture group).
var groupSlot = map[string]string{
	"Username":          "subjects.loggedAs",
	"Source":            "source.value",
	"Port":              "source.extra.port",
	"Alg":               "data.Alg",
	"SSHKeySum":         "data.SSHKeySum",
	"UserID":            "subjects.userID",
	"Serial":            "data.Serial",
	"CA":                "data.CA",
	"Shell":             "metadata.extra.shell",
	"DNSName":           "source.extra.dns",
	"FilePath":          "subjects.filePath",
	"SSHKeyType":        "subjects.keyType",
	"SSHKeyFingerprint": "subjects.fingerprint",
}

// Characters each field must be able to contain (from the property's
// value domain): a group whose class misses one of them rejects or
// truncates genuine values.
var groupAlphabet = map[string]string{
	"Username":          "azAZ09_.@-$é用",
	"Source":            "09afAF:.%-zZ",
	"Port":              "0123456789",
	"Alg":               "AZaz09-",
	"SSHKeySum":         "AZaz09+/=:",
	"UserID":            "azAZ09 ()-_@.",
	"Serial":            "0123456789",
	"CA":                "AZaz09 :+/=-",
	"Shell":             "/azAZ09._-",
	"DNSName":           "azAZ09.-",
	"FilePath":          "/ azAZ09._-",
	"SSHKeyType":        "AZaz09-",
	"SSHKeyFingerprint": "AZaz09+/=:",
}

// matchedRegexes: match calls whose non-nil edge holds at instruction at
// (looking through static callers is not needed: extraction happens in
// the entry functions themselves).
func matchedRegexes(fn *ssa.Function, at ssa.Instruction) []*ssa.Call {
	var out []*ssa.Call
	allInstrs(fn, func(in ssa.Instruction) {
		c, ok := in.(*ssa.Call)
		if !ok {
			return
		}
		if matchCallOf(c) != nil && dominatesInstr(c, at) && nonNilGuard(c, at) {
			out = append(out, c)
		}
	})
	return out
}

func checkC06(c *Check) {
	p := c.P
	c.Explanation = "Dispatch/extraction agreement, field routing, polarity, constant fields, exactly-one-event and group-alphabet rules for all message forms of the sshd processor (20 dispatch rows, 22 emit sites). Decides: the entry function of a row extracts with the pattern (or prefix) that selected it; every named group of every pattern matched at an emit site is routed to the slot the output format prescribes and no slot carries another group; outcome is succeeded exactly in accepted forms; type/component/pid/host/machine-id/timestamp come from the fixed sources; every path of an entry function after a successful match emits exactly one event; each group's character class admits the alphabet the property requires. Does NOT decide which substring a backtracking pattern captures for every field value (run-time value domain; settled only for the three messages of C17)."
	c.Rule("dispatch-extraction-agreement (floor 20 rows)")
	c.Rule("group-exists / same-pattern index (every SubexpIndex call)")
	c.Rule("routing: for every emit site and every named group G of a pattern matched there: slot(G) <- group G of that pattern, and no slot holds a group other than its own; slots without a field in the message hold a fixed placeholder")
	c.Rule("polarity-and-constants")
	c.Rule("exactly-one-event: every nil-returning path of an entry function that avoids the emit is the no-match or non-numeric-PID exit")
	c.Rule("group-alphabet-adequacy")
	c.Rule("free-text-boundary: a Username/UserID group whose closing delimiter can also be consumed later in the pattern is greedy")
	c.Trust("regexp sub-match contract", "time.Now() is read while the line is processed (ProcessSshdLogEntry)")
	d := FindDispatch(p)
	if !c.Anchor("sshd dispatcher", d != nil) {
		return
	}
	for _, pr := range d.Problems {
		c.Unk("dispatch-table", pr, "-", "dispatch row not understood")
	}
	rxm := p.RegexVars(pkgSshd)
	rx := RegexByName(rxm)
	c.Floor("package-level patterns", 20, len(rxm))
	c.Floor("dispatch rows", 20, len(d.Rows))
	c.Floor("functions between the ingester callback and the dispatcher", 2, lineReachesDispatcher(c))
	spacingRule(c) // field values reach the patterns as written (internal spacing preserved by the ingester)
	// ... the processor matches the text it was given (no rewriting of the
	// line before dispatch: rules of C17), and every record written to the
	// pipe reaches the callback once, whole (framing loop: rules of C12)
	nli := importRules(c, "C17", checkC17, "", "line-integrity")
	nli += importRules(c, "C12", checkC12, "record-as-written: ", "once-verbatim-in-order", "framing-primitive", "reader-outlives-loop", "read-error-ends-delivery")
	c.Floor("imported line-integrity / record-as-written obligations", 8, nli)
	nodeNameRule(c)
	wholeLineMatchAnchored(c, d, rx)
	rowOf := map[*ssa.Function][]Row{}
	for _, r := range d.Rows {
		rowOf[r.Fn] = append(rowOf[r.Fn], r)
	}
	for _, rv := range sortedRegexVars(rxm) {
		c.Cond(rv.Err == "" && rv.Tree != nil && rv.Stores == 1, "pattern-constant", rv.Name, p.InstrPos(rv.Store), "compiled once from a constant", fmt.Sprintf("pattern variable is not a constant compiled once (%d stores, %s)", rv.Stores, rv.Err))
	}

	// 1. dispatch / extraction agreement
	for _, row := range d.Rows {
		name := "row " + row.Name()
		c.Fn(funcDisplayName(row.Fn))
		var first *ssa.Call
		allInstrs(row.Fn, func(in ssa.Instruction) {
			if cl, ok := in.(*ssa.Call); ok && matchCallOf(cl) != nil {
				if first == nil || dominatesInstr(cl, first) {
					first = cl
				}
			}
		})
		if row.Other > 0 && row.TabG == nil {
			c.Bad("dispatch-extraction-agreement", name, p.InstrPos(row.Site), fmt.Sprintf("besides its keyword predicates the row is guarded by %d condition(s) that are not keyword tests on the line (a pre-filter, a flag): a line of this form for which such a condition fails is not dispatched, and no event is produced although the form is supported", row.Other))
		}
		if len(row.Pos) == 0 {
			c.Bad("dispatch-extraction-agreement", name, p.InstrPos(row.Site), "the row is selected without a recognised predicate on the line (a matcher that is neither a literal prefix test nor a package-level pattern)")
			continue
		}
		last := row.Pos[len(row.Pos)-1]
		switch {
		case first == nil && last.Kind == "prefix":
			// form without a pattern (certificate invalid): fields are slices of the line
			c.OK("dispatch-extraction-agreement", name, p.InstrPos(row.Site), "prefix-dispatched form without pattern; fields are cut from the line after the prefix")
		case first == nil:
			c.Bad("dispatch-extraction-agreement", name, p.InstrPos(row.Site), "entry function does not extract with any pattern")
		default:
			g := regexGlobalOf(first.Call.Args[0])
			rv := rx[g]
			subj := NewResolver(p).Of(first.Call.Args[1])
			root, names := subj.FieldPath()
			lineOK := root.K == "param" && len(names) == 1 && names[0] == "logEntry"
			if last.Kind == "regex" {
				c.Cond(g == last.Regex && lineOK, "dispatch-extraction-agreement", name, p.InstrPos(first), "extracts with the pattern that selected the row ("+g+") on the line", "row selected by "+last.Regex+" but fields are extracted with "+g+" from "+subj.String()+": a line of this form is dropped or its fields come from another form's pattern")
			} else {
				okp := rv != nil && rv.Tree != nil && strings.HasPrefix(rv.LeadingLiteral(), last.Prefix) && lineOK
				c.Cond(okp, "dispatch-extraction-agreement", name, p.InstrPos(first), "pattern "+g+" begins with the dispatch prefix \""+last.Prefix+"\"", "row selected by prefix \""+last.Prefix+"\" but "+g+" does not begin with it")
			}
		}
	}

	// 2. group existence for every SubexpIndex call in the package
	nidx := 0
	for _, fn := range p.AllRepoFuncs() {
		if FuncPkgPath(fn) != ModPath+"/"+pkgSshd {
			continue
		}
		allInstrs(fn, func(in ssa.Instruction) {
			cl, ok := in.(*ssa.Call)
			if !ok {
				return
			}
			sc := staticCallee(cl.Common())
			if sc == nil || sc.String() != "(*regexp.Regexp).SubexpIndex" {
				return
			}
			// the pattern and the group name, directly or (in a helper taking
			// them as parameters) per static call site of the helper
			var ctxs []*Resolver
			_, direct := constStr(cl.Call.Args[1])
			if direct && regexGlobalOf(cl.Call.Args[0]) != "" {
				ctxs = append(ctxs, NewResolver(p))
			} else {
				for _, caller := range p.AllRepoFuncs() {
					for _, ci := range callsIn(caller) {
						if staticCallee(ci.Common()) == fn {
							ctxs = append(ctxs, NewResolver(p).Bind(fn, ci))
						}
					}
				}
				if len(ctxs) == 0 {
					ctxs = append(ctxs, NewResolver(p))
				}
			}
			for _, cr := range ctxs {
				nidx++
				o := cr.Of(cl)
				g := regexGlobalOfArg(o, 0)
				n, isC := callArgOrg(o, 1).ConstString()
				rv := rx[g]
				where := fn.Name()
				if s := cr.Site[fn]; s != nil {
					where += " called from " + s.Parent().Name() + " at " + p.InstrPos(s)
				}
				c.Cond(rv != nil && isC && rv.HasGroup(n), "group-exists", fmt.Sprintf("%s.SubexpIndex(%q) in %s", g, n, where), p.InstrPos(in), "group exists", "no such group in the pattern: the field is never extracted")
			}
		})
	}
	c.Floor("SubexpIndex calls", 40, nidx)

	// 3/4/5 per emit site
	wobj := p.ExtObj("github.com/metal-toolbox/auditevent", "EventWriter", "Write")
	emitFns := map[*ssa.Function]bool{}
	nemit := 0
	for _, es := range EmitSites(p) {
		if FuncPkgPath(es.Fn) != ModPath+"/"+pkgSshd {
			continue
		}
		emitFns[es.Fn] = true
		ctxs, why := rowContexts(p, es.Fn, rowOf, 0)
		if len(ctxs) == 0 {
			c.Unk("routing", "emit in "+es.Fn.Name(), p.InstrPos(es.Call), "emit site not reached from a dispatch row: "+why)
			continue
		}
		for _, hc := range ctxs {
			nemit++
			ev := ExtractEvent(p, hc.R, es.Event, es.Call)
			for _, u := range ev.Unknown {
				c.Unk("routing", "emit in "+es.Fn.Name()+": "+u, p.InstrPos(es.Call), "event construction not understood")
			}
			// patterns matched at this emit (in the entry function of the context)
			at := ssa.Instruction(es.Call)
			mfn := es.Fn
			if s := hc.R.Site[es.Fn]; s != nil {
				at, mfn = s, s.Parent()
			}
			matched := matchedRegexes(mfn, at)
			var mnames []string
			groups := map[string]string{} // group -> pattern
			for _, mc := range matched {
				g := regexGlobalOf(mc.Call.Args[0])
				mnames = append(mnames, g)
				if rv := rx[g]; rv != nil && rv.Tree != nil {
					for _, gn := range rv.Groups() {
						groups[gn] = g
					}
				}
			}
			sort.Strings(mnames)
			form := fmt.Sprintf("emit in %s [patterns matched: %s]", es.Fn.Name(), strings.Join(mnames, "+"))
			if hc.Chain != es.Fn.Name() {
				form += " via " + hc.Chain
			}
			pos := p.InstrPos(es.Call)
			// routing: each group -> its slot
			var gl []string
			for g := range groups {
				gl = append(gl, g)
			}
			sort.Strings(gl)
			for _, g := range gl {
				slot, known := groupSlot[g]
				if !known {
					c.Unk("routing", form+": group "+g, pos, "group has no slot in the output format table")
					continue
				}
				srcs := ev.EffectiveSrcs(p, slot)
				c.Cond(hasOnlyGroup(srcs, groups[g], g), "routing", form+": "+slot+" <- "+g, pos, "slot holds group "+g+" of "+groups[g], fmt.Sprintf("field %s of the message is not recorded in %s (slot holds %v)", g, slot, srcs))
			}
			// no slot holds a foreign group; field-less slots hold placeholders
			for _, slot := range ev.Names() {
				for _, s := range ev.EffectiveSrcs(p, slot) {
					if s.Kind != "group" {
						continue
					}
					gname := strings.SplitN(s.B, "@", 2)[0]
					if groupSlot[gname] != slot || strings.Contains(s.B, "@") {
						c.Bad("routing", form+": "+slot+" holds "+s.String(), pos, "a slot carries a different field of the message than the output format prescribes (swapped or foreign group)")
					}
				}
			}
			for _, slot := range []string{"subjects.loggedAs", "source.value"} {
				hasField := false
				for g := range groups {
					if groupSlot[g] == slot {
						hasField = true
					}
				}
				if hasField {
					continue
				}
				srcs := ev.EffectiveSrcs(p, slot)
				ok := len(srcs) == 1 && srcs[0].Kind == "const" && (srcs[0].A == "unknown" || srcs[0].A == "root")
				c.Cond(ok, "routing", form+": "+slot+" placeholder", pos, fmt.Sprintf("message has no such field; slot holds %v", srcs), fmt.Sprintf("message has no such field but slot holds %v", srcs))
			}
			// 4. polarity and constants
			acc := true
			for _, rw := range rowOf[hc.Entry] {
				if !rw.Accepted(rx) {
					acc = false
				}
			}
			want := map[string]Src{
				"type":              {Kind: "const", A: "UserLogin"},
				"component":         {Kind: "const", A: "sshd"},
				"subjects.pid":      {Kind: "field", A: "config.pid"},
				"target.host":       {Kind: "field", A: "config.nodeName"},
				"target.machine-id": {Kind: "field", A: "config.machineID"},
				"loggedAt":          {Kind: "field", A: "config.when"},
				"source.type":       {Kind: "const", A: "IP"},
			}
			if acc {
				want["outcome"] = Src{Kind: "const", A: "succeeded"}
			} else {
				want["outcome"] = Src{Kind: "const", A: "failed"}
			}
			var wk []string
			for k := range want {
				wk = append(wk, k)
			}
			sort.Strings(wk)
			for _, slot := range wk {
				srcs := ev.EffectiveSrcs(p, slot)
				ok := len(srcs) == 1 && srcs[0] == want[slot]
				c.Cond(ok, "polarity-and-constants", form+": "+slot, pos, "= "+want[slot].String(), fmt.Sprintf("slot %s holds %v, expected %s", slot, srcs, want[slot]))
			}
		}
	}
	c.Floor("emit sites x contexts", 22, nemit)

	// config.when is time.Now() taken in the per-line constructor
	whenOK := false
	for _, fn := range p.AllRepoFuncs() {
		allInstrs(fn, func(in ssa.Instruction) {
			st, ok := in.(*ssa.Store)
			if !ok {
				return
			}
			fa, ok := st.Addr.(*ssa.FieldAddr)
			if !ok || fieldName(fa.X.Type(), fa.Field) != "when" {
				return
			}
			if nt := namedOf(fa.X.Type()); nt == nil || nt.Obj().Name() != "SshdProcessorer" {
				return
			}
			o := NewResolver(p).Of(st.Val)
			good := o.K == "call" && o.Name == "time.Now"
			if good {
				whenOK = true
			}
			c.Cond(good, "polarity-and-constants", "store to SshdProcessorer.when in "+fn.Name(), p.InstrPos(in), "time.Now() read while the line is processed", "timestamp source is "+o.String())
		})
	}
	c.Cond(whenOK, "polarity-and-constants", "SshdProcessorer.when is set per line", "-", "set from time.Now()", "the per-line timestamp is never set")

	// 5. exactly one event per matched line
	containsEmit := func(in ssa.Instruction) bool {
		if cl, ok := in.(*ssa.Call); ok {
			if isCalleeObj(cl.Common(), wobj) {
				return true
			}
			if sc := staticCallee(cl.Common()); sc != nil && emitFns[sc] {
				return true
			}
		}
		return false
	}
	for _, row := range d.Rows {
		fn := row.Fn
		r := NewResolver(p)
		name := "row " + row.Name()
		bad := ""
		for _, b := range fn.Blocks {
			if len(b.Instrs) == 0 {
				continue
			}
			ret, ok := b.Instrs[len(b.Instrs)-1].(*ssa.Return)
			if !ok {
				continue
			}
			// reachable from entry avoiding every emit?
			if searchAvoiding(fn, nil, func(in ssa.Instruction) bool { return in == ret }, containsEmit) == nil {
				continue
			}
			// ... along branches that can be taken: a guard on the index of a
			// group that exists in the constant pattern ("SubexpIndex < 0",
			// "index >= len(match)") is never true
			if !reachableFeasible(fn, ret, containsEmit, func(b *ssa.BasicBlock, succ int) bool { return deadGroupIndexEdge(r, rx, b, succ) }) {
				continue
			}
			if len(ret.Results) > 0 && nilKind(r, ret.Results[len(ret.Results)-1], ret) == NonNil {
				continue
			}
			if allowedEarlyExit(ret) {
				continue
			}
			bad = "return at " + p.InstrPos(ret) + " is reachable without emitting although the line matched its form"
		}
		c.Cond(bad == "", "exactly-one-event", name, p.Pos(fn.Pos()), "every path that avoids the emit is the no-match or non-numeric-PID exit (at-most-one is C11)", bad)
	}

	// 6. group alphabets
	nalpha := 0
	for _, rv := range sortedRegexVars(rxm) {
		if rv.Tree == nil {
			continue
		}
		for _, g := range rv.Groups() {
			need, ok := groupAlphabet[g]
			if !ok {
				c.Unk("group-alphabet-adequacy", rv.Name+" group "+g, p.InstrPos(rv.Store), "group not in the alphabet table")
				continue
			}
			nalpha++
			rc := groupRep(rv.Group(g))
			if !rc.OK {
				c.Unk("group-alphabet-adequacy", rv.Name+" group "+g, p.InstrPos(rv.Store), "group is not a repetition of a character class; alphabet cannot be read off")
				continue
			}
			miss := ""
			for _, ch := range need {
				if !rc.Contains(ch) {
					miss += string(ch)
				}
			}
			if rc.Max >= 0 {
				needLen := map[string]int{"Port": 5, "Serial": 20}[g]
				if needLen == 0 || rc.Max < needLen {
					miss += fmt.Sprintf(" (at most %d characters)", rc.Max)
				}
			}
			c.Cond(miss == "", "group-alphabet-adequacy", rv.Name+" group "+g, p.InstrPos(rv.Store), "class admits the required alphabet", fmt.Sprintf("class of group %s cannot contain %q: genuine values of this field are rejected or truncated. Pattern `%s`", g, miss, rv.Pattern))
		}
	}
	c.Floor("named groups examined", 45, nalpha)

	// 7. free text first, structured fields appended: the account name and
	// the certificate key ID are chosen outside sshd and printed before the
	// fields sshd appends. When the delimiter that ends such a group can
	// also be consumed further on in the pattern the split is ambiguous, and
	// only a greedy group takes the last delimiter, the one sshd appended
	nfree := 0
	for _, rv := range sortedRegexVars(rxm) {
		if rv.Tree == nil || rv.Tree.Op != syntax.OpConcat {
			continue
		}
		seq := rv.Tree.Sub
		for i, n := range seq {
			if n.Op != syntax.OpCapture || !freeTextFirstGroup[n.Name] {
				continue
			}
			rc := groupRep(n)
			if !rc.OK || rc.Max >= 0 {
				continue
			}
			j := i + 1
			delim := ""
			for j < len(seq) && seq[j].Op == syntax.OpLiteral {
				delim += string(seq[j].Rune)
				j++
			}
			if delim == "" {
				continue
			}
			inGroup := true
			for _, ch := range delim {
				if !rc.Contains(ch) {
					inGroup = false
				}
			}
			ambiguous := false
			for _, t := range seq[j:] {
				all := true
				for _, ch := range delim {
					if !canConsume(t, ch) {
						all = false
					}
				}
				if all {
					ambiguous = true
				}
			}
			nfree++
			key := rv.Name + " group " + n.Name
			switch {
			case !inGroup || !ambiguous:
				c.OK("free-text-boundary", key, p.InstrPos(rv.Store), fmt.Sprintf("the delimiter %q cannot occur both in the group and after it: one split only", delim))
			default:
				c.Cond(rc.Greedy, "free-text-boundary", key, p.InstrPos(rv.Store), fmt.Sprintf("greedy: the last %q, the one sshd appended, ends the group", delim), fmt.Sprintf("the group is lazy and ends at the first %q although the value itself may contain it: the fields after it are taken from inside the value, not from what sshd appended. Pattern `%s`", delim, rv.Pattern))
			}
		}
	}
	c.Floor("free-text groups followed by a delimiter", 12, nfree)
	_ = token.ADD
}

// freeTextFirstGroup: groups holding text chosen outside sshd (account name
// sent by the client, key ID chosen by the signer) that sshd prints before the
// fields it appends itself.
var freeTextFirstGroup = map[string]bool{"Username": true, "UserID": true}

// allowedEarlyExit: the return is guarded by "pattern did not match" or
// "PID token is not numeric".
func allowedEarlyExit(ret *ssa.Return) bool {
	for _, g := range GuardsOf(ret) {
		a := atomsOf(g)
		b, ok := a.V.(*ssa.BinOp)
		if !ok || !(isNilConst(b.X) || isNilConst(b.Y)) {
			continue
		}
		other := b.X
		if isNilConst(b.X) {
			other = b.Y
		}
		isNilEdge := (b.Op == token.EQL && a.Pos) || (b.Op == token.NEQ && !a.Pos)
		nonNilEdge := !isNilEdge
		if matchCallOf(other) != nil && isNilEdge {
			// only the *first* pattern of the form: a later optional pattern failing must not drop the event
			return matchIsFirst(other.(*ssa.Call))
		}
		if ex, ok := other.(*ssa.Extract); ok && ex.Index == 1 && nonNilEdge {
			if cl, ok := ex.Tuple.(*ssa.Call); ok {
				if sc := staticCallee(cl.Common()); sc != nil && sc.String() == "strconv.Atoi" {
					// only the conversion of the line's PID token
					o := NewResolver(nil).Of(cl.Call.Args[0])
					root, names := o.FieldPath()
					if root.K == "param" && len(names) == 1 && names[0] == "pid" {
						return true
					}
				}
			}
		}
	}
	return false
}

func matchIsFirst(mc *ssa.Call) bool {
	first := true
	allInstrs(mc.Parent(), func(in ssa.Instruction) {
		if cl, ok := in.(*ssa.Call); ok && cl != mc && matchCallOf(cl) != nil && dominatesInstr(cl, mc) {
			first = false
		}
	})
	return first
}

// lineReachesDispatcher: every record the ingester's callback receives is
// handed to the dispatcher. Walks the call chain upwards from the dispatcher
// (dispatcher <- ProcessSshdLogEntry <- syslog Process): in each function of
// the chain no path from the entry to a return that may carry a nil error
// avoids the call of the next function down. A line skipped on such a path
// produces no event although it is a supported message.
func lineReachesDispatcher(c *Check) int {
	p := c.P
	d := FindDispatch(p)
	if !c.Anchor("sshd dispatcher", d != nil) {
		return 0
	}
	n := 0
	// the dispatcher itself calls the selected entry function once: a second
	// call of the selected function on the same path (a "measure it" or
	// "log its error" call under a debug switch, followed by the normal
	// call) handles the line twice
	{
		var calls []ssa.Instruction
		for _, ci := range callsIn(d.Fn) {
			if ci.Common().Value == ssa.Value(d.Phi) {
				calls = append(calls, ci)
			}
		}
		isSel := func(in ssa.Instruction) bool {
			for _, s := range calls {
				if s == in {
					return true
				}
			}
			return false
		}
		var twice ssa.Instruction
		for _, s := range calls {
			if inLoop(s) {
				twice = s
			}
			if again := searchAvoiding(d.Fn, s, isSel, nil); again != nil {
				twice = again
			}
		}
		construct := "the dispatcher " + d.Fn.Name() + " calls the selected entry function at most once"
		if twice == nil {
			c.OK("line-dispatched-once", construct, p.InstrPos(d.CallSite), fmt.Sprintf("%d call site(s), none repeated on a path", len(calls)))
		} else {
			c.Bad("line-dispatched-once", construct, p.InstrPos(twice), "the selected entry function can be called a second time for the same line (e.g. once inside a debug-level branch and again after it): the event is written twice, its counter moves twice and an accepted login is forwarded twice")
		}
	}
	target := d.Fn
	for level := 0; level < 4 && target != nil; level++ {
		callers := map[*ssa.Function][]ssa.Instruction{}
		for _, fn := range p.AllRepoFuncs() {
			if !p.InDaemon(fn) || fn.Blocks == nil || fn == target {
				continue
			}
			for _, ci := range callsIn(fn) {
				hit := false
				if sc := staticCallee(ci.Common()); sc != nil {
					hit = sc == target
				} else {
					for _, dc := range p.dynCallees(ci) {
						if dc == target || unwrapBound(dc) == target {
							hit = true
						}
					}
				}
				if hit {
					callers[fn] = append(callers[fn], ci)
				}
			}
		}
		var next *ssa.Function
		var fns []*ssa.Function
		for fn := range callers {
			fns = append(fns, fn)
		}
		sort.Slice(fns, func(i, j int) bool { return fns[i].String() < fns[j].String() })
		for _, fn := range fns {
			pk := FuncPkgPath(fn)
			if fn.Synthetic != "" || strings.HasSuffix(pk, "/ingesters/namedpipe") || strings.HasSuffix(pk, "/cmd") {
				continue // the framing loop (C12) and the wiring (C08) are decided elsewhere
			}
			sites := callers[fn]
			isSite := func(in ssa.Instruction) bool {
				for _, s := range sites {
					if s == in {
						return true
					}
				}
				return false
			}
			r := NewResolver(p)
			n++
			c.Fn(funcDisplayName(fn))
			var skip ssa.Instruction
			for _, blk := range fn.Blocks {
				if len(blk.Instrs) == 0 || blk == fn.Recover {
					continue
				}
				ret, ok := blk.Instrs[len(blk.Instrs)-1].(*ssa.Return)
				if !ok {
					continue
				}
				if len(ret.Results) > 0 && isErrorType(ret.Results[len(ret.Results)-1].Type()) && nilKind(r, ret.Results[len(ret.Results)-1], ret) == NonNil {
					continue // failure exit: the worker stops
				}
				if searchAvoiding(fn, nil, func(in ssa.Instruction) bool { return in == ssa.Instruction(ret) }, isSite) != nil {
					skip = ret
				}
			}
			// ... and hands it on at most once (a line submitted twice is
			// counted, and possibly recorded, twice)
			var twice ssa.Instruction
			for _, s := range sites {
				if inLoop(s) {
					twice = s
				}
				if again := searchAvoiding(fn, s, isSite, nil); again != nil {
					twice = again
				}
			}
			if twice == nil {
				c.OK("line-dispatched-once", "a line given to "+fn.Name()+" reaches "+target.Name()+" at most once", p.Pos(fn.Pos()), "one call, not in a loop, not repeated on any path")
			} else {
				c.Bad("line-dispatched-once", "a line given to "+fn.Name()+" reaches "+target.Name()+" at most once", p.InstrPos(twice), "the same line can be handed on a second time (retry or loop): its counters move twice and its event or login can be produced twice")
			}
			// ... and the error of the next stage is this stage's result (a
			// failure parked in a channel or variable surfaces only when
			// another line arrives, or never)
			for _, s := range sites {
				val, isVal := s.(ssa.Value)
				sci, isCI := s.(ssa.CallInstruction)
				if !isCI {
					continue
				}
				sig := sci.Common().Signature()
				if !isVal || sig == nil || sig.Results().Len() == 0 || !isErrorType(sig.Results().At(sig.Results().Len()-1).Type()) {
					if _, isGo := s.(*ssa.Go); isGo {
						c.Bad("line-error-returned", "error of "+target.Name()+" called in "+fn.Name(), p.InstrPos(s), "the next stage runs in its own goroutine: its error is not the result of this stage")
					}
					continue
				}
				var ev ssa.Value = val
				if sig.Results().Len() > 1 {
					ev = nil
					if rr := val.Referrers(); rr != nil {
						for _, u := range *rr {
							if ex, ok := u.(*ssa.Extract); ok && ex.Index == sig.Results().Len()-1 {
								ev = ex
							}
						}
					}
				}
				okE, whyE := false, "the error result is discarded"
				if ev != nil {
					fl := &errFlow{p: p, seen: map[ssa.Value]bool{}}
					fl.follow(ev, 0)
					inFn := len(fl.Returned) > 0
					for _, ri := range fl.Returned {
						if ri.Parent() != fn {
							inFn = false
						}
					}
					switch {
					case len(fl.Sent) > 0:
						whyE = "the error is sent on a channel instead of being returned: it reaches the worker's result only if and when that channel is read (e.g. when another line arrives)"
					case !inFn:
						whyE = "the error is not returned by " + fn.Name()
					default:
						okE = true
					}
				}
				c.Cond(okE, "line-error-returned", "error of "+target.Name()+" called in "+fn.Name(), p.InstrPos(s), "returned to the caller", whyE+": a failure while processing a line (an event write error) does not stop the worker, and the daemon keeps running with this pipeline dead")
			}
			construct := "every line given to " + fn.Name() + " reaches " + target.Name()
			if skip == nil {
				c.OK("line-reaches-dispatcher", construct, p.Pos(fn.Pos()), "no return without error avoids the call")
			} else {
				c.Bad("line-reaches-dispatcher", construct, p.InstrPos(skip), "a path returns without error and without handing the line on: a supported message on that path produces no event (and an accepted login is never forwarded)")
			}
			next = fn
		}
		target = next
	}
	return n
}

// nodeNameRule: the node name given to the sshd processor is this node's
// name: the value handed to NewSshdProcessor comes from the node-name
// function, which returns an environment value only when it is non-empty and
// the host name otherwise (an empty override must not become the name).
func nodeNameRule(c *Check) {
	p := c.P
	ctor := p.Func(pkgSshd, "NewSshdProcessor")
	if !c.Anchor("sshd.NewSshdProcessor", ctor != nil) {
		return
	}
	// which parameter is stored into the nodeName field
	idx := -1
	r := NewResolver(p)
	allInstrs(ctor, func(in ssa.Instruction) {
		st, ok := in.(*ssa.Store)
		if !ok {
			return
		}
		fa, ok := st.Addr.(*ssa.FieldAddr)
		if !ok || fieldName(fa.X.Type(), fa.Field) != "nodeName" {
			return
		}
		if o := r.Of(st.Val); o.K == "param" {
			for i, q := range ctor.Params {
				if ssa.Value(q) == o.V {
					idx = i
				}
			}
		}
	})
	if !c.Anchor("node-name parameter of NewSshdProcessor", idx >= 0) {
		return
	}
	n := 0
	for _, site := range staticCallers(p, ctor) {
		if idx >= len(site.Common().Args) {
			continue
		}
		ups := resolveUp(p, site.Parent(), site.Common().Args[idx], 0)
		nonZero := 0
		for _, o := range ups {
			if o.K != "zero" {
				nonZero++
			}
		}
		for _, o := range ups {
			if o.K == "zero" && nonZero > 0 {
				continue // the zero value of a bundle returned together with an error
			}
			n++
			name := "node name given to the sshd processor in " + site.Parent().Name()
			if o.K != "call" || o.Idx != 0 || o.R == nil {
				c.Unk("node-name-source", name, p.InstrPos(site), "the node name is "+trimOrg(o.String())+", not the result of a function that can be inspected")
				continue
			}
			call := o.V.(*ssa.Call)
			sc := staticCallee(call.Common())
			if sc == nil || !InRepo(sc) || sc.Blocks == nil {
				c.Unk("node-name-source", name, p.InstrPos(site), "the node name is produced by "+o.Name)
				continue
			}
			c.Fn(funcDisplayName(sc))
			hr := NewResolver(p)
			bad := ""
			nret := 0
			allInstrs(sc, func(in ssa.Instruction) {
				ret, ok := in.(*ssa.Return)
				if !ok || len(ret.Results) == 0 {
					return
				}
				var own []Atom
				for _, g := range GuardsOf(ret) {
					own = append(own, atomsOf(g))
				}
				for _, alt := range condAlts(ret.Results[0], 0) {
					if alt.V == nil {
						continue
					}
					a := hr.Of(alt.V)
					var conds []GAtom
					for _, at := range append(append([]Atom{}, own...), alt.Conds...) {
						conds = append(conds, mkGAtom(hr, at))
					}
					switch {
					case a.K == "const":
						// "" together with an error
					case a.K == "call" && a.Name == "os.Hostname":
						nret++
					case a.K == "call" && (a.Name == "os.Getenv" || a.Name == "os.LookupEnv"):
						nret++
						// returned only when known to be non-empty
						okG := false
						for _, g := range conds {
							if g.X == nil || g.Y == nil {
								continue
							}
							isEnv := func(x *Org) bool { return x.K == "call" && x.V == a.V && x.Idx <= 0 }
							isEmpty := func(x *Org) bool { s, ok := x.ConstString(); return ok && s == "" }
							if (isEnv(g.X) && isEmpty(g.Y)) || (isEnv(g.Y) && isEmpty(g.X)) {
								if (g.Op == "!=" && g.Pos) || (g.Op == "==" && !g.Pos) {
									okG = true
								}
							}
						}
						if !okG {
							bad = "an environment value is returned without having been tested for emptiness: an empty override becomes the node name and every event carries an empty target host"
						}
					default:
						bad = "the node name can be " + trimOrg(a.String())
					}
				}
			})
			c.Cond(bad == "" && nret > 0, "node-name-source", name, p.Pos(sc.Pos()), "the non-empty environment override, else the host name", bad)
		}
	}
	c.Floor("node-name sources examined", 1, n)
}

// wholeLineMatchAnchored: a pattern matched against the whole line finds its
// leftmost match; unless the pattern is anchored at the start (or begins
// with the literal keyword the row was dispatched on, which pins the match
// to offset 0) that match can begin inside client-chosen text, and the
// groups then hold text from the wrong place. An unanchored helper pattern
// (the certificate identifiers) is sound only on the rest of the line cut
// at the end of an anchored match.
func wholeLineMatchAnchored(c *Check, d *Dispatch, rx map[string]*RegexVar) {
	p := c.P
	n := 0
	seen := map[ssa.Instruction]bool{}
	for _, row := range d.Rows {
		var walk func(fn *ssa.Function, r *Resolver, depth int)
		walk = func(fn *ssa.Function, r *Resolver, depth int) {
			if depth > 3 || fn.Blocks == nil || FuncPkgPath(fn) != ModPath+"/"+pkgSshd {
				return
			}
			for _, ci := range callsIn(fn) {
				sc := staticCallee(ci.Common())
				if sc == nil {
					continue
				}
				if sc.Signature.Recv() != nil && strings.HasPrefix(sc.String(), "(*regexp.Regexp).") && len(ci.Common().Args) >= 2 {
					switch sc.Name() {
					case "FindStringSubmatch", "MatchString", "FindString", "FindStringIndex", "FindStringSubmatchIndex", "FindAllString", "FindAllStringSubmatch":
					default:
						continue
					}
					g := regexGlobalOf(ci.Common().Args[0])
					rv := rx[g]
					if rv == nil || rv.Tree == nil || seen[ci] {
						continue
					}
					so := r.Of(ci.Common().Args[1])
					if !(so.K == "field" && so.Name == "logEntry") {
						continue // a part of the line: judged by the slicing idioms of C11
					}
					seen[ci] = true
					n++
					okA := rv.BeginAnchored()
					how := "anchored at the start"
					if !okA {
						lit := rv.LeadingLiteral()
						for _, pr := range row.Pos {
							if pr.Kind == "prefix" && lit != "" && (strings.HasPrefix(lit, pr.Prefix) || strings.HasPrefix(pr.Prefix, lit)) {
								okA = true
								how = "begins with the literal \"" + lit + "\" and the row is dispatched on the line prefix \"" + pr.Prefix + "\": the leftmost match is at offset 0"
							}
						}
					}
					c.Cond(okA, "group-alphabet-adequacy", fmt.Sprintf("%s matched against the whole line in %s", g, fn.Name()), p.InstrPos(ci), how, "the unanchored pattern "+g+" is matched against the whole line: its leftmost match can begin inside an earlier, client-chosen field (an account name or fingerprint that happens to contain the pattern's first literal), so the extracted groups hold text from the wrong place")
				} else if InRepo(sc) && sc != fn {
					walk(sc, r.Bind(sc, ci), depth+1)
				}
			}
		}
		walk(row.Fn, NewResolver(p), 0)
	}
	c.Floor("patterns matched against the whole line in entry functions", 15, n)
}

// reachableFeasible: target is reachable from the entry of fn without
// executing a barrier instruction and without taking an edge that dead
// reports as infeasible.
func reachableFeasible(fn *ssa.Function, target ssa.Instruction, barrier func(ssa.Instruction) bool, dead func(b *ssa.BasicBlock, succ int) bool) bool {
	if len(fn.Blocks) == 0 {
		return false
	}
	seen := map[*ssa.BasicBlock]bool{fn.Blocks[0]: true}
	work := []*ssa.BasicBlock{fn.Blocks[0]}
	for len(work) > 0 {
		b := work[len(work)-1]
		work = work[:len(work)-1]
		blocked := false
		for _, in := range b.Instrs {
			if in == target {
				return true
			}
			if barrier != nil && barrier(in) {
				blocked = true
				break
			}
		}
		if blocked {
			continue
		}
		for i, s := range b.Succs {
			if dead != nil && len(b.Succs) == 2 && dead(b, i) {
				continue
			}
			if !seen[s] {
				seen[s] = true
				work = append(work, s)
			}
		}
	}
	return false
}

// deadGroupIndexEdge: the edge (b -> b.Succs[succ]) requires that the index
// of a named group that exists in a constant pattern is negative, or is not
// below the length of a (non-nil) match of that same pattern: such an edge
// is never taken.
func deadGroupIndexEdge(r *Resolver, rx map[string]*RegexVar, b *ssa.BasicBlock, succ int) bool {
	if len(b.Instrs) == 0 {
		return false
	}
	iff, ok := b.Instrs[len(b.Instrs)-1].(*ssa.If)
	if !ok {
		return false
	}
	cond := iff.Cond
	pos := succ == 0
	for {
		if u, ok := cond.(*ssa.UnOp); ok && u.Op == token.NOT {
			cond, pos = u.X, !pos
			continue
		}
		break
	}
	bo, ok := cond.(*ssa.BinOp)
	if !ok {
		return false
	}
	// existing-group index: which pattern
	idxPattern := func(v ssa.Value) string {
		o := r.Of(v)
		if o.K != "call" || o.Name != "(*regexp.Regexp).SubexpIndex" {
			return ""
		}
		g := regexGlobalOfArg(o, 0)
		name, isC := callArgOrg(o, 1).ConstString()
		rv := rx[g]
		if rv == nil || rv.Tree == nil || !isC || !rv.HasGroup(name) {
			return ""
		}
		return g
	}
	lenOfMatch := func(v ssa.Value) string {
		cl, ok := v.(*ssa.Call)
		if !ok {
			return ""
		}
		bi, ok := cl.Call.Value.(*ssa.Builtin)
		if !ok || bi.Name() != "len" || len(cl.Call.Args) != 1 {
			return ""
		}
		mc := matchCallOf(cl.Call.Args[0])
		if mc == nil {
			return ""
		}
		return regexGlobalOf(mc.Call.Args[0])
	}
	op := bo.Op
	x, y := bo.X, bo.Y
	// normalise to "idx OP other"
	if idxPattern(x) == "" && idxPattern(y) != "" {
		x, y = y, x
		op = flipOp(op)
	}
	g := idxPattern(x)
	if g == "" {
		return false
	}
	if !pos {
		op = negOp(op)
	}
	if k, okK := intConstOf(y); okK {
		// idx < 0, idx <= -1, idx == -1 are never true
		switch op {
		case token.LSS:
			return k <= 0
		case token.LEQ:
			return k < 0
		case token.EQL:
			return k < 0
		}
		return false
	}
	if lg := lenOfMatch(y); lg != "" && lg == g {
		// idx >= len(match), idx > len(match)-? : the match of the same pattern has every group
		switch op {
		case token.GEQ, token.GTR:
			return true
		}
	}
	return false
}
