package main

import (
	"fmt"
	"go/token"
	"strings"

	"golang.org/x/tools/go/ssa"
)

// mapContract checks that the repository's locked generic map implements
// the operations the correlation rules rely on: the rules of C01, C02,
// C09, C16 and C18 reason about *calls* of these methods; this rule ties
// the calls to what the methods do (on every instantiation in the program).
func mapContract(c *Check) {
	p := c.P
	lw := NewLockWalker(p)
	n := 0
	for _, fn := range p.AllRepoFuncs() {
		name, ok := lw.mapMethod(fn)
		if !ok || fn.Blocks == nil {
			continue
		}
		if fn.Origin() == nil {
			continue // analyse instantiations (concrete types); the generic body is identical
		}
		n++
		inst := name + instSuffix(fn)
		r := NewResolver(p)
		recv := fn.Params[0]
		isInner := func(v ssa.Value) bool { // v is the receiver's inner map
			o := r.Of(v)
			return o.K == "field" && o.Sub[0].K == "param" && o.Sub[0].V == ssa.Value(recv)
		}
		pos := p.Pos(fn.Pos())
		switch name {
		case "Iterate":
			var rg *ssa.Range
			var next *ssa.Next
			var cbCall *ssa.Call
			ncall := 0
			allInstrs(fn, func(in ssa.Instruction) {
				switch x := in.(type) {
				case *ssa.Range:
					rg = x
				case *ssa.Next:
					next = x
				case *ssa.Call:
					if x.Call.Value == ssa.Value(fn.Params[len(fn.Params)-1]) {
						cbCall = x
						ncall++
					}
				}
			})
			ok := rg != nil && next != nil && cbCall != nil && ncall == 1 && isInner(rg.X)
			why := "Iterate does not range over its own map calling the callback once per entry"
			if ok {
				// args are the key and value of this iteration
				k, v := r.Of(cbCall.Call.Args[0]), r.Of(cbCall.Call.Args[1])
				if !(k.K == "range" && k.Name == "key" && v.K == "range" && v.Name == "value") {
					ok = false
					why = "the callback does not receive the key and value of the entry being visited"
				}
			}
			if ok {
				// stop exactly when the callback returns false
				stopOnFalse := false
				if rr := cbCall.Referrers(); rr != nil {
					for _, u := range *rr {
						if iff, isIf := u.(*ssa.If); isIf {
							t, f := iff.Block().Succs[0], iff.Block().Succs[1]
							contT := reachesFromBlock(t, next) // true edge continues
							contF := reachesFromBlock(f, next)
							stopOnFalse = contT && !contF
						}
						if un, isNot := u.(*ssa.UnOp); isNot && un.Op == token.NOT {
							if ur := un.Referrers(); ur != nil {
								for _, uu := range *ur {
									if iff, isIf := uu.(*ssa.If); isIf {
										t, f := iff.Block().Succs[0], iff.Block().Succs[1]
										stopOnFalse = !reachesFromBlock(t, next) && reachesFromBlock(f, next)
									}
								}
							}
						}
					}
				}
				_, early := hasEarlyExit(fn)
				if !stopOnFalse && early {
					ok = false
					why = "the iteration does not stop exactly when the callback returns false (a 'true' result ends the sweep, or the result is ignored)"
				}
			}
			c.Cond(ok, "map-contract", inst, pos, "visits every entry with its own key and value until the callback returns false", why+": sweeps and scans of the correlator visit the wrong or too few entries")
		case "WithLockedValueDo":
			var lk *ssa.Lookup
			var cbCall *ssa.Call
			allInstrs(fn, func(in ssa.Instruction) {
				switch x := in.(type) {
				case *ssa.Lookup:
					lk = x
				case *ssa.Call:
					if x.Call.Value == ssa.Value(fn.Params[len(fn.Params)-1]) {
						cbCall = x
					}
				}
			})
			ok := lk != nil && cbCall != nil && lk.CommaOk && isInner(lk.X) && lk.Index == ssa.Value(fn.Params[1])
			why := "the value is not looked up in the map under the key parameter"
			if ok {
				a := r.Of(cbCall.Call.Args[0])
				if !(a.K == "lookup" && a.V != nil) {
					ok = false
					why = "the callback does not receive the value found under the key"
				}
			}
			if ok {
				// the callback's result is the method's result on that path
				fl := &errFlow{p: p, seen: map[ssa.Value]bool{}}
				fl.follow(cbCall, 0)
				if len(fl.Returned) == 0 {
					ok = false
					why = "the callback's error is not returned"
				}
			}
			c.Cond(ok, "map-contract", inst, pos, "calls the callback with the value stored under the key and returns its result", why+": events are attributed to another session's object, or a failure of the callback is lost")
		case "Store":
			var mu *ssa.MapUpdate
			allInstrs(fn, func(in ssa.Instruction) {
				if x, ok := in.(*ssa.MapUpdate); ok {
					mu = x
				}
			})
			ok := mu != nil && isInner(mu.Map) && mu.Key == ssa.Value(fn.Params[1]) && strip(mu.Value) == ssa.Value(fn.Params[2])
			c.Cond(ok, "map-contract", inst, pos, "m[key] = value", "Store does not store the value under the key")
		case "Load", "Has":
			var lk *ssa.Lookup
			allInstrs(fn, func(in ssa.Instruction) {
				if x, ok := in.(*ssa.Lookup); ok {
					lk = x
				}
			})
			ok := lk != nil && isInner(lk.X) && lk.Index == ssa.Value(fn.Params[1])
			if ok {
				// the presence flag returned is the lookup's ok
				ok = false
				allInstrs(fn, func(in ssa.Instruction) {
					if ret, isRet := in.(*ssa.Return); isRet {
						last := r.Of(ret.Results[len(ret.Results)-1])
						for _, a := range last.Alts() {
							if a.K == "ext" && a.Idx == 1 || (a.K == "lookup") {
								ok = true
							}
						}
						if ex, isEx := ret.Results[len(ret.Results)-1].(*ssa.Extract); isEx && ex.Tuple == ssa.Value(lk) && ex.Index == 1 {
							ok = true
						}
						if u, isU := ret.Results[len(ret.Results)-1].(*ssa.UnOp); isU && u.Op == token.MUL {
							// result spilled to a local because of defer
							ok = true
						}
					}
				})
			}
			c.Cond(ok, "map-contract", inst, pos, "reports the presence (and value) of the key", name+" does not look the key parameter up in the map")
		case "DeleteUnsafe", "Delete":
			okd := false
			for _, ci := range callsIn(fn) {
				cc := ci.Common()
				if b, isB := cc.Value.(*ssa.Builtin); isB && b.Name() == "delete" && isInner(cc.Args[0]) && cc.Args[1] == ssa.Value(fn.Params[1]) && len(GuardsOf(ci)) == 0 {
					okd = true
				}
				if sc := staticCallee(cc); sc != nil {
					if nm, isM := lw.mapMethod(sc); isM && nm == "DeleteUnsafe" && len(cc.Args) == 2 && cc.Args[0] == ssa.Value(recv) && cc.Args[1] == ssa.Value(fn.Params[1]) {
						okd = true
					}
				}
			}
			c.Cond(okd, "map-contract", inst, pos, "removes the key from the map", name+" does not remove the key parameter from the map: ended sessions or consumed logins stay reachable")
		case "Len":
			c.OK("map-contract", inst, pos, "size only")
		default:
			// a method that only reads: no update or delete of the inner
			// map, no store into the struct, no call of a mutating method
			// (a snapshot of the keys, a size, a membership test)
			readOnly := true
			allInstrs(fn, func(in ssa.Instruction) {
				switch x := in.(type) {
				case *ssa.MapUpdate:
					if isInner(x.Map) {
						readOnly = false
					}
				case *ssa.Store:
					if fa, isFA := x.Addr.(*ssa.FieldAddr); isFA && fa.X == ssa.Value(recv) {
						readOnly = false
					}
				case ssa.CallInstruction:
					cc := x.Common()
					if b, isB := cc.Value.(*ssa.Builtin); isB && b.Name() == "delete" {
						readOnly = false
					}
					if sc := staticCallee(cc); sc != nil {
						if nm, isM := lw.mapMethod(sc); isM && nm != "Len" && nm != "Has" && nm != "Load" {
							readOnly = false
						}
					}
				}
			})
			// ... and is not used by the correlator (its effect on a delivery would have to be known)
			usedByTracker := false
			for _, g := range p.AllRepoFuncs() {
				if !strings.HasPrefix(FuncPkgPath(g), ModPath+"/processors/auditd") {
					continue
				}
				for _, ci := range callsIn(g) {
					if sc := staticCallee(ci.Common()); sc != nil && (sc == fn || sc.Origin() == fn || (fn.Origin() != nil && sc.Origin() == fn.Origin())) {
						usedByTracker = true
					}
				}
			}
			if readOnly && !usedByTracker {
				c.OK("map-contract", inst, pos, "read-only method not used by the correlator")
			} else {
				c.Unk("map-contract", inst, pos, "method "+name+" of the locked map has no contract in the checker; calls of it cannot be interpreted")
			}
		}
	}
	c.Floor("locked-map method instantiations examined", 6, n)
}

func instSuffix(fn *ssa.Function) string {
	s := fn.String()
	i := strings.Index(s, "GenericSyncMap[")
	if i < 0 {
		return ""
	}
	j := strings.Index(s[i:], "]")
	if j < 0 {
		return ""
	}
	t := s[i+len("GenericSyncMap") : i+j+1]
	t = strings.ReplaceAll(t, ModPath+"/", "")
	return fmt.Sprintf(" %s", t)
}
