package main

import (
	"fmt"
	"go/token"
	"go/types"
	"os"
	"strings"

	"golang.org/x/tools/go/ssa"
)

// Drop paths. An entry function receives an item (an audit event, a line)
// and must hand it on (call a handler with it). A *drop path* runs from the
// entry of the function to a return without passing a hand-on. The branch
// conditions that decide between a drop path and the rest are the
// function's *drop filter*; the rules built on this file state what a drop
// filter may depend on.

// Decider is a branch one edge of which leads only to drop paths or to the
// rest of the function, the other edge not.
type Decider struct {
	If       *ssa.If
	DropTrue bool // the true edge heads towards the drop return(s)
}

// dropDeciders: handled marks the instructions that hand the item on;
// silent selects the returns that count as a drop (nil: every return).
func dropDeciders(fn *ssa.Function, handled func(ssa.Instruction) bool, silent func(*ssa.Return) bool) (ds []Decider, drops []*ssa.Return) {
	if fn == nil || len(fn.Blocks) == 0 {
		return nil, nil
	}
	hblock := map[*ssa.BasicBlock]bool{}
	dropBlock := map[*ssa.BasicBlock]*ssa.Return{}
	for _, b := range fn.Blocks {
		for _, in := range b.Instrs {
			if handled(in) {
				hblock[b] = true
				break
			}
			if ret, ok := in.(*ssa.Return); ok {
				if silent == nil || silent(ret) {
					dropBlock[b] = ret
				}
			}
		}
	}
	// forward: blocks reachable from the entry through blocks that do not hand on
	fwd := map[*ssa.BasicBlock]bool{}
	var stack []*ssa.BasicBlock
	if !hblock[fn.Blocks[0]] {
		fwd[fn.Blocks[0]] = true
		stack = append(stack, fn.Blocks[0])
	}
	for len(stack) > 0 {
		b := stack[len(stack)-1]
		stack = stack[:len(stack)-1]
		for _, s := range b.Succs {
			if !fwd[s] && !hblock[s] {
				fwd[s] = true
				stack = append(stack, s)
			}
		}
	}
	// backward: blocks of fwd from which a drop return is reached inside fwd
	back := map[*ssa.BasicBlock]bool{}
	for b, ret := range dropBlock {
		if fwd[b] {
			back[b] = true
			stack = append(stack, b)
			drops = append(drops, ret)
		}
	}
	for len(stack) > 0 {
		b := stack[len(stack)-1]
		stack = stack[:len(stack)-1]
		for _, pr := range b.Preds {
			if fwd[pr] && !back[pr] {
				back[pr] = true
				stack = append(stack, pr)
			}
		}
	}
	if os.Getenv("AMDEBUG") == "drop" {
		for _, b := range fn.Blocks {
			fmt.Printf("DROP %s b%d h=%v fwd=%v back=%v drop=%v\n", fn.Name(), b.Index, hblock[b], fwd[b], back[b], dropBlock[b] != nil)
		}
	}
	for _, b := range fn.Blocks {
		if !back[b] || len(b.Instrs) == 0 || len(b.Succs) != 2 {
			continue
		}
		iff, ok := b.Instrs[len(b.Instrs)-1].(*ssa.If)
		if !ok {
			continue
		}
		d0, d1 := back[b.Succs[0]], back[b.Succs[1]]
		if d0 != d1 {
			ds = append(ds, Decider{If: iff, DropTrue: d0})
		}
	}
	return ds, drops
}

// condOnly: the boolean value v is computed only from leaves accepted by
// leafOK (constants are always accepted): comparisons, negations, joins of
// short-circuit operators, calls of external functions on accepted operands,
// calls of repository predicates whose results and branch conditions are in
// turn computed only from accepted leaves (parameters bound to the caller's
// arguments), and tests of read-only tables with an accepted key. The second
// result names the first leaf that is not accepted.
func condOnly(r *Resolver, v ssa.Value, leafOK func(*Org) bool, depth int) (bool, string) {
	seen := map[ssa.Value]bool{}
	var rec func(r *Resolver, v ssa.Value, depth int) (bool, string)
	leaf := func(r *Resolver, v ssa.Value) (bool, string) {
		o := r.Of(v)
		for _, a := range o.Alts() {
			if a.K == "const" || a.K == "zero" {
				continue
			}
			if !leafOK(a) {
				return false, trimOrg(a.String())
			}
		}
		return true, ""
	}
	rec = func(r *Resolver, v ssa.Value, depth int) (bool, string) {
		if v == nil {
			return true, ""
		}
		if seen[v] {
			return true, ""
		}
		seen[v] = true
		defer delete(seen, v)
		switch x := v.(type) {
		case *ssa.Const:
			return true, ""
		case *ssa.Function:
			return true, ""
		case *ssa.ChangeType:
			return rec(r, x.X, depth)
		case *ssa.ChangeInterface:
			return rec(r, x.X, depth)
		case *ssa.MakeInterface:
			return rec(r, x.X, depth)
		case *ssa.Convert:
			return rec(r, x.X, depth)
		case *ssa.UnOp:
			if x.Op == token.MUL || x.Op == token.ARROW {
				return leaf(r, v)
			}
			return rec(r, x.X, depth)
		case *ssa.BinOp:
			if ok, w := rec(r, x.X, depth); !ok {
				return false, w
			}
			return rec(r, x.Y, depth)
		case *ssa.Phi:
			for _, e := range x.Edges {
				if ok, w := rec(r, e, depth); !ok {
					return false, w
				}
			}
			// the branches that choose among the edges
			idom := x.Block().Idom()
			for _, b := range x.Block().Parent().Blocks {
				if idom == nil || !(b == idom || idom.Dominates(b)) || b == x.Block() || x.Block().Dominates(b) {
					continue
				}
				if len(b.Instrs) == 0 {
					continue
				}
				if iff, ok := b.Instrs[len(b.Instrs)-1].(*ssa.If); ok {
					if ok, w := rec(r, iff.Cond, depth); !ok {
						return false, w
					}
				}
			}
			return true, ""
		case *ssa.Extract:
			if cl, ok := x.Tuple.(*ssa.Call); ok {
				if o := r.Of(v); leafOK(o) {
					return true, ""
				}
				return rec(r, cl, depth)
			}
			if lk, ok := x.Tuple.(*ssa.Lookup); ok {
				return rec(r, lk, depth)
			}
			return leaf(r, v)
		case *ssa.Lookup:
			if ld, ok := x.X.(*ssa.UnOp); ok {
				if g, ok := ld.X.(*ssa.Global); ok {
					if _, _, ok := readOnlyTable(g); ok {
						return rec(r, x.Index, depth)
					}
				}
			}
			return leaf(r, v)
		case *ssa.Call:
			if o := r.Of(v); leafOK(o) {
				return true, ""
			}
			cc := x.Common()
			sc := staticCallee(cc)
			if sc != nil && InRepo(sc) && sc.Blocks != nil {
				if depth >= 3 {
					return false, "call(" + sc.Name() + ") (nesting too deep)"
				}
				nr := r.Bind(sc, x)
				okAll, why := true, ""
				allInstrs(sc, func(in ssa.Instruction) {
					if !okAll {
						return
					}
					switch y := in.(type) {
					case *ssa.Return:
						for _, res := range y.Results {
							if b, isB := res.Type().Underlying().(*types.Basic); isB && b.Kind() == types.Bool {
								if ok, w := rec(nr, res, depth+1); !ok {
									okAll, why = false, w
								}
							}
						}
					case *ssa.If:
						if ok, w := rec(nr, y.Cond, depth+1); !ok {
							okAll, why = false, w
						}
					}
				})
				return okAll, why
			}
			if cc.IsInvoke() {
				if ok, w := rec(r, cc.Value, depth); !ok {
					return false, w
				}
			} else if _, isB := cc.Value.(*ssa.Builtin); !isB && sc == nil {
				return false, "call of a computed function"
			}
			if len(cc.Args) == 0 && !cc.IsInvoke() {
				// a value from the environment (clock, random source, global state)
				return false, "call(" + calleeName(cc) + ")"
			}
			for _, a := range cc.Args {
				if ok, w := rec(r, a, depth); !ok {
					return false, w
				}
			}
			return true, ""
		}
		return leaf(r, v)
	}
	return rec(r, v, depth)
}

// passesValue: the call hands the value on (one of its arguments, or its
// receiver, is the value itself) to a repository function or a method of a
// repository interface.
func passesValue(r *Resolver, in ssa.Instruction, item *Org) bool {
	ci, ok := in.(ssa.CallInstruction)
	if !ok {
		return false
	}
	cc := ci.Common()
	inRepo := false
	if cc.IsInvoke() {
		if cc.Method != nil && cc.Method.Pkg() != nil && strings.HasPrefix(cc.Method.Pkg().Path(), ModPath) {
			inRepo = true
		}
	} else if sc := staticCallee(cc); sc != nil && InRepo(sc) {
		inRepo = true
	} else if _, isClosure := cc.Value.(*ssa.MakeClosure); isClosure {
		inRepo = true
	}
	if !inRepo {
		return false
	}
	for _, a := range cc.Args {
		if sameOrg(r.Of(a), item) {
			return true
		}
	}
	// a closure that captures the value
	if mc, ok := cc.Value.(*ssa.MakeClosure); ok {
		for _, b := range mc.Bindings {
			if sameOrg(r.Of(b), item) {
				return true
			}
		}
	}
	for _, a := range cc.Args {
		if mc, ok := strip(a).(*ssa.MakeClosure); ok {
			for _, b := range mc.Bindings {
				if sameOrg(r.Of(b), item) {
					return true
				}
			}
		}
	}
	return false
}

// sessionEventReachesCorrelation (C02, imported by C04 and C09): in the
// tracker's delivery entry point every event is handed to one of the
// correlation handlers; the only branches that may decide to return without
// handing it on test nothing but the event's session identifier (the
// no-session short-circuit). A filter on anything else (record type,
// executable, result) silently removes events of correlated sessions from
// the stream: they are neither emitted nor held, and a session's end goes
// unnoticed.
func sessionEventReachesCorrelation(c *Check, t *Tracker) {
	p := c.P
	n := 0
	for _, ep := range t.EPs {
		var evp *ssa.Parameter
		for _, prm := range ep.Params {
			if pt, ok := prm.Type().(*types.Pointer); ok {
				if nt := namedOf(pt.Elem()); nt != nil && nt.Obj().Name() == "Event" && nt.Obj().Pkg() != nil && nt.Obj().Pkg().Path() == "github.com/elastic/go-libaudit/v2/aucoalesce" {
					evp = prm
				}
			}
		}
		if evp == nil || ep.Blocks == nil {
			continue
		}
		n++
		c.Fn(funcDisplayName(ep))
		r := NewResolver(p)
		item := r.Of(evp)
		handled := func(in ssa.Instruction) bool { return passesValue(r, in, item) }
		silent := func(ret *ssa.Return) bool {
			for _, res := range ret.Results {
				if isErrorType(res.Type()) && nilKind(r, res, ret) == NonNil {
					return false
				}
			}
			return true
		}
		ds, drops := dropDeciders(ep, handled, silent)
		name := "delivery entry point " + ep.Name()
		leafOK := func(o *Org) bool {
			root, names := o.FieldPath()
			if sameOrg(root, item) && len(names) == 0 {
				return true // the event pointer itself (a defensive nil test)
			}
			return sameOrg(root, item) && len(names) == 1 && names[0] == "Session"
		}
		bad := false
		for _, d := range ds {
			if ok, w := condOnly(r, d.If.Cond, leafOK, 0); !ok {
				bad = true
				c.Bad("event-reaches-correlation", name+": drop filter", p.InstrPos(d.If), "an event can be returned from without being handed to the correlation, depending on "+w+" (not only on its session identifier): events of a correlated session are dropped silently, and a dropped credential-disposal record leaves the session open for the next login with that PID")
			}
		}
		if !bad {
			c.OK("event-reaches-correlation", name, p.Pos(ep.Pos()), fmt.Sprintf("%d branch(es) decide on %d silent return(s) without a hand-on; each tests only the event's Session", len(ds), len(drops)))
		}
	}
	c.Floor("tracker delivery entry points taking an audit event", 1, n)
}
