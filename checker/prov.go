package main

import (
	"fmt"
	"go/constant"
	"go/token"
	"go/types"
	"sort"
	"strings"

	"golang.org/x/tools/go/ssa"
)

// Org describes where an SSA value comes from (analysis D, value provenance).
// It is a small term language over parameters, constants, globals, call
// results, fresh allocations, field/index selections and joins.
type Org struct {
	K    string // param const global call alloc field index lookup phi zero closure func binop unop conv slice ext range unknown makeiface typeassert
	V    ssa.Value
	Name string
	Sub  []*Org
	Idx  int
	R    *Resolver // call origins: the resolver (calling context) the call was seen in
}

func (o *Org) String() string {
	if o == nil {
		return "<nil>"
	}
	switch o.K {
	case "param":
		return "P(" + o.Name + ")"
	case "const":
		return "C(" + o.Name + ")"
	case "global":
		return "G(" + o.Name + ")"
	case "func":
		return "F(" + o.Name + ")"
	case "closure":
		return "closure(" + o.Name + ")"
	case "call":
		s := "call(" + o.Name + ")"
		if o.Idx >= 0 {
			s += fmt.Sprintf("#%d", o.Idx)
		}
		return s + "@" + o.V.Name()
	case "alloc":
		return "new(" + o.Name + ")@" + o.V.Name()
	case "zero":
		return "zero"
	case "field":
		return o.Sub[0].String() + "." + o.Name
	case "index":
		return o.Sub[0].String() + "[" + o.Sub[1].String() + "]"
	case "lookup":
		return o.Sub[0].String() + "{" + o.Sub[1].String() + "}"
	case "slice":
		return "slice(" + o.Sub[0].String() + ")"
	case "phi":
		parts := make([]string, len(o.Sub))
		for i, s := range o.Sub {
			parts[i] = s.String()
		}
		sort.Strings(parts)
		return "phi(" + strings.Join(parts, "|") + ")"
	case "binop", "unop":
		parts := make([]string, len(o.Sub))
		for i, s := range o.Sub {
			parts[i] = s.String()
		}
		return o.Name + "(" + strings.Join(parts, ",") + ")"
	case "range":
		return "range(" + o.Sub[0].String() + ")." + o.Name
	case "loop":
		return "loop"
	}
	n := "?"
	if o.V != nil {
		n = o.V.Name()
	}
	return o.K + ":" + n
}

// Alts flattens joins into the list of alternative origins.
func (o *Org) Alts() []*Org {
	if o.K != "phi" {
		return []*Org{o}
	}
	var out []*Org
	for _, s := range o.Sub {
		out = append(out, s.Alts()...)
	}
	return out
}

// IsField reports whether o is base.<names...> for a base satisfying pred.
func (o *Org) FieldPath() (root *Org, names []string) {
	cur := o
	for cur.K == "field" {
		names = append([]string{cur.Name}, names...)
		cur = cur.Sub[0]
	}
	return cur, names
}

// ConstString returns the string value of a constant origin.
func (o *Org) ConstString() (string, bool) {
	if o.K != "const" {
		return "", false
	}
	c, ok := o.V.(*ssa.Const)
	if !ok || c.Value == nil || c.Value.Kind() != constant.String {
		return "", false
	}
	return constant.StringVal(c.Value), true
}

func (o *Org) ConstInt() (int64, bool) {
	if o.K != "const" {
		return 0, false
	}
	c, ok := o.V.(*ssa.Const)
	if !ok || c.Value == nil || c.Value.Kind() != constant.Int {
		return 0, false
	}
	return c.Int64(), true
}

// Resolver computes origins. Env optionally binds parameters of inlined
// callees to caller origins.
type Resolver struct {
	P   *Prog
	Env map[ssa.Value]*Org
	// Site: for a callee whose parameters are bound in Env, the call
	// instruction in the caller (lets analyses continue in the caller).
	Site  map[*ssa.Function]ssa.Instruction
	cache map[ssa.Value]*Org
	busy  map[ssa.Value]bool
}

func NewResolver(p *Prog) *Resolver {
	return &Resolver{P: p, Env: map[ssa.Value]*Org{}, Site: map[*ssa.Function]ssa.Instruction{}, cache: map[ssa.Value]*Org{}, busy: map[ssa.Value]bool{}}
}

// strip removes representation-only wrappers.
func strip(v ssa.Value) ssa.Value {
	for {
		switch x := v.(type) {
		case *ssa.ChangeType:
			v = x.X
		case *ssa.ChangeInterface:
			v = x.X
		case *ssa.MakeInterface:
			v = x.X
		case *ssa.Convert:
			v = x.X
		default:
			return v
		}
	}
}

// isCell reports whether an Alloc is a variable cell (has whole-value
// stores) rather than a freshly built object.
func (r *Resolver) cellStores(a *ssa.Alloc) []*ssa.Store {
	var out []*ssa.Store
	var visit func(v ssa.Value)
	seen := map[ssa.Value]bool{}
	visit = func(v ssa.Value) {
		if seen[v] {
			return
		}
		seen[v] = true
		refs := v.Referrers()
		if refs == nil {
			return
		}
		for _, in := range *refs {
			switch x := in.(type) {
			case *ssa.Store:
				if x.Addr == v {
					out = append(out, x)
				}
			case *ssa.MakeClosure:
				for i, b := range x.Bindings {
					if b == v {
						fn := x.Fn.(*ssa.Function)
						if i < len(fn.FreeVars) {
							visit(fn.FreeVars[i])
						}
					}
				}
			}
		}
	}
	visit(a)
	return out
}

// fieldStoresInto reports whether some field of the alloc is written
// through a FieldAddr (object-style initialisation).
func hasFieldStores(a ssa.Value) bool {
	refs := a.Referrers()
	if refs == nil {
		return false
	}
	for _, in := range *refs {
		if fa, ok := in.(*ssa.FieldAddr); ok && fa.X == a {
			if rr := fa.Referrers(); rr != nil {
				for _, u := range *rr {
					if st, ok := u.(*ssa.Store); ok && st.Addr == fa {
						return true
					}
				}
			}
		}
	}
	return false
}

func typeName(t types.Type) string {
	// a declared alias (type A = T) is T
	t = types.Unalias(t)
	s := types.TypeString(t, func(p *types.Package) string { return p.Name() })
	return s
}

// Of resolves a value to its origin.
func (r *Resolver) Of(v ssa.Value) *Org {
	if v == nil {
		return &Org{K: "unknown"}
	}
	if o, ok := r.Env[v]; ok {
		return o
	}
	if o, ok := r.cache[v]; ok {
		return o
	}
	if r.busy[v] {
		return &Org{K: "loop", V: v}
	}
	r.busy[v] = true
	o := r.of(v)
	delete(r.busy, v)
	r.cache[v] = o
	return o
}

func (r *Resolver) of(v ssa.Value) *Org {
	switch x := v.(type) {
	case *ssa.Parameter:
		return &Org{K: "param", V: x, Name: x.Name()}
	case *ssa.Const:
		name := "nil"
		if x.Value != nil {
			name = x.Value.ExactString()
		} else if !isNillable(x.Type()) {
			name = "zero"
		}
		return &Org{K: "const", V: x, Name: name}
	case *ssa.Global:
		return &Org{K: "global", V: x, Name: x.Pkg.Pkg.Name() + "." + x.Name()}
	case *ssa.Function:
		return &Org{K: "func", V: x, Name: x.String()}
	case *ssa.Builtin:
		return &Org{K: "func", V: x, Name: x.Name()}
	case *ssa.FreeVar:
		fn := x.Parent()
		par := fn.Parent()
		if par != nil {
			idx := -1
			for i, fv := range fn.FreeVars {
				if fv == x {
					idx = i
				}
			}
			for _, b := range par.Blocks {
				for _, in := range b.Instrs {
					if mc, ok := in.(*ssa.MakeClosure); ok && mc.Fn == fn && idx >= 0 {
						return r.Of(mc.Bindings[idx])
					}
				}
			}
		}
		return &Org{K: "unknown", V: x}
	case *ssa.Alloc:
		stores := r.cellStores(x)
		if len(stores) == 0 {
			return &Org{K: "alloc", V: x, Name: typeName(deref(x.Type()))}
		}
		return &Org{K: "cell", V: x, Name: x.Comment}
	case *ssa.MakeMap, *ssa.MakeSlice, *ssa.MakeChan:
		return &Org{K: "alloc", V: v, Name: typeName(v.Type())}
	case *ssa.MakeClosure:
		return &Org{K: "closure", V: x, Name: x.Fn.(*ssa.Function).Name()}
	case *ssa.ChangeType:
		return r.Of(x.X)
	case *ssa.ChangeInterface:
		return r.Of(x.X)
	case *ssa.MakeInterface:
		return r.Of(x.X)
	case *ssa.Convert:
		in := r.Of(x.X)
		if types.Identical(x.X.Type().Underlying(), x.Type().Underlying()) {
			return in
		}
		return &Org{K: "unop", V: x, Name: "conv:" + typeName(x.Type()), Sub: []*Org{in}}
	case *ssa.FieldAddr:
		base := r.content(r.Of(x.X), x)
		return &Org{K: "field", V: x, Name: fieldName(x.X.Type(), x.Field), Sub: []*Org{base}}
	case *ssa.Field:
		base := r.Of(x.X)
		if v := structCallField(base, x.Field); v != nil {
			return v
		}
		return &Org{K: "field", V: x, Name: fieldName(x.X.Type(), x.Field), Sub: []*Org{base}}
	case *ssa.IndexAddr:
		base := r.content(r.Of(x.X), x)
		return &Org{K: "index", V: x, Sub: []*Org{base, r.Of(x.Index)}}
	case *ssa.Index:
		return &Org{K: "index", V: x, Sub: []*Org{r.Of(x.X), r.Of(x.Index)}}
	case *ssa.Lookup:
		return &Org{K: "lookup", V: x, Sub: []*Org{r.Of(x.X), r.Of(x.Index)}}
	case *ssa.Slice:
		return &Org{K: "slice", V: x, Sub: []*Org{r.content(r.Of(x.X), x)}}
	case *ssa.UnOp:
		switch x.Op {
		case token.MUL:
			in := r.Of(x.X)
			if in.K == "cell" {
				return r.loadCell(in.V.(*ssa.Alloc), x)
			}
			if in.K == "field" {
				// a field (path) of a struct built as a literal and never
				// written again (a carrier of captured state): its value
				if _, ok := x.X.(*ssa.FieldAddr); ok {
					if sv, sr := r.carrierPathValue(x.X, 0); sv != nil {
						return sr.Of(sv)
					}
					// a field of a package-level struct computed once in the
					// package initialiser and never written again
					if sv, sr := r.globalFieldValue(x.X); sv != nil {
						return sr.Of(sv)
					}
				}
			}
			if in.K == "field" && len(in.Sub) == 1 {
				if fa, ok := x.X.(*ssa.FieldAddr); ok {
					if v := structCallField(in.Sub[0], fa.Field); v != nil {
						return v
					}
				}
			}
			if in.K == "field" || in.K == "index" || in.K == "global" {
				return &Org{K: in.K, V: x, Name: in.Name, Sub: in.Sub, Idx: in.Idx}
			}
			return &Org{K: "unop", V: x, Name: "*", Sub: []*Org{in}}
		case token.ARROW:
			return &Org{K: "unop", V: x, Name: "<-", Sub: []*Org{r.Of(x.X)}}
		}
		return &Org{K: "unop", V: x, Name: x.Op.String(), Sub: []*Org{r.Of(x.X)}}
	case *ssa.BinOp:
		return &Org{K: "binop", V: x, Name: x.Op.String(), Sub: []*Org{r.Of(x.X), r.Of(x.Y)}}
	case *ssa.Call:
		return &Org{K: "call", V: x, Name: calleeName(x.Common()), Idx: -1, R: r}
	case *ssa.Extract:
		in := r.Of(x.Tuple)
		if in.K == "call" {
			return &Org{K: "call", V: in.V, Name: in.Name, Idx: x.Index, R: in.R}
		}
		if in.K == "range" {
			n := []string{"ok", "key", "value"}[x.Index]
			return &Org{K: "range", V: x, Name: n, Sub: in.Sub}
		}
		if in.K == "lookup" && x.Index == 0 {
			return &Org{K: "lookup", V: x, Sub: in.Sub}
		}
		return &Org{K: "ext", V: x, Name: fmt.Sprint(x.Index), Sub: []*Org{in}, Idx: x.Index}
	case *ssa.Next:
		it := x.Iter
		if rg, ok := it.(*ssa.Range); ok {
			return &Org{K: "range", V: x, Sub: []*Org{r.Of(rg.X)}}
		}
		return &Org{K: "unknown", V: x}
	case *ssa.Phi:
		var subs []*Org
		seen := map[string]bool{}
		for _, e := range x.Edges {
			o := r.Of(e)
			for _, a := range o.Alts() {
				if a.K == "loop" {
					continue
				}
				k := a.String()
				if !seen[k] {
					seen[k] = true
					subs = append(subs, a)
				}
			}
		}
		if len(subs) == 1 {
			return subs[0]
		}
		return &Org{K: "phi", V: x, Sub: subs}
	case *ssa.TypeAssert:
		return &Org{K: "typeassert", V: x, Sub: []*Org{r.Of(x.X)}}
	case *ssa.Select:
		return &Org{K: "select", V: x}
	}
	return &Org{K: "unknown", V: v}
}

func isNillable(t types.Type) bool {
	switch t.Underlying().(type) {
	case *types.Pointer, *types.Interface, *types.Map, *types.Slice, *types.Chan, *types.Signature:
		return true
	}
	return false
}

func deref(t types.Type) types.Type {
	if p, ok := t.Underlying().(*types.Pointer); ok {
		return p.Elem()
	}
	return t
}

func fieldName(t types.Type, i int) string {
	st, ok := deref(t).Underlying().(*types.Struct)
	if !ok || i >= st.NumFields() {
		return fmt.Sprintf("#%d", i)
	}
	return st.Field(i).Name()
}

// content: when base is a variable cell used as the base of an address
// computation (FieldAddr/IndexAddr/Slice on the cell itself), the
// selection applies to the cell's content.
func (r *Resolver) content(base *Org, at ssa.Instruction) *Org {
	if base.K == "cell" {
		return r.loadCell(base.V.(*ssa.Alloc), at)
	}
	return base
}

// loadCell resolves the content of a variable cell at instruction `at`:
// the last store before `at` in the same block when there is one, the
// single store when the cell is assigned exactly once, otherwise the
// join of all stores (plus the zero value when a path may read it before
// any store).
func (r *Resolver) loadCell(a *ssa.Alloc, at ssa.Instruction) *Org {
	stores := r.cellStores(a)
	if at != nil && at.Block() != nil && at.Parent() == a.Parent() {
		var last *ssa.Store
		for _, in := range at.Block().Instrs {
			if in == at {
				break
			}
			if st, ok := in.(*ssa.Store); ok && st.Addr == a {
				last = st
			}
			// a call may run a closure that rewrites the cell
			if _, ok := in.(ssa.CallInstruction); ok && last != nil && r.closureWrites(a) {
				last = nil
			}
		}
		if last != nil {
			return r.Of(last.Val)
		}
	}
	if len(stores) == 1 && !hasFieldStores(a) {
		st := stores[0]
		// single assignment: if the store dominates every use we may
		// identify the cell with the stored value. Parameter spills and
		// single-assignment locals satisfy this by construction.
		if st.Parent() == a.Parent() && (at == nil || at.Parent() != a.Parent() || dominatesInstr(st, at)) {
			return r.Of(st.Val)
		}
	}
	subs := []*Org{}
	seen := map[string]bool{}
	for _, st := range stores {
		o := r.Of(st.Val)
		for _, alt := range o.Alts() {
			if !seen[alt.String()] {
				seen[alt.String()] = true
				subs = append(subs, alt)
			}
		}
	}
	// may be read before assignment?
	zero := false
	if len(stores) > 0 {
		first := stores[0]
		for _, st := range stores {
			if st.Parent() == a.Parent() && dominatesInstr(st, first) {
				first = st
			}
		}
		if !(first.Parent() == a.Parent() && first.Block() == a.Block()) {
			zero = true
		}
	}
	if zero {
		subs = append(subs, &Org{K: "zero", V: a})
	}
	if len(subs) == 1 {
		return subs[0]
	}
	return &Org{K: "phi", V: a, Sub: subs}
}

func (r *Resolver) closureWrites(a *ssa.Alloc) bool {
	for _, st := range r.cellStores(a) {
		if st.Parent() != a.Parent() {
			return true
		}
	}
	return false
}

// dominatesInstr reports whether instruction a dominates instruction b
// (same function).
func dominatesInstr(a, b ssa.Instruction) bool {
	if a.Parent() != b.Parent() {
		return false
	}
	ba, bb := a.Block(), b.Block()
	if ba == bb {
		for _, in := range ba.Instrs {
			if in == a {
				return true
			}
			if in == b {
				return false
			}
		}
		return false
	}
	return ba.Dominates(bb)
}

func calleeName(cc *ssa.CallCommon) string {
	if cc.IsInvoke() {
		return "invoke " + typeName(cc.Value.Type()) + "." + cc.Method.Name()
	}
	switch f := cc.Value.(type) {
	case *ssa.Function:
		return funcDisplayName(f)
	case *ssa.Builtin:
		return f.Name()
	case *ssa.MakeClosure:
		return funcDisplayName(f.Fn.(*ssa.Function))
	}
	return "dynamic:" + cc.Value.Name()
}

// funcDisplayName gives a stable readable name: pkg.Func, (pkg.T).Method,
// with type arguments dropped.
func funcDisplayName(f *ssa.Function) string {
	if f == nil {
		return "<nil>"
	}
	g := f
	if g.Origin() != nil {
		g = g.Origin()
	}
	s := g.String()
	s = strings.ReplaceAll(s, ModPath+"/", "")
	return s
}

// staticCallee returns the called function for static calls, including
// immediately-applied closures.
func staticCallee(cc *ssa.CallCommon) *ssa.Function {
	if cc.IsInvoke() {
		return nil
	}
	switch f := cc.Value.(type) {
	case *ssa.Function:
		return f
	case *ssa.MakeClosure:
		return f.Fn.(*ssa.Function)
	}
	return nil
}

// isCalleeObj reports whether the call statically targets the function
// object obj (comparing generic origins).
func isCalleeObj(cc *ssa.CallCommon, obj types.Object) bool {
	if obj == nil {
		return false
	}
	if cc.IsInvoke() {
		if cc.Method == obj {
			return true
		}
		// a call through a (repository-declared) interface that the
		// method's receiver type implements: the call may reach the method
		if m, ok := obj.(*types.Func); ok && cc.Method.Name() == m.Name() {
			if sig, ok := m.Type().(*types.Signature); ok && sig.Recv() != nil {
				if iface, ok := cc.Value.Type().Underlying().(*types.Interface); ok && iface.NumMethods() > 0 {
					rt := sig.Recv().Type()
					if types.Implements(rt, iface) {
						return true
					}
					if _, isPtr := rt.(*types.Pointer); !isPtr && types.Implements(types.NewPointer(rt), iface) {
						return true
					}
				}
			}
		}
		return false
	}
	f := staticCallee(cc)
	if f == nil {
		return false
	}
	if f.Origin() != nil {
		f = f.Origin()
	}
	if f.Object() == nil {
		return false
	}
	fo := f.Object()
	if fo == obj {
		return true
	}
	if a, ok := fo.(*types.Func); ok {
		if b, ok := obj.(*types.Func); ok {
			return a.Origin() == b.Origin()
		}
	}
	return false
}

// Bind returns a resolver for callee fn called at site with the caller
// resolver r: parameters are bound to the caller's argument origins.
func (r *Resolver) Bind(fn *ssa.Function, site ssa.CallInstruction) *Resolver {
	nr := NewResolver(r.P)
	for k, v := range r.Env {
		nr.Env[k] = v
	}
	for k, v := range r.Site {
		nr.Site[k] = v
	}
	args := site.Common().Args
	if site.Common().IsInvoke() {
		args = append([]ssa.Value{site.Common().Value}, args...)
	}
	for i, prm := range fn.Params {
		if i < len(args) {
			nr.Env[prm] = r.Of(args[i])
		}
	}
	nr.Site[fn] = site
	return nr
}

// carrierPathValue: addr is a field path on a struct that was built as a
// literal (each field written exactly once, at construction, and the field
// of that struct type written nowhere else in the repository): the value
// stored into that field, and the resolver to interpret it with. The struct
// may be the spilled copy of a by-value receiver or parameter, in which case
// the caller's literal is consulted. (nil, nil) otherwise.
func (r *Resolver) carrierPathValue(addr ssa.Value, depth int) (ssa.Value, *Resolver) {
	if r.P == nil || depth > 3 {
		return nil, nil
	}
	var path []int
	var ftypes []*types.Named
	cur := addr
	for {
		fa, ok := cur.(*ssa.FieldAddr)
		if !ok {
			break
		}
		path = append([]int{fa.Field}, path...)
		ftypes = append([]*types.Named{namedOf(fa.X.Type())}, ftypes...)
		cur = fa.X
	}
	if len(path) == 0 {
		return nil, nil
	}
	for i, nt := range ftypes {
		if nt == nil || !r.P.fieldOnlyInitialised(nt, path[i]) {
			return nil, nil
		}
	}
	bo := r.Of(cur)
	if bo.K == "call" && bo.R != nil && bo.Idx <= 0 {
		// a carrier built by a constructor function: every return yields
		// the same struct literal of the constructor
		if call, ok := bo.V.(*ssa.Call); ok {
			if sc := staticCallee(call.Common()); sc != nil && InRepo(sc) && sc.Blocks != nil {
				var lit *ssa.Alloc
				okAll := true
				allInstrs(sc, func(in ssa.Instruction) {
					if ret, isRet := in.(*ssa.Return); isRet && len(ret.Results) >= 1 {
						a, isAlloc := strip(ret.Results[0]).(*ssa.Alloc)
						if !isAlloc || (lit != nil && lit != a) {
							okAll = false
							return
						}
						lit = a
					}
				})
				if okAll && lit != nil {
					return bo.R.Bind(sc, call).allocPathValue(lit, path, depth+1)
				}
			}
		}
		return nil, nil
	}
	al, ok := bo.V.(*ssa.Alloc)
	if bo.K != "alloc" || !ok {
		return nil, nil
	}
	return r.allocPathValue(al, path, depth)
}

func (r *Resolver) allocPathValue(al *ssa.Alloc, path []int, depth int) (ssa.Value, *Resolver) {
	samePath := func(a ssa.Value) bool {
		var sp []int
		cur := a
		for {
			fa, ok := cur.(*ssa.FieldAddr)
			if !ok {
				break
			}
			sp = append([]int{fa.Field}, sp...)
			cur = fa.X
		}
		if cur != ssa.Value(al) || len(sp) != len(path) {
			return false
		}
		for i := range sp {
			if sp[i] != path[i] {
				return false
			}
		}
		return true
	}
	var val ssa.Value
	n := 0
	var whole []*ssa.Store
	if al.Parent() != nil {
		for _, b := range al.Parent().Blocks {
			for _, in := range b.Instrs {
				st, ok := in.(*ssa.Store)
				if !ok {
					continue
				}
				if st.Addr == ssa.Value(al) {
					whole = append(whole, st)
				}
				if samePath(st.Addr) {
					n++
					val = st.Val
				}
			}
		}
	}
	if n == 1 && len(whole) == 0 {
		return val, r
	}
	if n == 0 && len(whole) == 1 && depth < 3 {
		// the copy of a by-value receiver / parameter / struct value:
		// look at the struct it was copied from
		o := r.Of(whole[0].Val)
		if o.K == "unop" && o.Name == "*" && len(o.Sub) == 1 && o.Sub[0].K == "alloc" {
			if a2, ok := o.Sub[0].V.(*ssa.Alloc); ok && a2 != al {
				return r.allocPathValue(a2, path, depth+1)
			}
		}
		// a field of another carrier (an embedded struct passed by value)
		if o.K == "field" {
			if ld, ok := o.V.(*ssa.UnOp); ok {
				if fa, ok := ld.X.(*ssa.FieldAddr); ok {
					var pre []int
					cur := ssa.Value(fa)
					for {
						f2, ok := cur.(*ssa.FieldAddr)
						if !ok {
							break
						}
						pre = append([]int{f2.Field}, pre...)
						cur = f2.X
					}
					bo := r.Of(cur)
					if a2, ok := bo.V.(*ssa.Alloc); ok && bo.K == "alloc" && a2 != al {
						return r.allocPathValue(a2, append(pre, path...), depth+1)
					}
				}
			}
		}
	}
	return nil, nil
}

// fieldOnlyInitialised: every store to field idx of named struct type nt in
// the repository addresses a struct allocated in the same function (a
// literal under construction): the field is never reassigned through a
// pointer, receiver or parameter.
func (p *Prog) fieldOnlyInitialised(nt *types.Named, idx int) bool {
	key := nt.Obj().Pkg().Path() + "." + nt.Obj().Name() + "#" + fmt.Sprint(idx)
	if p.fieldInit == nil {
		p.fieldInit = map[string]bool{}
	}
	if v, ok := p.fieldInit[key]; ok {
		return v
	}
	ok := true
	for _, fn := range p.AllRepoFuncs() {
		if fn.Blocks == nil {
			continue
		}
		for _, b := range fn.Blocks {
			for _, in := range b.Instrs {
				st, isSt := in.(*ssa.Store)
				if !isSt {
					continue
				}
				fa, isFA := st.Addr.(*ssa.FieldAddr)
				if !isFA || fa.Field != idx {
					continue
				}
				if n := namedOf(fa.X.Type()); n == nil || n.Obj() != nt.Obj() {
					continue
				}
				base := fa.X
				for {
					if f2, isFA := base.(*ssa.FieldAddr); isFA {
						base = f2.X
						continue
					}
					break
				}
				if _, isAlloc := base.(*ssa.Alloc); !isAlloc {
					ok = false
				}
			}
		}
	}
	p.fieldInit[key] = ok
	return ok
}

// fieldLateStore: a store to field idx of nt that does not address a struct
// allocated in the same function (nil when fieldOnlyInitialised).
func (p *Prog) fieldLateStore(nt *types.Named, idx int) ssa.Instruction {
	var found ssa.Instruction
	for _, fn := range p.AllRepoFuncs() {
		if fn.Blocks == nil || found != nil {
			continue
		}
		allInstrs(fn, func(in ssa.Instruction) {
			st, isSt := in.(*ssa.Store)
			if !isSt || found != nil {
				return
			}
			fa, isFA := st.Addr.(*ssa.FieldAddr)
			if !isFA || fa.Field != idx {
				return
			}
			if n := namedOf(fa.X.Type()); n == nil || n.Obj() != nt.Obj() {
				return
			}
			base := fa.X
			for {
				if f2, isFA := base.(*ssa.FieldAddr); isFA {
					base = f2.X
					continue
				}
				break
			}
			if _, isAlloc := base.(*ssa.Alloc); !isAlloc {
				found = in
			}
		})
	}
	return found
}

// Deref: a call origin of a repository function with a body is replaced by
// the origins of what the function returns for that result (parameters
// bound to the caller's arguments), recursively; other origins are returned
// unchanged. Lets value rules see through helpers that compute and return a
// value.
func Deref(o *Org, depth int) []*Org {
	var out []*Org
	for _, a := range o.Alts() {
		if a.K == "call" && a.R != nil && depth < 4 {
			if call, ok := a.V.(*ssa.Call); ok {
				if sc := staticCallee(call.Common()); sc != nil && InRepo(sc) && sc.Blocks != nil {
					idx := a.Idx
					if idx < 0 {
						idx = 0
					}
					if idx < sc.Signature.Results().Len() {
						nr := a.R.Bind(sc, call)
						n := 0
						allInstrs(sc, func(in ssa.Instruction) {
							if ret, ok := in.(*ssa.Return); ok && idx < len(ret.Results) {
								n++
								out = append(out, Deref(nr.Of(ret.Results[idx]), depth+1)...)
							}
						})
						if n > 0 {
							continue
						}
					}
				}
			}
		}
		out = append(out, a)
	}
	return out
}

// globalFieldValue: addr is a field path on a package-level struct variable
// that is assigned exactly once, in the package initialiser, and never
// written otherwise: the value the field was given there (through a
// constructor function returning a struct literal, or a literal), with the
// resolver to interpret it.
func (r *Resolver) globalFieldValue(addr ssa.Value) (ssa.Value, *Resolver) {
	var path []int
	cur := addr
	for {
		fa, ok := cur.(*ssa.FieldAddr)
		if !ok {
			break
		}
		path = append([]int{fa.Field}, path...)
		cur = fa.X
	}
	g, ok := cur.(*ssa.Global)
	if !ok || len(path) == 0 || g.Pkg == nil || r.P == nil {
		return nil, nil
	}
	var init *ssa.Store
	n := 0
	for fn := range ssaAllFuncsOf(g.Pkg) {
		for _, b := range fn.Blocks {
			for _, in := range b.Instrs {
				st, isSt := in.(*ssa.Store)
				if !isSt {
					continue
				}
				base := st.Addr
				for {
					if fa, isFA := base.(*ssa.FieldAddr); isFA {
						base = fa.X
						continue
					}
					break
				}
				if base != ssa.Value(g) {
					continue
				}
				n++
				if st.Addr == ssa.Value(g) && fn.Name() == "init" {
					init = st
				}
			}
		}
	}
	if n != 1 || init == nil {
		return nil, nil
	}
	ir := NewResolver(r.P)
	switch v := strip(init.Val).(type) {
	case *ssa.Call:
		sc := staticCallee(v.Common())
		if sc == nil || !InRepo(sc) || sc.Blocks == nil {
			return nil, nil
		}
		var lit *ssa.Alloc
		okAll := true
		allInstrs(sc, func(in ssa.Instruction) {
			if ret, isRet := in.(*ssa.Return); isRet && len(ret.Results) == 1 {
				var a *ssa.Alloc
				switch rv := strip(ret.Results[0]).(type) {
				case *ssa.Alloc:
					a = rv
				case *ssa.UnOp:
					a, _ = rv.X.(*ssa.Alloc)
				}
				if a == nil || (lit != nil && lit != a) {
					okAll = false
					return
				}
				lit = a
			}
		})
		if !okAll || lit == nil {
			return nil, nil
		}
		return ir.Bind(sc, v).allocPathValue(lit, path, 0)
	case *ssa.UnOp:
		if a, isA := v.X.(*ssa.Alloc); isA {
			return ir.allocPathValue(a, path, 0)
		}
	}
	return nil, nil
}

// structCallField: base is the struct value returned (by value) by a
// repository helper that builds it as a literal: the origin of the value
// the helper stored into field `field` of that literal (parameters of the
// helper bound to the caller's arguments). nil when base is not of that
// shape. Lets the value rules follow fields that travel in a small struct
// (parsed fields bundled by a helper and handed on to the event builder).
func structCallField(base *Org, field int) *Org {
	if base == nil || base.K != "call" || base.R == nil || base.R.P == nil {
		return nil
	}
	call, ok := base.V.(*ssa.Call)
	if !ok {
		return nil
	}
	sc := staticCallee(call.Common())
	if sc == nil || !InRepo(sc) || sc.Blocks == nil {
		return nil
	}
	idx := base.Idx
	if idx < 0 {
		idx = 0
	}
	if idx >= sc.Signature.Results().Len() {
		return nil
	}
	if _, isStruct := sc.Signature.Results().At(idx).Type().Underlying().(*types.Struct); !isStruct {
		return nil
	}
	if structCallDepth > 4 {
		return nil
	}
	structCallDepth++
	defer func() { structCallDepth-- }()
	nr := base.R.Bind(sc, call)
	var outs []*Org
	okAll := true
	allInstrs(sc, func(in ssa.Instruction) {
		ret, isRet := in.(*ssa.Return)
		if !isRet || idx >= len(ret.Results) || in.Block() == sc.Recover || !okAll {
			return
		}
		res := strip(ret.Results[idx])
		ld, isLd := res.(*ssa.UnOp)
		if !isLd || ld.Op != token.MUL {
			okAll = false
			return
		}
		al, isAl := ld.X.(*ssa.Alloc)
		if !isAl {
			okAll = false
			return
		}
		val, vr := nr.allocPathValue(al, []int{field}, 0)
		if val == nil {
			// no store to that field in the literal: its zero value
			outs = append(outs, &Org{K: "zero"})
			return
		}
		outs = append(outs, vr.Of(val))
	})
	if !okAll || len(outs) == 0 {
		return nil
	}
	if len(outs) == 1 {
		return outs[0]
	}
	return &Org{K: "phi", V: call, Sub: outs}
}

var structCallDepth int
