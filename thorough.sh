#!/bin/sh
# thorough.sh <property-id> [repo]
# Thorough tier: the property's obligations are recomputed (i) with cones
# from the coarser CHA call graph, (ii) under GOARCH=386 and (iii) with
# -tags int; (iv) the checker validates itself against the frozen mutants
# (must fire) and benign rewrites (must stay silent) in scratch copies;
# (v) generic analysers are run as a cross-reference (recorded only).
# The verdict about /repo is the OR of the runs (i)-(iii) and the primary
# run; self-validation and cross-references never change it.
set -u
cd "$(dirname "$0")"
export GOFLAGS=-mod=mod GOPROXY=off GOSUMDB=off GOTOOLCHAIN=local GOWORK=off CGO_ENABLED=0
ID="$1"; REPO="${2:-/repo}"
S=$(mktemp -d "${TMPDIR:-/tmp}/am-thorough.XXXXXX")
trap 'rm -rf "$S"' EXIT
rc=0
echo '{' > "$S/extra.json"
first=1
for cfg in "cha:-graph cha" "386:-goarch 386" "int:-tags int"; do
  name=${cfg%%:*}; flags=${cfg#*:}
  mkdir -p "$S/$name"
  bin/amcheck -p "$ID" -tier thorough -repo "$REPO" -out "$S/$name" -known /verif/known_findings.json $flags > "$S/$name.out" 2>&1
  code=$?
  if [ $code -ne 0 ]; then rc=1; grep -E 'VIOLATED|UNDECIDED|LOAD FAILURE' "$S/$name.out" | sed "s/^/[$name] /"; grep '^VIOLATION' "$S/$name.out" | head -3; fi
  summary=$(tail -1 "$S/$name.out" | sed 's/"/\\"/g')
  [ $first = 1 ] || echo ',' >> "$S/extra.json"; first=0
  printf ' "config_%s": {"flags": "%s", "exit": %d, "summary": "%s"}' "$name" "$flags" "$code" "$summary" >> "$S/extra.json"
done
# self-validation against frozen mutants (must fire), benign rewrites and the
# behaviour-preserving refactorings written by independent agents for this
# property (must stay silent); run in parallel, each in its own scratch copy
mut_total=0; mut_ok=0; mut_list=""
: > "$S/sv.args"
if [ -d "mutants/$ID" ]; then
  for f in mutants/$ID/*.patch; do [ -e "$f" ] && echo "$f fire" >> "$S/sv.args"; done
  for f in mutants/$ID/benign/*.patch; do [ -e "$f" ] && echo "$f silent" >> "$S/sv.args"; done
fi
for f in benign-refactors/$ID/R*/patch.diff; do [ -e "$f" ] && echo "$f silent" >> "$S/sv.args"; done
if [ -s "$S/sv.args" ]; then
  VERIF_REPO="$REPO" xargs -a "$S/sv.args" -P "${SV_JOBS:-8}" -L 1 sh -c 'id="$1"; f="$2"; mode="$3"; tools/mutant.sh "$f" "$mode" "$id" >/dev/null 2>&1; echo "$f $mode $?"' sh_ "$ID" 2>/dev/null > "$S/sv.out" || true
fi
[ -e "$S/sv.out" ] || : > "$S/sv.out"
while read f mode code; do
  [ -n "$f" ] || continue
  mut_total=$((mut_total+1)); [ "$code" -eq 0 ] && mut_ok=$((mut_ok+1))
  label=$(echo "$f" | sed "s#^mutants/$ID/##; s#^benign-refactors/$ID/#refactor-#; s#/patch.diff##")
  if [ "$mode" = fire ]; then
    st=fired; [ "$code" -eq 3 ] && st=skipped; [ "$code" -eq 1 ] && st=MISSED
    [ "$code" -eq 1 ] && echo "self-validation: mutant $f NOT detected"
  else
    st=silent; [ "$code" -eq 3 ] && st=skipped; [ "$code" -eq 1 ] && st=FALSE-ALARM
    [ "$code" -eq 1 ] && echo "self-validation: behaviour-preserving variant $f raised an alarm"
  fi
  mut_list="$mut_list\"$label: $st\","
done < "$S/sv.out"
printf ',\n "self_validation": {"variants": %d, "as_expected": %d, "results": [%s]}' "$mut_total" "$mut_ok" "${mut_list%,}" >> "$S/extra.json"
# cross-reference (recorded only)
vet=$(cd "$REPO" && go vet ./... 2>&1 | grep -v '^#' | wc -l)
sc=$(cd "$REPO" && staticcheck ./... 2>&1 | wc -l)
printf ',\n "cross_reference": {"go_vet_lines": %d, "staticcheck_lines": %d, "note": "generic analysers, recorded only; they give no verdict on the property"}\n}\n' "$vet" "$sc" >> "$S/extra.json"
bin/amcheck -p "$ID" -tier thorough -repo "$REPO" -out /verif/evidence -known /verif/known_findings.json -merge "$S/extra.json"
[ $? -ne 0 ] && rc=1
exit $rc
