#!/bin/sh
# run.sh <property-id> <quick|thorough>
# Decides one property by static analysis of /repo's current working tree.
set -u
cd "$(dirname "$0")"
export GOFLAGS=-mod=mod GOPROXY=off GOSUMDB=off GOTOOLCHAIN=local GOWORK=off CGO_ENABLED=0
ID="$1"; TIER="${2:-${VERIF_TIER:-quick}}"
REPO="${VERIF_REPO:-/repo}"
if [ ! -x bin/amcheck ] || [ -n "$(find checker -newer bin/amcheck -name '*.go' 2>/dev/null | head -1)" ]; then
  ./setup.sh >/dev/null 2>&1 || { echo "setup failed"; ./setup.sh; exit 2; }
fi
if [ "$TIER" = thorough ]; then
  exec ./thorough.sh "$ID" "$REPO"
fi
exec bin/amcheck -p "$ID" -tier quick -repo "$REPO" -out /verif/evidence -known /verif/known_findings.json
