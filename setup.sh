#!/bin/sh
# Builds the checker offline from the module cache (golang.org/x/tools v0.29.0).
set -e
cd "$(dirname "$0")/checker"
export GOFLAGS=-mod=mod GOPROXY=off GOSUMDB=off GOTOOLCHAIN=local GOWORK=off CGO_ENABLED=0
mkdir -p ../bin ../evidence/violations
go build -o ../bin/amcheck .
echo "built /verif/bin/amcheck"
